(* Proofs/C13Final.v -- the statements of property C13 as lemmas, and non-vacuity examples. *)
From Coq Require Import List NArith Bool Lia.
Import ListNotations.
Require Import RV.Model.Cache RV.Proofs.CacheProofs.
Open Scope N_scope.

Section Final.
  Context {D : Type}.
  Variable derive : N -> content -> option D.
  Variable U : file -> Prop.

  Notation entry_sound := (entry_sound derive U).
  Notation cache_sound := (cache_sound derive U).
  Notation stat_ok := (stat_ok U).
  Notation mode_ok := (mode_ok U).
  Notation files_in := (files_in U).
  Notation st_ok := (st_ok derive U).
  Notation op_ok := (op_ok derive U).
  Notation prog_ok := (prog_ok derive U).

  (* ---------------------------------------------------------------- C13_get *)
  Lemma c13_get : forall g lk cl fs ca ca2 c h,
    mode_ok g -> files_in fs -> cache_sound ca -> cache_sound ca2 ->
    o_res (get_at derive g lk cl fs ca ca2 c h) = cold derive g (flook fs c h).
  Proof. intros. apply (get_at_correct derive U); assumption. Qed.

  (* the cache after a _get is sound again; this needs no assumption on the mode *)
  Lemma get_at_cache_sound : forall g lk cl fs ca ca2 c h,
    files_in fs -> cache_sound ca -> cache_sound ca2 ->
    cache_sound (o_cache (get_at derive g lk cl fs ca ca2 c h)).
  Proof.
    intros g lk cl fs ca ca2 c h Hf Hs Hs2. unfold get_at.
    destruct (flook fs c h) as [f|] eqn:Ef; [|exact Hs].
    assert (HU : U f) by (eapply Hf; eauto).
    destruct (load_item_cache g ca c h (key_of g f)) as [d| |]; cbn [o_cache]; try exact Hs.
    set (cb := match lk with LkR => ca2 | LkW => ca end).
    assert (Hsb : cache_sound cb) by (unfold cb; destruct lk; assumption).
    destruct (match lk with LkR => load_item_cache g cb c h (key_of g f) | LkW => LMiss end) as [d| |];
      cbn [o_cache]; try exact Hsb.
    destruct (derive (g_ver g) (f_bytes f)) as [d|] eqn:Ed; cbn [o_cache]; [|exact Hsb].
    destruct (g_cw g), cl; cbn [o_cache]; auto using sound_store, sound_clean.
  Qed.

  (* ---------------------------------------------------------------- manipulations of the cache by others *)
  Definition adv_ok (a : @adv D) : Prop :=
    match a with APlant _ _ _ e => entry_sound e | _ => True end.

  Lemma adv_apply_sound : forall a ca, adv_ok a -> cache_sound ca -> cache_sound (adv_apply a ca).
  Proof.
    intros [l c h|l c| |l c h e] ca Ha Hs; cbn [adv_apply].
    - apply sound_adel. exact Hs.
    - apply (sound_filter derive U (fun k => match k with (l', c', _) => negb (loc_eqb l' l && N.eqb c' c) end)). exact Hs.
    - apply sound_nil.
    - apply sound_aput; assumption.
  Qed.

  Lemma adv_fold_sound : forall l ca, Forall adv_ok l -> cache_sound ca ->
    cache_sound (fold_left (fun ca a => adv_apply a ca) l ca).
  Proof.
    induction l as [|a r IH]; intros ca Hl Hs; cbn [fold_left]; [exact Hs|].
    inversion Hl; subst. apply IH; auto using adv_apply_sound.
  Qed.

  (* ---------------------------------------------------------------- whole histories *)
  Definition hstep_ok {R} (x : @hstep D R) : Prop :=
    match x with
    | HReq g lk p => mode_ok g /\ prog_ok g p
    | HExt c h (Some f) => U f
    | HExt c h None => True
    end.

  Lemma ext_edit_ok : forall s c h of, st_ok s -> match of with Some f => U f | None => True end ->
    st_ok (ext_edit s c h of) /\ s_files (ext_edit s c h of) = ext_files (s_files s) c h of.
  Proof.
    intros s c h [f|] [Hf Hs] Ho; cbn [ext_edit ext_files]; (split; [split; cbn [s_files s_cache]|reflexivity]);
      auto using files_in_aput, files_in_adel.
  Qed.

  Lemma run_hist_refines : forall R (hs : list (@hstep D R)) advs s,
    Forall hstep_ok hs -> Forall (Forall adv_ok) advs -> st_ok s ->
    fst (run_hist derive hs advs s) = fst (run_hist_spec derive hs (s_files s))
    /\ s_files (snd (run_hist derive hs advs s)) = snd (run_hist_spec derive hs (s_files s))
    /\ st_ok (snd (run_hist derive hs advs s)).
  Proof.
    intros R hs. induction hs as [|x r IH]; intros advs s Hh Ha [Hf Hs].
    - cbn. repeat split; assumption.
    - inversion Hh as [|x' r' Hx Hr]; subst.
      assert (Hhd : Forall adv_ok (hd [] advs)) by (destruct advs; [constructor | inversion Ha; assumption]).
      assert (Htl : Forall (Forall adv_ok) (tl advs)) by (destruct advs; [constructor | inversion Ha; assumption]).
      cbn [run_hist].
      set (s1 := mkSt (s_files s) (fold_left (fun ca a => adv_apply a ca) (hd [] advs) (s_cache s))).
      assert (Hok1 : st_ok s1) by (split; [exact Hf | cbn [s1 s_cache]; apply adv_fold_sound; assumption]).
      destruct x as [g lk p|c h of].
      + destruct Hx as [Hm Hp]. cbn [hstep_apply run_hist_spec].
        pose proof (run_refines derive U R g lk p (mkRst s1 []) Hm Hp Hok1) as [H1 [H2 H3]].
        cbn [r_st s1 s_files] in H1, H2.
        destruct (run derive g lk p (mkRst s1 [])) as [a rr] eqn:Er. cbn [fst snd] in H1, H2, H3.
        destruct (run_spec derive g p (s_files s)) as [a' fs1] eqn:Es. cbn [fst snd] in H1, H2.
        specialize (IH (tl advs) (r_st rr) Hr Htl H3). rewrite H2 in IH.
        destruct (run_hist derive r (tl advs) (r_st rr)) as [l s3].
        destruct (run_hist_spec derive r fs1) as [l' fs2].
        cbn [fst snd] in IH |- *. destruct IH as [-> [IH2 IH3]]. subst a'. split; [reflexivity | split; assumption].
      + cbn [hstep_apply run_hist_spec].
        destruct (ext_edit_ok s1 c h of Hok1) as [Hok2 Hfs2].
        { destruct of; exact Hx. }
        specialize (IH (tl advs) (ext_edit s1 c h of) Hr Htl Hok2). rewrite Hfs2 in IH. cbn [s1 s_files] in IH.
        destruct (run_hist derive r (tl advs) (ext_edit s1 c h of)) as [l s3].
        destruct (run_hist_spec derive r (ext_files (s_files s) c h of)) as [l' fs2].
        cbn [fst snd] in IH |- *. destruct IH as [-> [IH2 IH3]]. split; [reflexivity | split; assumption].
  Qed.

  (* C13_equiv: same history, same files, two sound caches, two different series of manipulations *)
  Lemma c13_equiv : forall R (hs : list (@hstep D R)) advs1 advs2 s1 s2,
    Forall hstep_ok hs -> Forall (Forall adv_ok) advs1 -> Forall (Forall adv_ok) advs2 ->
    st_ok s1 -> st_ok s2 -> s_files s1 = s_files s2 ->
    fst (run_hist derive hs advs1 s1) = fst (run_hist derive hs advs2 s2)
    /\ s_files (snd (run_hist derive hs advs1 s1)) = s_files (snd (run_hist derive hs advs2 s2))
    /\ cache_sound (s_cache (snd (run_hist derive hs advs1 s1)))
    /\ cache_sound (s_cache (snd (run_hist derive hs advs2 s2))).
  Proof.
    intros R hs advs1 advs2 s1 s2 Hh Ha1 Ha2 Hok1 Hok2 Hfs.
    destruct (run_hist_refines R hs advs1 s1 Hh Ha1 Hok1) as [A1 [B1 [_ C1]]].
    destruct (run_hist_refines R hs advs2 s2 Hh Ha2 Hok2) as [A2 [B2 [_ C2]]].
    rewrite A1, A2, B1, B2, Hfs. repeat split; assumption.
  Qed.

  (* one request, as a program over storage calls *)
  Lemma c13_equiv_request : forall R g lk (p : @prog D R) r1 r2,
    mode_ok g -> prog_ok g p -> st_ok (r_st r1) -> st_ok (r_st r2) ->
    s_files (r_st r1) = s_files (r_st r2) ->
    fst (run derive g lk p r1) = fst (run derive g lk p r2)
    /\ s_files (r_st (snd (run derive g lk p r1))) = s_files (r_st (snd (run derive g lk p r2)))
    /\ cache_sound (s_cache (r_st (snd (run derive g lk p r1))))
    /\ cache_sound (s_cache (r_st (snd (run derive g lk p r2)))).
  Proof.
    intros R g lk p r1 r2 Hm Hp Hok1 Hok2 Hfs.
    destruct (run_refines derive U R g lk p r1 Hm Hp Hok1) as [A1 [B1 [_ C1]]].
    destruct (run_refines derive U R g lk p r2 Hm Hp Hok2) as [A2 [B2 [_ C2]]].
    rewrite A1, A2, B1, B2, Hfs. repeat split; assumption.
  Qed.

  (* ---------------------------------------------------------------- C13_writes_sound *)
  Lemma khash_neq_kstat : forall v b w s m, KHash v b <> KStat w s m.
  Proof. intros. discriminate. Qed.

  Lemma other_mode_never_matches : forall g g' f f',
    g_mode g <> g_mode g' -> ckey_eqb (key_of g f) (key_of g' f') = false.
  Proof.
    intros g g' f f' Hne. unfold key_of. destruct (g_mode g), (g_mode g'); try reflexivity; contradiction.
  Qed.

  Lemma other_version_never_matches : forall g g' f f',
    g_ver g <> g_ver g' -> ckey_eqb (key_of g f) (key_of g' f') = false.
  Proof.
    intros g g' f f' Hne. unfold key_of.
    destruct (g_mode g), (g_mode g'); cbn [ckey_eqb]; try reflexivity;
      rewrite (proj2 (N.eqb_neq _ _) Hne); reflexivity.
  Qed.

  Lemma c13_writes_sound : forall g,
    (forall ca c h f d, cache_sound ca -> U f -> derive (g_ver g) (f_bytes f) = Some d ->
       cache_sound (store_item_cache g ca c h (key_of g f) d))
    /\ (forall lk cl fs ca ca2 c h, files_in fs -> cache_sound ca -> cache_sound ca2 ->
       cache_sound (o_cache (get_at derive g lk cl fs ca ca2 c h)))
    /\ (forall fs ca c, cache_sound ca -> cache_sound (clean_item_cache g fs ca c))
    /\ (forall s c h f d, st_ok s -> U f -> derive (g_ver g) (f_bytes f) = Some d -> st_ok (upload_write g s c h f d))
    /\ (forall s c items, st_ok s -> Forall (item_ok derive U g) items -> st_ok (create_collection g s c items))
    /\ (forall s c h c2 h2 s', st_ok s -> move_item g s c h c2 h2 = Some s' -> st_ok s')
    /\ (forall s c h s', st_ok s -> delete_item g s c h = Some s' -> st_ok s')
    /\ (forall s c, st_ok s -> st_ok (delete_coll s c))
    /\ (forall g' f f', (g_mode g <> g_mode g' \/ g_ver g <> g_ver g') -> ckey_eqb (key_of g f) (key_of g' f') = false).
  Proof.
    intro g. repeat split.
    - intros. apply sound_store; assumption.
    - intros. apply get_at_cache_sound; assumption.
    - intros. apply sound_clean; assumption.
    - apply (upload_write_ok derive U); assumption.
    - apply (upload_write_ok derive U); assumption.
    - apply (create_collection_ok derive U); assumption.
    - apply (create_collection_ok derive U); assumption.
    - eapply (move_item_ok derive U); eassumption.
    - eapply (move_item_ok derive U); eassumption.
    - eapply (delete_item_ok derive U); eassumption.
    - eapply (delete_item_ok derive U); eassumption.
    - apply (delete_coll_ok derive U); assumption.
    - apply (delete_coll_ok derive U); assumption.
    - intros g' f f' [H|H]; auto using other_mode_never_matches, other_version_never_matches.
  Qed.

  (* ---------------------------------------------------------------- C13_external_edit *)
  (* global form: the new file version belongs to the history's versions *)
  Lemma c13_external_edit : forall g lk cl fs ca c h f',
    mode_ok g -> files_in fs -> cache_sound ca -> U f' ->
    o_res (get derive g lk cl (aput fkey_eqb fs (c, h) f') ca c h) = cold derive g (Some f').
  Proof.
    intros g lk cl fs ca c h f' Hm Hf Hs HU. unfold get.
    rewrite c13_get; auto using files_in_aput.
    rewrite flook_aput. rewrite (proj2 (fkey_eqb_spec (c, h) (c, h)) eq_refl). reflexivity.
  Qed.

  (* local form, no assumption on the rest of the cache: the entry under the name is absent, unreadable, or the
     one written for the previous file; the new file differs in bytes (hash mode) / in size or mtime (stat mode) *)
  Definition entry_for_old (g : cfg) (ca : @cache D) (c : coll) (h : href) (fold : file) : Prop :=
    clook ca (g_loc g) c h = None \/ clook ca (g_loc g) c h = Some EGarbage
    \/ exists d, clook ca (g_loc g) c h = Some (EOk (key_of g fold) d).

  Definition changed (g : cfg) (fold f' : file) : Prop :=
    match g_mode g with
    | MHash => f_bytes f' <> f_bytes fold
    | MStat => f_size f' <> f_size fold \/ f_mtime f' <> f_mtime fold
    end.

  Lemma changed_key : forall g fold f', changed g fold f' -> ckey_eqb (key_of g fold) (key_of g f') = false.
  Proof.
    intros g fold f'. unfold changed, key_of. destruct (g_mode g); cbn [ckey_eqb]; rewrite N.eqb_refl; cbn [andb].
    - intro H. apply N.eqb_neq. congruence.
    - intros [H|H].
      + rewrite (proj2 (N.eqb_neq _ _)); [reflexivity | congruence].
      + rewrite (proj2 (N.eqb_neq (f_mtime fold) _)); [apply andb_false_r | congruence].
  Qed.

  Lemma c13_external_edit_local : forall g lk cl fs ca c h fold f',
    entry_for_old g ca c h fold -> changed g fold f' ->
    o_res (get derive g lk cl (aput fkey_eqb fs (c, h) f') ca c h) = cold derive g (Some f').
  Proof.
    intros g lk cl fs ca c h fold f' He Hc. unfold get, get_at.
    rewrite flook_aput. rewrite (proj2 (fkey_eqb_spec (c, h) (c, h)) eq_refl).
    assert (Hl : load_item_cache g ca c h (key_of g f') = LMiss).
    { unfold load_item_cache. destruct He as [E|[E|[d E]]]; rewrite E; try reflexivity.
      rewrite (changed_key _ _ _ Hc). reflexivity. }
    rewrite Hl. unfold cold.
    destruct lk; [rewrite Hl|]; destruct (derive (g_ver g) (f_bytes f')); try reflexivity; destruct cl; reflexivity.
  Qed.

  (* why the stat-mode hypothesis is needed: same size and mtime, other bytes -> the OLD derivation is served *)
  Lemma stat_same_stat_is_stale : forall g lk cl fs ca c h fold f' dold,
    g_mode g = MStat -> f_size f' = f_size fold -> f_mtime f' = f_mtime fold ->
    clook ca (g_loc g) c h = Some (EOk (key_of g fold) dold) ->
    o_res (get derive g lk cl (aput fkey_eqb fs (c, h) f') ca c h) = GItem dold.
  Proof.
    intros g lk cl fs ca c h fold f' dold Hm Hs Ht He. unfold get, get_at.
    rewrite flook_aput. rewrite (proj2 (fkey_eqb_spec (c, h) (c, h)) eq_refl).
    unfold load_item_cache. rewrite He.
    assert (Hk : key_of g fold = key_of g f') by (unfold key_of; rewrite Hm, Hs, Ht; reflexivity).
    rewrite Hk. rewrite (proj2 (ckey_eqb_spec _ _) eq_refl). reflexivity.
  Qed.

  (* after an upload the answer is the uploaded item's content whatever else the cache holds (no assumption):
     "unless Radicale rewrote the entry" *)
  Lemma upload_then_get : forall g lk r obj c h f d,
    fst (fst (exec_op derive g lk (OUpload obj c h f d) r)) = RGet (GItem d).
  Proof.
    intros g lk r obj c h f d. cbn [exec_op]. unfold exec_get, get, get_at. cbn [r_st r_cleaned fst].
    cbn [upload_write s_files s_cache].
    rewrite flook_aput. rewrite (proj2 (fkey_eqb_spec (c, h) (c, h)) eq_refl).
    unfold load_item_cache, store_item_cache. rewrite clook_aput.
    rewrite (proj2 (ekey_eqb_spec (g_loc g, c, h) (g_loc g, c, h)) eq_refl).
    rewrite (proj2 (ckey_eqb_spec _ _) eq_refl). reflexivity.
  Qed.

  (* observation (outside the property): an empty entry file makes the request fail *)
  Lemma empty_entry_fails : forall g lk cl fs ca c h f,
    flook fs c h = Some f -> clook ca (g_loc g) c h = Some EEmpty ->
    o_res (get derive g lk cl fs ca c h) = GFail.
  Proof.
    intros g lk cl fs ca c h f Hf He. unfold get, get_at, load_item_cache. rewrite Hf, He. reflexivity.
  Qed.
End Final.

(* ------------------------------------------------------------------ non-vacuity: a concrete instance *)
Module Example.
  (* derive: content 99 does not parse; everything else parses; the result depends on the version too *)
  Definition derive (v : N) (b : content) : option N := if N.eqb b 99 then None else Some (1000 * v + b).
  (* file versions of the history: the mtime is a strictly increasing clock, here mtime = 10 * bytes id *)
  Definition U (f : file) : Prop := f_mtime f = 10 * f_bytes f.

  Lemma ex_stat_ok : stat_ok U.
  Proof. intros f1 f2 H1 H2 _ Ht. unfold U in *. lia. Qed.

  Definition gH := mkCfg MHash LIn 1 true true.
  Definition gS := mkCfg MStat LIn 1 true true.
  Definition gS_sub := mkCfg MStat (LSub 1) 1 false true.

  Definition fA := mkFile 5 40 50.      (* current content of (1, 7) *)
  Definition fOld := mkFile 4 40 40.    (* earlier content of the same name, same size *)
  Definition fBad := mkFile 99 3 990.   (* does not parse *)
  Definition ex_files : files := [((1, 7), fA); ((1, 8), fBad)].

  (* a cache left over from earlier content of the same name (hash key), an entry written under the other mode for
     another name, one written by another version, one unreadable entry, one in the other location *)
  Definition ex_cache : @cache N :=
    [ ((LIn, 1, 7), EOk (KHash 1 4) 1004);
      ((LIn, 1, 8), EOk (KStat 1 40 50) 1005);
      ((LIn, 1, 9), EOk (KHash 2 5) 2005);
      ((LIn, 2, 7), EGarbage);
      ((LSub 1, 1, 7), EOk (KStat 1 40 40) 1004) ].

  Lemma ex_files_in : files_in U ex_files.
  Proof.
    intros c h f. unfold flook, ex_files. cbn [alook].
    destruct (fkey_eqb (1, 7) (c, h)); [intro E; inversion E; reflexivity|].
    destruct (fkey_eqb (1, 8) (c, h)); [intro E; inversion E; reflexivity|]. discriminate.
  Qed.

  Lemma ex_cache_sound : cache_sound derive U ex_cache.
  Proof.
    intros l c h e. unfold clook, ex_cache. cbn [alook].
    repeat (match goal with |- context [ekey_eqb ?a (l, c, h)] => destruct (ekey_eqb a (l, c, h)) end;
            [intro E; inversion E; subst; clear E | ]); try discriminate; cbn.
    - exists fOld. split; [reflexivity | split; [left; reflexivity | reflexivity]].
    - exists fA. split; [reflexivity | split; [right; reflexivity | reflexivity]].
    - exists fA. split; [reflexivity | split; [left; reflexivity | reflexivity]].
    - exact I.
    - exists fOld. split; [reflexivity | split; [right; reflexivity | reflexivity]].
  Qed.

  (* the hypotheses of C13_get are satisfiable and the theorem says something: stale entries are ignored *)
  Example ex_get_hash : o_res (get derive gH LkR false ex_files ex_cache 1 7) = GItem 1005.
  Proof. reflexivity. Qed.
  Example ex_get_stat : o_res (get derive gS LkR false ex_files ex_cache 1 7) = GItem 1005.
  Proof. reflexivity. Qed.
  Example ex_get_sub : o_res (get derive gS_sub LkW false ex_files ex_cache 1 7) = GItem 1005.
  Proof. reflexivity. Qed.
  Example ex_get_broken : o_res (get derive gS_sub LkW false ex_files ex_cache 1 8) = GFail
                          /\ o_res (get derive gS LkW false ex_files ex_cache 1 8) = GSkip.
  Proof. split; reflexivity. Qed.
  Example ex_get_absent : o_res (get derive gH LkR false ex_files ex_cache 1 9) = GAbsent.
  Proof. reflexivity. Qed.
  (* a miss stores an entry and cleans the orphan (1, 9) of the current location; the other location is untouched *)
  Example ex_get_cache :
    o_cache (get derive gH LkR false ex_files ex_cache 1 7) =
    [ ((LIn, 1, 7), EOk (KHash 1 5) 1005); ((LIn, 1, 8), EOk (KStat 1 40 50) 1005);
      ((LIn, 2, 7), EGarbage); ((LSub 1, 1, 7), EOk (KStat 1 40 40) 1004) ].
  Proof. reflexivity. Qed.
  (* a hit: the entry of (1, 8) has the stat key of fA; planted under the name (1, 7) it is used in stat mode *)
  Example ex_hit : o_evs (get derive gS LkR false ex_files
                           (adv_apply (APlant LIn 1 7 (EOk (KStat 1 40 50) 1005)) ex_cache) 1 7) = [EvHit].
  Proof. reflexivity. Qed.

  (* the cache location can not be written: the freshly built content is served, nothing is stored *)
  Example ex_get_unwritable :
    let o := get derive (mkCfg MHash LIn 1 true false) LkR false ex_files ex_cache 1 7 in
    o_res o = GItem 1005 /\ o_evs o = [EvMiss; EvStoreFail; EvClean] /\ clook (o_cache o) LIn 1 7 = Some (EOk (KHash 1 4) 1004).
  Proof. repeat split; reflexivity. Qed.

  (* an unsound cache really changes the answer, so cache_sound is not a decoration *)
  Example ex_unsound : o_res (get derive gH LkR false ex_files [((LIn, 1, 7), EOk (KHash 1 5) 4242)] 1 7) = GItem 4242.
  Proof. reflexivity. Qed.

  (* a handler: list the collection, GET both names, upload a new version of (1, 7), GET it again *)
  Definition fNew := mkFile 6 41 60.
  Definition ex_prog : @prog N (list (@sres N)) :=
    Do (OList 1) (fun a => Do (OGet 0 1 7) (fun b => Do (OGet 0 1 8) (fun c =>
    Do (OUpload 1 1 7 fNew 1006) (fun d => Do (OGet 2 1 7) (fun e => Ret [a; b; c; d; e]))))).

  Lemma ex_prog_ok : prog_ok derive U gS ex_prog.
  Proof.
    unfold ex_prog. repeat (constructor; cbn; auto; intros).
  Qed.

  Example ex_run_same :
    fst (run derive gS LkW ex_prog (mkRst (mkSt ex_files ex_cache) [])) =
    fst (run derive gS LkW ex_prog (mkRst (mkSt ex_files []) []))
    /\ fst (run derive gS LkW ex_prog (mkRst (mkSt ex_files ex_cache) [])) =
       [RNames [7; 8]; RGet (GItem 1005); RGet GSkip; RGet (GItem 1006); RGet (GItem 1006)].
  Proof. split; reflexivity. Qed.

  (* external edit, stat mode: size changed -> new content; same size and mtime -> stale (the documented risk) *)
  Definition ca_after := o_cache (get derive gS LkR false ex_files ex_cache 1 7).
  Example ex_ext_changed :
    o_res (get derive gS LkR false (aput fkey_eqb ex_files (1, 7) (mkFile 6 41 50)) ca_after 1 7) = GItem 1006.
  Proof. reflexivity. Qed.
  Example ex_ext_same_stat :
    o_res (get derive gS LkR false (aput fkey_eqb ex_files (1, 7) (mkFile 6 40 50)) ca_after 1 7) = GItem 1005.
  Proof. reflexivity. Qed.
End Example.
