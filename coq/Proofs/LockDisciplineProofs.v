(* Proofs about Model/LockDiscipline.v:
     chk_sound      the generic abstract interpreter covers every trace of the semantics [exec]
     steps10_discipline   a trace accepted by the C10 automaton satisfies the declarative [discipline]
     c10_checker_sound    check_skel s = true -> every trace of s satisfies [discipline]
     c19_checker_sound    check_parse_first s = true -> every trace of s satisfies [parse_first]
     storage-op table and meta-cache facts. *)
From Coq Require Import List NArith Bool Lia.
Import ListNotations.
Require Import RV.Model.LockDiscipline.

(* ------------------------------------------------------------------ small equalities *)
Lemma mode_eqb_eq a b : mode_eqb a b = true <-> a = b.
Proof. destruct a, b; simpl; split; intro H; try reflexivity; try discriminate. Qed.
Lemma omode_eqb_eq a b : omode_eqb a b = true <-> a = b.
Proof.
  destruct a as [x|], b as [y|]; simpl; try (split; intro H; (reflexivity || discriminate)).
  rewrite mode_eqb_eq. split; intro H; [subst; reflexivity | inversion H; reflexivity].
Qed.
Lemma outcome_eqb_eq a b : outcome_eqb a b = true <-> a = b.
Proof. destruct a, b; simpl; split; intro H; try reflexivity; try discriminate. Qed.

Section Sound.
  Variable Q : Type.
  Variable qeqb : Q -> Q -> bool.
  Variable qstep : Q -> event -> option Q.
  Hypothesis qeqb_eq : forall a b, qeqb a b = true <-> a = b.

  Notation steps := (steps qstep).
  Notation chk := (chk qeqb qstep).
  Notation ast := (ast Q).
  Notation res := (res Q).
  Notation add := (add Q qeqb).
  Notation union := (union Q qeqb).
  Notation bind := (bind Q qeqb).
  Notation emit := (emit Q qstep).
  Notation leave := (leave Q qstep).

  Lemma steps_app q t1 t2 :
    steps q (t1 ++ t2) = match steps q t1 with Some q' => steps q' t2 | None => None end.
  Proof.
    revert q. induction t1 as [|e t1 IH]; intro q; simpl; [reflexivity|].
    destruct (qstep q e); [apply IH | reflexivity].
  Qed.

  Lemma ast_eqb_eq (a b : ast) : ast_eqb Q qeqb a b = true <-> a = b.
  Proof.
    destruct a as [h1 q1], b as [h2 q2]. unfold ast_eqb; simpl.
    rewrite andb_true_iff, omode_eqb_eq, qeqb_eq.
    split; [intros [H1 H2]; subst; reflexivity | intro H; inversion H; auto].
  Qed.

  Lemma item_eqb_eq (a b : outcome * ast) : item_eqb Q qeqb a b = true <-> a = b.
  Proof.
    destruct a as [o1 s1], b as [o2 s2]. unfold item_eqb; simpl.
    rewrite andb_true_iff, outcome_eqb_eq, ast_eqb_eq.
    split; [intros [H1 H2]; subst; reflexivity | intro H; inversion H; auto].
  Qed.

  Lemma In_add x y (l : res) : In x (add y l) <-> x = y \/ In x l.
  Proof.
    unfold LockDiscipline.add. destruct (existsb (item_eqb Q qeqb y) l) eqn:E.
    - apply existsb_exists in E. destruct E as [z [Hz Hyz]]. apply item_eqb_eq in Hyz. subst z.
      split; [auto | intros [H|H]; subst; auto].
    - simpl. split; intros [H|H]; auto.
  Qed.

  Lemma In_union x (a b : res) : In x (union a b) <-> In x a \/ In x b.
  Proof.
    unfold LockDiscipline.union. induction a as [|y a IH]; simpl.
    - tauto.
    - rewrite In_add, IH. split; [intros [H|[H|H]] | intros [[H|H]|H]]; subst; auto.
  Qed.

  Lemma ounion_some (a b : option res) r :
    ounion Q qeqb a b = Some r -> exists x y, a = Some x /\ b = Some y /\ r = union x y.
  Proof.
    destruct a as [x|], b as [y|]; simpl; intro H; try discriminate.
    inversion H. eauto.
  Qed.

  Lemma one_some o x r : one Q o x = Some r -> exists st, x = Some st /\ r = [(o, st)].
  Proof. destruct x; simpl; intro H; [inversion H; eauto | discriminate]. Qed.

  Lemma emit_some (st : ast) t h' st' :
    emit st t h' = Some st' -> exists q', steps (snd st) t = Some q' /\ st' = (h', q').
  Proof.
    unfold LockDiscipline.emit. destruct (steps (snd st) t) as [q'|]; intro H; [|discriminate].
    inversion H. eauto.
  Qed.

  Lemma bind_spec sel f (r r' : res) :
    bind sel f r = Some r' ->
    forall o st, In (o, st) r ->
      (sel o = false -> In (o, st) r') /\
      (sel o = true -> exists rf, f o st = Some rf /\ forall x, In x rf -> In x r').
  Proof.
    revert r'. induction r as [|[o1 st1] r IH]; intros r' Hb o st Hin; [destruct Hin|].
    simpl in Hb. apply ounion_some in Hb. destruct Hb as [x [y [Hx [Hy Hr]]]]. subst r'.
    destruct Hin as [Heq|Hin].
    - inversion Heq; subst o1 st1. split; intro Hs; rewrite Hs in Hx.
      + inversion Hx; subst x. apply In_union. left. left. reflexivity.
      + exists x. split; [exact Hx|]. intros z Hz. apply In_union. auto.
    - destruct (IH y Hy o st Hin) as [H1 H2]. split.
      + intro Hs. apply In_union. right. auto.
      + intro Hs. destruct (H2 Hs) as [rf [Hf Hi]]. exists rf. split; [exact Hf|].
        intros z Hz. apply In_union. right. auto.
  Qed.

  Lemma chk_raise s st r :
    chk s st = Some r -> exists q', qstep (snd st) ERaise = Some q' /\ In (ORaise, (fst st, q')) r.
  Proof.
    intro H. destruct s; simpl in H; apply ounion_some in H; destruct H as [x [y [Hx [_ Hr]]]]; subst r;
      apply one_some in Hx; destruct Hx as [st1 [He Hx]]; subst x;
      apply emit_some in He; destruct He as [q' [Hs Hst]]; subst st1;
      simpl in Hs; destruct (qstep (snd st) ERaise) as [q1|]; try discriminate; inversion Hs; subst q';
      exists q1; (split; [reflexivity|]); apply In_union; left; left; reflexivity.
  Qed.

  Lemma chk_body s st r :
    chk s st = Some r ->
    exists y, (forall x, In x y -> In x r) /\
      match s with
      | SSkip => y = [(ONormal, st)]
      | SParse => ounion Q qeqb (one Q ONormal (emit st [EParse] (fst st)))
                                (one Q ORaise (emit st [EParseFail; ERaise] (fst st))) = Some y
      | SStorage k => ounion Q qeqb (one Q ONormal (emit st [EStorage k] (fst st)))
                                    (one Q ORaise (emit st [EStorage k; ERaise] (fst st))) = Some y
      | SEnter m => one Q ONormal (emit st [EAcquire m] (Some m)) = Some y
      | SUnlock => one Q ONormal (emit st (exit_events ONormal (fst st)) None) = Some y
      | SSeq a b => exists ra, chk a st = Some ra /\ bind (is_normal) (fun _ => chk b) ra = Some y
      | SAlt a b => ounion Q qeqb (chk a st) (chk b st) = Some y
      | SLoop b => exists rb, chk b st = Some rb /\ forallb (loop_back Q qeqb st) rb = true /\
                              y = add (ONormal, st) (flat_map (loop_out Q) rb)
      | SWith m b => exists st1 rb, emit st [EAcquire m] (Some m) = Some st1 /\ chk b st1 = Some rb /\
                                    bind any_outcome leave rb = Some y
      | SStack b => exists rb, chk b st = Some rb /\ bind any_outcome leave rb = Some y
      | STry b hd => exists rb, chk b st = Some rb /\
            bind is_raise (fun _ st1 => match emit st1 [ECatch] (fst st1) with
                                        | Some st2 => ounion Q qeqb (Some [(ORaise, st1)]) (chk hd st2)
                                        | None => None end) rb = Some y
      | SReturn (Some c) => one Q OReturn (emit st [EReturn c] (fst st)) = Some y
      | SReturn None => y = [(OReturn, st)]
      | SRaise => one Q ORaise (emit st [ERaise] (fst st)) = Some y
      | SBreak => y = [(OBreak, st)]
      | SContinue => y = [(OContinue, st)]
      | SCall b => exists rb, chk b st = Some rb /\
            y = fold_right (fun x acc => add (match fst x with OReturn => ONormal | o => o end, snd x) acc) [] rb
      end.
  Proof.
    intro H.
    destruct s; simpl in H; apply ounion_some in H; destruct H as [x [y [_ [Hy Hr]]]]; subst r;
      exists y; (split; [intros z Hz; apply In_union; right; exact Hz|]).
    - inversion Hy; reflexivity.
    - exact Hy.
    - exact Hy.
    - exact Hy.
    - exact Hy.
    - destruct (chk s1 st) as [ra|] eqn:E1; [|discriminate]. exists ra. split; [reflexivity | exact Hy].
    - exact Hy.
    - destruct (chk s st) as [rb|] eqn:E1; [|discriminate]. exists rb.
      destruct (forallb (loop_back Q qeqb st) rb) eqn:E2; [|discriminate]. inversion Hy.
      split; [reflexivity|]. split; reflexivity.
    - destruct (emit st [EAcquire m] (Some m)) as [st1|] eqn:E1; [|discriminate].
      destruct (chk s st1) as [rb|] eqn:E2; [|discriminate]. exists st1, rb.
      split; [reflexivity|]. split; [exact E2 | exact Hy].
    - destruct (chk s st) as [rb|] eqn:E1; [|discriminate]. exists rb. split; [reflexivity | exact Hy].
    - destruct (chk s1 st) as [rb|] eqn:E1; [|discriminate]. exists rb. split; [reflexivity | exact Hy].
    - destruct st0 as [c|]; [exact Hy | inversion Hy; reflexivity].
    - exact Hy.
    - inversion Hy; reflexivity.
    - inversion Hy; reflexivity.
    - destruct (chk s st) as [rb|] eqn:E1; [|discriminate]. exists rb. inversion Hy. split; reflexivity.
  Qed.

  Lemma leave_spec o (st : ast) rf :
    leave o st = Some rf ->
    exists q', steps (snd st) (exit_events o (fst st)) = Some q' /\ rf = [(o, (None, q'))].
  Proof.
    unfold LockDiscipline.leave. intro H. apply one_some in H. destruct H as [st1 [He Hr]].
    apply emit_some in He. destruct He as [q' [Hs Hst]]. subst. eauto.
  Qed.

  Lemma In_call_map (rb : res) o st :
    In (o, st) rb ->
    In (match o with OReturn => ONormal | o' => o' end, st)
       (fold_right (fun x acc => add (match fst x with OReturn => ONormal | o' => o' end, snd x) acc) [] rb).
  Proof.
    induction rb as [|y rb IH]; intro H; [destruct H|].
    simpl. apply In_add. destruct H as [H|H]; [subst y; left; destruct o; reflexivity | right; auto].
  Qed.

  (* The abstract interpreter covers the semantics: whatever the term can do from (h, q), the automaton
     follows the emitted events and the reached abstract state is in the computed result. *)
  Theorem chk_sound : forall s h t o h', exec s h t o h' ->
    forall q r, chk s (h, q) = Some r ->
    exists q', steps q t = Some q' /\ In (o, (h', q')) r.
  Proof.
    induction 1; intros q r Hc.
    - (* raise_any *)
      destruct (chk_raise _ _ _ Hc) as [q' [Hs Hi]]. simpl in Hs, Hi.
      exists q'. simpl. rewrite Hs. auto.
    - (* skip *)
      destruct (chk_body _ _ _ Hc) as [y [Hy Hb]]. subst y. exists q. simpl. split; [reflexivity|].
      apply Hy. left. reflexivity.
    - (* parse *)
      destruct (chk_body _ _ _ Hc) as [y [Hy Hb]].
      apply ounion_some in Hb. destruct Hb as [a [b [Ha [_ Hyy]]]]. subst y.
      apply one_some in Ha. destruct Ha as [st1 [He Ha]]. apply emit_some in He.
      destruct He as [q' [Hs Hst]]. subst. exists q'. split; [exact Hs|].
      apply Hy. apply In_union. left. left. reflexivity.
    - (* parse fail *)
      destruct (chk_body _ _ _ Hc) as [y [Hy Hb]].
      apply ounion_some in Hb. destruct Hb as [a [b [_ [Hb Hyy]]]]. subst y.
      apply one_some in Hb. destruct Hb as [st1 [He Hb]]. apply emit_some in He.
      destruct He as [q' [Hs Hst]]. subst. exists q'. split; [exact Hs|].
      apply Hy. apply In_union. right. left. reflexivity.
    - (* storage *)
      destruct (chk_body _ _ _ Hc) as [y [Hy Hb]].
      apply ounion_some in Hb. destruct Hb as [a [b [Ha [_ Hyy]]]]. subst y.
      apply one_some in Ha. destruct Ha as [st1 [He Ha]]. apply emit_some in He.
      destruct He as [q' [Hs Hst]]. subst. exists q'. split; [exact Hs|].
      apply Hy. apply In_union. left. left. reflexivity.
    - (* storage raise *)
      destruct (chk_body _ _ _ Hc) as [y [Hy Hb]].
      apply ounion_some in Hb. destruct Hb as [a [b [_ [Hb Hyy]]]]. subst y.
      apply one_some in Hb. destruct Hb as [st1 [He Hb]]. apply emit_some in He.
      destruct He as [q' [Hs Hst]]. subst. exists q'. split; [exact Hs|].
      apply Hy. apply In_union. right. left. reflexivity.
    - (* enter *)
      destruct (chk_body _ _ _ Hc) as [y [Hy Hb]].
      apply one_some in Hb. destruct Hb as [st1 [He Hb]]. apply emit_some in He.
      destruct He as [q' [Hs Hst]]. subst. exists q'. split; [exact Hs|].
      apply Hy. left. reflexivity.
    - (* unlock *)
      destruct (chk_body _ _ _ Hc) as [y [Hy Hb]].
      apply one_some in Hb. destruct Hb as [st1 [He Hb]]. apply emit_some in He.
      destruct He as [q' [Hs Hst]]. subst. exists q'. split; [exact Hs|].
      apply Hy. left. reflexivity.
    - (* seq normal *)
      destruct (chk_body _ _ _ Hc) as [y [Hy [ra [Ha Hb]]]].
      destruct (IHexec1 _ _ Ha) as [q1 [Hs1 Hi1]].
      destruct (bind_spec _ _ _ _ Hb _ _ Hi1) as [_ Hsel].
      destruct (Hsel eq_refl) as [rf [Hf Hin]].
      destruct (IHexec2 _ _ Hf) as [q2 [Hs2 Hi2]].
      exists q2. rewrite steps_app, Hs1. split; [exact Hs2|]. apply Hy. apply Hin. exact Hi2.
    - (* seq abnormal *)
      destruct (chk_body _ _ _ Hc) as [y [Hy [ra [Ha Hb]]]].
      destruct (IHexec _ _ Ha) as [q1 [Hs1 Hi1]].
      destruct (bind_spec _ _ _ _ Hb _ _ Hi1) as [Hsel _].
      exists q1. split; [exact Hs1|]. apply Hy. apply Hsel. destruct o; try reflexivity. congruence.
    - (* alt l *)
      destruct (chk_body _ _ _ Hc) as [y [Hy Hb]].
      apply ounion_some in Hb. destruct Hb as [ra [rb [Ha [_ Hyy]]]]. subst y.
      destruct (IHexec _ _ Ha) as [q1 [Hs1 Hi1]]. exists q1. split; [exact Hs1|].
      apply Hy. apply In_union. left. exact Hi1.
    - (* alt r *)
      destruct (chk_body _ _ _ Hc) as [y [Hy Hb]].
      apply ounion_some in Hb. destruct Hb as [ra [rb [_ [Hb Hyy]]]]. subst y.
      destruct (IHexec _ _ Hb) as [q1 [Hs1 Hi1]]. exists q1. split; [exact Hs1|].
      apply Hy. apply In_union. right. exact Hi1.
    - (* loop 0 *)
      destruct (chk_body _ _ _ Hc) as [y [Hy [rb [Hb [Hall Hyy]]]]]. subst y.
      exists q. split; [reflexivity|]. apply Hy. apply In_add. left. reflexivity.
    - (* loop n *)
      destruct (chk_body _ _ _ Hc) as [y [Hy [rb [Hb [Hall Hyy]]]]].
      destruct (IHexec1 _ _ Hb) as [q1 [Hs1 Hi1]].
      rewrite forallb_forall in Hall. specialize (Hall _ Hi1).
      unfold loop_back in Hall. simpl in Hall.
      assert (Hback : (h1, q1) = (h, q)).
      { destruct H0 as [H0|H0]; subst o1; apply ast_eqb_eq; exact Hall. }
      inversion Hback; subst h1 q1.
      destruct (IHexec2 _ _ Hc) as [q2 [Hs2 Hi2]].
      exists q2. rewrite steps_app, Hs1. auto.
    - (* loop break *)
      destruct (chk_body _ _ _ Hc) as [y [Hy [rb [Hb [Hall Hyy]]]]]. subst y.
      destruct (IHexec _ _ Hb) as [q1 [Hs1 Hi1]].
      exists q1. split; [exact Hs1|]. apply Hy. apply In_add. right.
      apply in_flat_map. exists (OBreak, (h1, q1)). split; [exact Hi1|]. left. reflexivity.
    - (* loop return / raise *)
      destruct (chk_body _ _ _ Hc) as [y [Hy [rb [Hb [Hall Hyy]]]]]. subst y.
      destruct (IHexec _ _ Hb) as [q1 [Hs1 Hi1]].
      exists q1. split; [exact Hs1|]. apply Hy. apply In_add. right.
      apply in_flat_map. exists (o, (h1, q1)). split; [exact Hi1|].
      destruct H0 as [H0|H0]; subst o; left; reflexivity.
    - (* with *)
      destruct (chk_body _ _ _ Hc) as [y [Hy [st1 [rb [He [Hb Hbind]]]]]].
      apply emit_some in He. destruct He as [q0 [Hs0 Hst]]. subst st1. simpl in Hs0.
      destruct (IHexec _ _ Hb) as [q1 [Hs1 Hi1]].
      destruct (bind_spec _ _ _ _ Hbind _ _ Hi1) as [_ Hsel].
      destruct (Hsel eq_refl) as [rf [Hf Hin]].
      apply leave_spec in Hf. destruct Hf as [q2 [Hs2 Hrf]]. subst rf. simpl in Hs2.
      exists q2. split.
      + simpl. destruct (qstep q (EAcquire m)) as [qa|]; [|discriminate].
        inversion Hs0; subst qa. rewrite steps_app, Hs1. exact Hs2.
      + apply Hy. apply Hin. left. reflexivity.
    - (* stack *)
      destruct (chk_body _ _ _ Hc) as [y [Hy [rb [Hb Hbind]]]].
      destruct (IHexec _ _ Hb) as [q1 [Hs1 Hi1]].
      destruct (bind_spec _ _ _ _ Hbind _ _ Hi1) as [_ Hsel].
      destruct (Hsel eq_refl) as [rf [Hf Hin]].
      apply leave_spec in Hf. destruct Hf as [q2 [Hs2 Hrf]]. subst rf. simpl in Hs2.
      exists q2. split; [rewrite steps_app, Hs1; exact Hs2|].
      apply Hy. apply Hin. left. reflexivity.
    - (* try ok *)
      destruct (chk_body _ _ _ Hc) as [y [Hy [rb [Hb Hbind]]]].
      destruct (IHexec _ _ Hb) as [q1 [Hs1 Hi1]].
      destruct (bind_spec _ _ _ _ Hbind _ _ Hi1) as [Hsel _].
      exists q1. split; [exact Hs1|]. apply Hy. apply Hsel. destruct o; try reflexivity. congruence.
    - (* try pass *)
      destruct (chk_body _ _ _ Hc) as [y [Hy [rb [Hb Hbind]]]].
      destruct (IHexec _ _ Hb) as [q1 [Hs1 Hi1]].
      destruct (bind_spec _ _ _ _ Hbind _ _ Hi1) as [_ Hsel].
      destruct (Hsel eq_refl) as [rf [Hf Hin]].
      destruct (emit (h1, q1) [ECatch] (fst (h1, q1))) as [st2|]; [|discriminate].
      apply ounion_some in Hf. destruct Hf as [ua [ub [Ha [_ Hrf]]]]. subst rf. inversion Ha; subst ua.
      exists q1. split; [exact Hs1|]. apply Hy. apply Hin. apply In_union. left. left. reflexivity.
    - (* try catch *)
      destruct (chk_body _ _ _ Hc) as [y [Hy [rb [Hb Hbind]]]].
      destruct (IHexec1 _ _ Hb) as [q1 [Hs1 Hi1]].
      destruct (bind_spec _ _ _ _ Hbind _ _ Hi1) as [_ Hsel].
      destruct (Hsel eq_refl) as [rf [Hf Hin]].
      destruct (emit (h1, q1) [ECatch] (fst (h1, q1))) as [st2|] eqn:He; [|discriminate].
      apply emit_some in He. destruct He as [qc [Hsc Hst]]. subst st2. simpl in Hsc.
      apply ounion_some in Hf. destruct Hf as [ua [ub [_ [Hhd Hrf]]]]. subst rf.
      destruct (IHexec2 _ _ Hhd) as [q2 [Hs2 Hi2]].
      exists q2. split.
      + rewrite steps_app, Hs1. simpl. destruct (qstep q1 ECatch) as [qx|]; [|discriminate].
        inversion Hsc; subst qx. exact Hs2.
      + apply Hy. apply Hin. apply In_union. right. exact Hi2.
    - (* return some *)
      destruct (chk_body _ _ _ Hc) as [y [Hy Hb]].
      apply one_some in Hb. destruct Hb as [st1 [He Hb]]. apply emit_some in He.
      destruct He as [q' [Hs Hst]]. subst. exists q'. split; [exact Hs|]. apply Hy. left. reflexivity.
    - (* return none *)
      destruct (chk_body _ _ _ Hc) as [y [Hy Hb]]. subst y. exists q. split; [reflexivity|].
      apply Hy. left. reflexivity.
    - (* raise *)
      destruct (chk_body _ _ _ Hc) as [y [Hy Hb]].
      apply one_some in Hb. destruct Hb as [st1 [He Hb]]. apply emit_some in He.
      destruct He as [q' [Hs Hst]]. subst. exists q'. split; [exact Hs|]. apply Hy. left. reflexivity.
    - (* break *)
      destruct (chk_body _ _ _ Hc) as [y [Hy Hb]]. subst y. exists q. split; [reflexivity|].
      apply Hy. left. reflexivity.
    - (* continue *)
      destruct (chk_body _ _ _ Hc) as [y [Hy Hb]]. subst y. exists q. split; [reflexivity|].
      apply Hy. left. reflexivity.
    - (* call returning *)
      destruct (chk_body _ _ _ Hc) as [y [Hy [rb [Hb Hyy]]]]. subst y.
      destruct (IHexec _ _ Hb) as [q1 [Hs1 Hi1]].
      exists q1. split; [exact Hs1|]. apply Hy. apply (In_call_map _ _ _ Hi1).
    - (* call other *)
      destruct (chk_body _ _ _ Hc) as [y [Hy [rb [Hb Hyy]]]]. subst y.
      destruct (IHexec _ _ Hb) as [q1 [Hs1 Hi1]].
      exists q1. split; [exact Hs1|]. apply Hy.
      pose proof (In_call_map _ _ _ Hi1) as Hm. destruct o; try exact Hm. congruence.
  Qed.

  Corollary check_from_sound q0 s :
    check_from qeqb qstep q0 s = true -> forall t, trace_of s t -> exists q', steps q0 t = Some q'.
  Proof.
    unfold check_from. destruct (chk s (None, q0)) as [r|] eqn:E; [|discriminate].
    intros _ t [o [h Hx]]. destruct (chk_sound _ _ _ _ _ Hx _ _ E) as [q' [Hs _]]. eauto.
  Qed.
End Sound.

(* ------------------------------------------------------------------ C10: automaton => declarative discipline *)
Lemma q10_eqb_eq a b : q10_eqb a b = true <-> a = b.
Proof.
  destruct a as [[h1 p1] a1], b as [[h2 p2] a2]. unfold q10_eqb.
  rewrite !andb_true_iff, omode_eqb_eq, !Bool.eqb_true_iff.
  split; [intros [[H1 H2] H3]; subst; reflexivity | intro H; inversion H; auto].
Qed.

Definition held_from (h : option mode) (t : list event) : option mode :=
  fold_left (fun h e => match e with EAcquire m => Some m | ERelease => None | _ => h end) t h.
Definition pending_from (p : bool) (t : list event) : bool :=
  fold_left (fun p e => match e with ERaise => true | ECatch => false | _ => p end) t p.

Lemma held_from_snoc h t e :
  held_from h (t ++ [e]) = match e with EAcquire m => Some m | ERelease => None | _ => held_from h t end.
Proof. unfold held_from. rewrite fold_left_app. reflexivity. Qed.
Lemma pending_from_snoc p t e :
  pending_from p (t ++ [e]) = match e with ERaise => true | ECatch => false | _ => pending_from p t end.
Proof. unfold pending_from. rewrite fold_left_app. reflexivity. Qed.

Definition ends_with_hook (t : list event) : bool :=
  match rev t with EHook :: _ => true | _ => false end.

Lemma ends_with_hook_snoc t e : ends_with_hook (t ++ [e]) = match e with EHook => true | _ => false end.
Proof. unfold ends_with_hook. rewrite rev_app_distr. simpl. reflexivity. Qed.

Lemma ends_with_hook_true t : ends_with_hook t = true -> exists t', t = t' ++ [EHook].
Proof.
  unfold ends_with_hook. intro H. destruct (rev t) as [|e r] eqn:E; [discriminate|].
  destruct e; try discriminate. exists (rev r).
  rewrite <- (rev_involutive t), E. reflexivity.
Qed.

Lemma steps_snoc {Q} (f : Q -> event -> option Q) q t e :
  steps f q (t ++ [e]) = match steps f q t with Some q' => f q' e | None => None end.
Proof.
  revert q. induction t as [|x t IH]; intro q; simpl.
  - destruct (f q e); reflexivity.
  - destruct (f q x); [apply IH | reflexivity].
Qed.

(* the automaton state is exactly (held_after, pending_after, "last event was the hook") *)
Lemma steps10_state t : forall q, steps step10 q10_0 t = Some q ->
  q = (held_after t, pending_after t, ends_with_hook t).
Proof.
  induction t as [|e t IH] using rev_ind; intros q H.
  - simpl in H. inversion H. reflexivity.
  - rewrite steps_snoc in H. destruct (steps step10 q10_0 t) as [[[h p] ah]|] eqn:E; [|discriminate].
    specialize (IH _ eq_refl). inversion IH; subst h p ah. clear IH.
    unfold held_after, pending_after in *. fold (held_from None t) in *. fold (pending_from false t) in *.
    fold (held_from None (t ++ [e])). fold (pending_from false (t ++ [e])).
    rewrite held_from_snoc, pending_from_snoc, ends_with_hook_snoc.
    unfold step10 in H.
    destruct e; simpl in H;
      repeat match type of H with
             | context [match ?x with _ => _ end] => destruct x eqn:?; simpl in H; try discriminate
             end; inversion H; subst; try reflexivity.
  Qed.

Lemma steps_prefix {Q} (f : Q -> event -> option Q) q t1 t2 q2 :
  steps f q (t1 ++ t2) = Some q2 -> exists q1, steps f q t1 = Some q1 /\ steps f q1 t2 = Some q2.
Proof.
  revert q. induction t1 as [|e t1 IH]; intros q H; simpl in *.
  - eauto.
  - destruct (f q e); [apply IH; exact H | discriminate].
Qed.

Lemma steps_cons {Q} (f : Q -> event -> option Q) q e t :
  steps f q (e :: t) = match f q e with Some q' => steps f q' t | None => None end.
Proof. reflexivity. Qed.

(* A trace the automaton accepts (ending outside a hook) satisfies the declarative discipline. *)
Theorem steps10_discipline t q : steps step10 q10_0 t = Some q -> snd q = false -> discipline t.
Proof.
  intros Hs Hah pre e post Ht. subst t.
  apply steps_prefix in Hs. destruct Hs as [q1 [H1 H2]].
  pose proof (steps10_state _ _ H1) as Hq1. subst q1.
  rewrite steps_cons in H2.
  destruct (step10 (held_after pre, pending_after pre, ends_with_hook pre) e) as [q2|] eqn:E; [|discriminate].
  unfold step10 in E.
  destruct e; simpl; try exact I.
  - (* acquire *)
    destruct (ends_with_hook pre); [discriminate|].
    destruct (held_after pre); [discriminate | reflexivity].
  - (* release *)
    destruct (held_after pre) as [m|] eqn:Hh; [|discriminate].
    exists m. split; [reflexivity|]. intros Hm Hp. subst m. rewrite Hp in E. simpl in E.
    destruct (ends_with_hook pre) eqn:Hk; [|discriminate].
    apply ends_with_hook_true. exact Hk.
  - (* hook *)
    destruct (ends_with_hook pre); [discriminate|].
    destruct (held_after pre) as [[|]|] eqn:Hh; try discriminate.
    destruct (pending_after pre) eqn:Hp; [discriminate|].
    inversion E; subst q2. split; [reflexivity|]. split; [reflexivity|].
    (* the next event must be the release *)
    destruct post as [|e2 post'].
    + simpl in H2. inversion H2; subst q. simpl in Hah. discriminate.
    + simpl in H2. destruct e2; simpl in H2; try discriminate. eauto.
  - (* storage *)
    destruct (ends_with_hook pre); [discriminate|].
    unfold sufficient. unfold sufficientb in E.
    destruct (held_after pre) as [[|]|]; try discriminate; try exact I.
    destruct (access_eqb (sop_access k) AWrite) eqn:Ha; [discriminate|].
    intro Hk. rewrite Hk in Ha. discriminate.
Qed.

Lemma disciplineb_sound t : disciplineb t = true -> discipline t.
Proof.
  unfold disciplineb. destruct (steps step10 q10_0 t) as [[[h p] ah]|] eqn:E; [|discriminate].
  destruct ah; [discriminate|]. intros _. apply (steps10_discipline _ _ E). reflexivity.
Qed.

(* every state reached at the end of an [exec] is outside the hook window *)
Lemma exit_events_last o h : ends_with_hook (exit_events o h) = false.
Proof.
  destruct h as [m|]; simpl; [|reflexivity]. unfold release_events.
  destruct (negb (is_raise o) && hook_mode m); reflexivity.
Qed.

Lemma ends_with_hook_app t1 t2 : t2 <> [] -> ends_with_hook (t1 ++ t2) = ends_with_hook t2.
Proof.
  intro H. unfold ends_with_hook. rewrite rev_app_distr.
  destruct (rev t2) as [|e r] eqn:E.
  - apply (f_equal (@rev event)) in E. rewrite rev_involutive in E. simpl in E. contradiction.
  - reflexivity.
Qed.

Lemma ends_app_false t1 t2 : ends_with_hook t1 = false -> ends_with_hook t2 = false -> ends_with_hook (t1 ++ t2) = false.
Proof.
  intros H1 H2. destruct t2 as [|e t2]; [rewrite app_nil_r; exact H1|].
  rewrite ends_with_hook_app; [exact H2 | discriminate].
Qed.

Lemma exec_no_open_hook s h t o h' : exec s h t o h' -> ends_with_hook t = false.
Proof.
  induction 1; try reflexivity; try (apply ends_app_false; assumption); try assumption.
  - apply exit_events_last.
  - change (EAcquire m :: t ++ exit_events o h1) with ([EAcquire m] ++ t ++ exit_events o h1).
    apply ends_app_false; [reflexivity|]. apply ends_app_false; [assumption | apply exit_events_last].
  - apply ends_app_false; [assumption | apply exit_events_last].
  - apply ends_app_false; [assumption|].
    change (ECatch :: t2) with ([ECatch] ++ t2). apply ends_app_false; [reflexivity | assumption].
Qed.

(* C10_checker_sound *)
Theorem c10_checker_sound s : check_skel s = true -> forall t, trace_of s t -> discipline t.
Proof.
  intros Hc t Ht.
  destruct (check_from_sound _ _ _ q10_eqb_eq _ _ Hc t Ht) as [q Hq].
  apply (steps10_discipline _ _ Hq).
  pose proof (steps10_state _ _ Hq) as E. subst q. simpl.
  destruct Ht as [o [h Hx]]. apply (exec_no_open_hook _ _ _ _ _ Hx).
Qed.

(* the checker is not vacuous: a well-formed handler shape is accepted, and a trace of it exists *)
Example c10_checker_accepts :
  check_skel (SSeq SParse (SWith W (SSeq (SStorage Discover) (SAlt (SReturn (Some (StCode 404)))
                                   (SSeq (SStorage Upload) (SReturn (Some (StCode 201)))))))) = true.
Proof. vm_compute. reflexivity. Qed.
Example c10_checker_rejects_after_unlock :
  check_skel (SStack (SSeq (SEnter R) (SSeq (SStorage GetFiltered) (SSeq SUnlock (SStorage Tag))))) = false.
Proof. vm_compute. reflexivity. Qed.
Example c10_checker_rejects_write_under_r : check_skel (SWith R (SStorage SetMeta)) = false.
Proof. vm_compute. reflexivity. Qed.
Example c10_trace_exists :
  trace_of (SWith W (SSeq (SStorage Upload) (SReturn (Some (StCode 201)))))
           [EAcquire W; EStorage Upload; EReturn (StCode 201); EHook; ERelease].
Proof.
  exists OReturn, None.
  apply (x_with W _ None [EStorage Upload; EReturn (StCode 201)] OReturn (Some W)).
  apply (x_seq_n _ _ _ [EStorage Upload] (Some W) [EReturn (StCode 201)]); constructor.
Qed.

(* [discipline] is satisfiable by a non-trivial trace (hypothesis of the two theorems below) and is violated
   by the free-busy trace of the unpatched server (storage read after the early unlock) *)
Example c10_discipline_example :
  discipline [EParse; EAcquire W; EStorage Discover; EStorage Upload; EReturn (StCode 201); EHook; ERelease].
Proof. apply disciplineb_sound. vm_compute. reflexivity. Qed.
Example c10_discipline_freebusy_violated :
  ~ discipline [EParse; EAcquire R; EStorage Discover; EStorage GetFiltered; ERelease; EStorage Tag; EReturn (StCode 200)].
Proof.
  intro H.
  specialize (H [EParse; EAcquire R; EStorage Discover; EStorage GetFiltered; ERelease] (EStorage Tag)
                [EReturn (StCode 200)] eq_refl).
  simpl in H. exact H.
Qed.

(* readable consequences of [discipline] *)
Definition nolock (e : event) : Prop := e <> ERelease /\ forall m', e <> EAcquire m'.

Lemma held_from_spec t : forall h m, held_from h t = Some m ->
  (exists a b, t = a ++ EAcquire m :: b /\ forall e, In e b -> nolock e)
  \/ (h = Some m /\ forall e, In e t -> nolock e).
Proof.
  induction t as [|x t IH] using rev_ind; intros h m H.
  - right. simpl in H. split; [exact H | intros e []].
  - rewrite held_from_snoc in H.
    assert (Hother : nolock x -> held_from h t = Some m ->
      (exists a b, t ++ [x] = a ++ EAcquire m :: b /\ forall e, In e b -> nolock e)
      \/ (h = Some m /\ forall e, In e (t ++ [x]) -> nolock e)).
    { intros Hx Hh. destruct (IH _ _ Hh) as [[a [b [Ht Hb]]] | [Hh' Hall]].
      - left. exists a, (b ++ [x]). split.
        + rewrite Ht, <- app_assoc. reflexivity.
        + intros e He. apply in_app_or in He. destruct He as [He|[He|[]]]; [apply Hb; exact He | subst e; exact Hx].
      - right. split; [exact Hh'|]. intros e He. apply in_app_or in He.
        destruct He as [He|[He|[]]]; [apply Hall; exact He | subst e; exact Hx]. }
    destruct x; try (apply Hother; [split; [discriminate | intros; discriminate] | exact H]).
    + inversion H; subst m0. left. exists t, []. split; [reflexivity | intros e []].
    + discriminate.
Qed.

(* every storage access lies between an Acquire of a sufficient mode and the next Release *)
Theorem discipline_storage_between t : discipline t ->
  forall pre k post, t = pre ++ EStorage k :: post ->
  exists m a b, pre = a ++ EAcquire m :: b /\ (forall e, In e b -> e <> ERelease) /\
                (sop_access k = AWrite -> m = W).
Proof.
  intros Hd pre k post Ht. specialize (Hd pre (EStorage k) post Ht). simpl in Hd.
  unfold sufficient in Hd. destruct (held_after pre) as [m|] eqn:Hh; [|contradiction].
  unfold held_after in Hh. fold (held_from None pre) in Hh.
  destruct (held_from_spec _ _ _ Hh) as [[a [b [Hp Hb]]] | [Hn _]]; [|discriminate].
  exists m, a, b. split; [exact Hp|]. split; [intros e He; apply (Hb e He)|].
  intro Hw. destruct m; [contradiction | reflexivity].
Qed.

(* the hook never runs in a request that only ever took the shared lock *)
Theorem discipline_hook_needs_w t : discipline t -> In EHook t -> In (EAcquire W) t.
Proof.
  intros Hd Hin. apply in_split in Hin. destruct Hin as [pre [post Ht]].
  destruct (Hd pre EHook post Ht) as [Hh _].
  unfold held_after in Hh. fold (held_from None pre) in Hh.
  destruct (held_from_spec _ _ _ Hh) as [[a [b [Hp _]]] | [Hn _]]; [|discriminate].
  subst t pre. apply in_or_app. left. apply in_or_app. right. left. reflexivity.
Qed.

(* ------------------------------------------------------------------ C19 *)
Lemma q19_eqb_eq a b : q19_eqb a b = true <-> a = b.
Proof. destruct a, b; simpl; split; intro H; try reflexivity; try discriminate. Qed.

Definition inv19 (q : q19) (t : list event) : Prop :=
  match q with
  | PNot => ~ In EParse t /\ ~ In EParseFail t
  | PDone => In EParse t /\ ~ In EParseFail t
  | PFailed => In EParseFail t
  end.

Lemma steps19_state t : forall q, steps step19 PNot t = Some q -> inv19 q t.
Proof.
  induction t as [|e t IH] using rev_ind; intros q H.
  - simpl in H. inversion H. simpl. tauto.
  - rewrite steps_snoc in H. destruct (steps step19 PNot t) as [q1|] eqn:E; [|discriminate].
    specialize (IH _ eq_refl).
    destruct e; destruct q1; simpl in H; try discriminate; inversion H; subst q;
      unfold inv19 in *; rewrite ?in_app_iff; simpl;
      intuition (try discriminate).
Qed.

Theorem steps19_parse_first t q : steps step19 PNot t = Some q -> parse_first t.
Proof.
  intros Hs pre e post Ht He. subst t.
  apply steps_prefix in Hs. destruct Hs as [q1 [H1 H2]].
  pose proof (steps19_state _ _ H1) as Hinv.
  rewrite steps_cons in H2. destruct (step19 q1 e) as [q2|] eqn:E; [|discriminate].
  assert (Hq : q1 = PDone).
  { destruct e; simpl in He; try contradiction; simpl in E; destruct q1; try discriminate; reflexivity. }
  subst q1. exact Hinv.
Qed.

Example c19_checker_accepts :
  check_parse_first (SSeq (STry SParse (SReturn (Some (StCode 400)))) (SWith R (SStorage Discover))) = true.
Proof. vm_compute. reflexivity. Qed.
Example c19_checker_rejects_lock_before_parse : check_parse_first (SWith R (SSeq SParse (SStorage Discover))) = false.
Proof. vm_compute. reflexivity. Qed.

Theorem c19_checker_sound s : check_parse_first s = true -> forall t, trace_of s t -> parse_first t.
Proof.
  intros Hc t Ht.
  destruct (check_from_sound _ _ _ q19_eqb_eq _ _ Hc t Ht) as [q Hq].
  apply (steps19_parse_first _ _ Hq).
Qed.

(* failing to parse leads to the end of the request without any lock or storage event *)
Theorem parse_first_fail_inert t : parse_first t ->
  forall pre post, t = pre ++ EParseFail :: post -> forall e, In e post -> ~ is_lock_or_storage e.
Proof.
  intros Hp pre post Ht e Hin He.
  apply in_split in Hin. destruct Hin as [p1 [p2 Hpost]]. subst post.
  assert (Ht' : t = (pre ++ EParseFail :: p1) ++ e :: p2) by (rewrite Ht, <- app_assoc; reflexivity).
  destruct (Hp _ _ _ Ht' He) as [_ Hnf]. apply Hnf. apply in_or_app. right. left. reflexivity.
Qed.

(* ------------------------------------------------------------------ C10_storage_ops, C10_meta_cache *)
Theorem c10_storage_ops : forall k,
  (sop_access k = AWrite <-> In k [SetMeta; Upload; Delete; Move; CreateCollection]) /\
  (In k [Sync; GetAll; GetMulti; GetFiltered; Discover; Etag; HasUid; Serialize; Verify] -> sop_access k = ACache) /\
  (In k [GetMeta; Tag; LastModified] -> sop_access k = ARead).
Proof.
  intro k. split; [|split].
  - destruct k; simpl; split; intro H; try discriminate; try reflexivity; try tauto;
      repeat (destruct H as [H|H]; try discriminate); try contradiction.
  - destruct k; simpl; intro H; try reflexivity; repeat (destruct H as [H|H]; try discriminate); contradiction.
  - destruct k; simpl; intro H; try reflexivity; repeat (destruct H as [H|H]; try discriminate); contradiction.
Qed.

(* under the shared lock exactly the operations that do not write collection data are allowed *)
Theorem c10_sufficient_r k : sufficient (Some R) k <-> ~ In k [SetMeta; Upload; Delete; Move; CreateCollection].
Proof.
  unfold sufficient. destruct (c10_storage_ops k) as [[H1 H2] _]. split; intros H G; apply H; auto.
Qed.

Theorem c10_meta_cache : forall v cached,
  get_meta_reads v cached = true <-> (v = LWrite \/ cached = false).
Proof.
  intros v cached. unfold get_meta_reads, reread. rewrite orb_true_iff, negb_true_iff.
  destruct v; simpl; split; intros [H|H]; try discriminate; auto.
Qed.

(* a call after Release, while another thread of the process holds the lock exclusively, reads the folder *)
Corollary c10_meta_cache_after_release cached : get_meta_reads LWrite cached = true.
Proof. apply c10_meta_cache. left. reflexivity. Qed.
