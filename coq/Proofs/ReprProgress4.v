(* Progress and preservation of the reserved-path invariant CL: create_collection with props, with or without
   items (MKCALENDAR, MKCOL with props, PUT of a whole collection), default cache layout. *)
From Coq Require Import List NArith Bool Lia.
Import ListNotations.
Require Import RV.Lib.Prog RV.Model.Fs RV.Model.StorageOps RV.Proofs.FsLemmas RV.Proofs.FsInv RV.Proofs.NoFault
  RV.Proofs.C12Units RV.Proofs.ReprProgress RV.Proofs.ReprClean RV.Proofs.ReprProgress2 RV.Proofs.ReprProgress3.
Open Scope N_scope.

(* what a staging collection may hold, relative to its root *)
Inductive stg_ok : path -> node -> Prop :=
| so_root : stg_ok [] D
| so_props : forall v, stg_ok [Props] (F v)
| so_item : forall h v, is_safe h = true -> stg_ok [h] (F v)
| so_c1 : stg_ok [Cache] D
| so_c2 : stg_ok [Cache; CItem] D
| so_ce : forall h v, is_safe h = true -> stg_ok [Cache; CItem; h] (F v).

Lemma stg_kind : forall p r nd, coll_path p = true -> stg_ok r nd -> kind_ok (p ++ r) nd.
Proof.
  intros p r nd Hp H. destruct H.
  - rewrite app_nil_r. apply (kind_coll_prefix p p Hp (prefix_refl p) (coll_ne p Hp)).
  - apply kind_item; [exact Hp | right; reflexivity].
  - apply kind_item; [exact Hp | left; assumption].
  - apply kind_cache1. exact Hp.
  - apply kind_cache2; [exact Hp | reflexivity].
  - change (p ++ [Cache; CItem; h]) with (p ++ [Cache; CItem] ++ [h]). rewrite app_assoc. apply kind_cache_entry; [exact Hp | reflexivity | assumption].
Qed.

Lemma prefix_split : forall (q a e : path), prefix q (a ++ e) = true -> prefix a q = true \/ prefix q a = true.
Proof.
  intros q a e. induction e as [|x e IH] using rev_ind; intro H.
  - rewrite app_nil_r in H. right. exact H.
  - rewrite app_assoc, prefix_of_snoc in H. apply orb_true_iff in H. destruct H as [H | H]; [|apply IH; exact H].
    apply path_eqb_eq in H. subst q. left. rewrite <- app_assoc. apply prefix_app.
Qed.

Lemma prefix_app_both : forall (a r e : path), prefix (a ++ r) (a ++ e) = prefix r e.
Proof. induction a as [|x a IH]; intros r e; cbn; [reflexivity|]. rewrite name_eqb_refl. apply IH. Qed.

Lemma nonempty_snoc_app : forall (a : path) y r, nonempty ((a ++ [y]) ++ r) = true.
Proof. intros [|z a] y r; reflexivity. Qed.

Section Staging.
  Variables (par : path) (x : name) (s0 : fs) (k : N).
  Hypotheses (Hpar : coll_path par = true) (Hx : is_safe x = true) (Hcl0 : CL s0) (Hlpar : look s0 par = Some D).
  Let p := par ++ [x].
  Let t0 := par ++ [Tmp k].
  Let tc := t0 ++ [n_collection].
  Let cd := tc ++ [Cache; CItem].

  Lemma Hp_coll : coll_path p = true.
  Proof. unfold p. apply coll_snoc; assumption. Qed.

  Record TI (s : fs) : Prop := {
    ti_inv : fs_inv_weak s;
    ti_frame : forall q, prefix t0 q = false -> look s q = look s0 q;
    ti_t0 : look s t0 = Some D;
    ti_tc : look s tc = Some D;
    ti_stg : forall r nd, look s (tc ++ r) = Some nd -> stg_ok r nd }.

  Lemma tc_under_t0 : forall r, prefix t0 (tc ++ r) = true.
  Proof. intro r. unfold tc. rewrite <- app_assoc. apply prefix_app. Qed.

  Lemma TI_upd : forall s r nd s', TI s -> r <> [] -> stg_ok r nd -> is_upd s (tc ++ r) (Some nd) s' -> fs_inv_weak s' ->
    TI s' /\ forall d, look s d = Some D -> d <> tc ++ r -> look s' d = Some D.
  Proof.
    intros s r nd s' T Hr Hok U I'.
    assert (Hd : forall d, look s d = Some D -> d <> tc ++ r -> look s' d = Some D).
    { intros d Hd Hne. rewrite (U d). destruct (path_eqb d (tc ++ r)) eqn:E; [apply path_eqb_eq in E; contradiction | exact Hd]. }
    split; [|exact Hd]. constructor.
    - exact I'.
    - intros q Hq. rewrite (U q). destruct (path_eqb q (tc ++ r)) eqn:E; [|apply (ti_frame s T); exact Hq].
      apply path_eqb_eq in E. subst q. rewrite tc_under_t0 in Hq. discriminate.
    - apply Hd; [apply (ti_t0 s T)|]. intro E. apply (f_equal (@List.length name)) in E. unfold tc in E. rewrite !app_length in E. cbn in E. lia.
    - apply Hd; [apply (ti_tc s T)|]. intro E. symmetry in E. rewrite <- (app_nil_r tc) in E at 2. apply app_inv_head in E. contradiction.
    - intros r' nd' H. rewrite (U _) in H. destruct (path_eqb (tc ++ r') (tc ++ r)) eqn:E.
      + apply path_eqb_eq in E. apply app_inv_head in E. subst r'. inversion H; subst. exact Hok.
      + apply (ti_stg s T). exact H.
  Qed.

  Lemma stg_not_dir : forall s h, TI s -> is_safe h = true -> look s (tc ++ [h]) <> Some D.
  Proof. intros s h T Hh H. apply (ti_stg s T) in H. inversion H; subst; discriminate. Qed.
  Lemma stg_centry_not_dir : forall s h, TI s -> look s (cd ++ [h]) <> Some D.
  Proof. intros s h T H. unfold cd in H. rewrite <- app_assoc in H. apply (ti_stg s T) in H. inversion H. Qed.

  (* one item and its cache entry *)
  Lemma upload_one_nf : forall h v s m (Q : npost) EE, is_safe h = true -> TI s -> look s cd = Some D ->
    (forall s', TI s' -> look s' cd = Some D -> Q s' m) -> nfwp (upload_one tc cd (h, v)) Q EE s m.
  Proof.
    intros h v s m Q EE Hh T Hcd HQ. unfold upload_one, Do, fsyncF. cbn [seqs nfwp].
    assert (Hne1 : [h] <> []) by discriminate.
    assert (Hcdne : forall d : path, cd <> d ++ [h]).
    { intros d E. unfold cd in E. change (tc ++ [Cache; CItem]) with (tc ++ [Cache] ++ [CItem]) in E. rewrite app_assoc in E.
      apply snoc_inj in E. destruct E as [_ E]. subst h. discriminate. }
    (* the item file *)
    pose proof (create_ok s (tc ++ [h]) (snoc_not_nil _ _)) as C1. rewrite parent_snoc in C1.
    specialize (C1 (ti_tc s T) (stg_not_dir s h T Hh)). rewrite C1. cbn [nfwp].
    destruct (TI_upd s [h] (F 0) (upd (tc ++ [h]) (Some (F 0)) s) T Hne1 (so_item h 0 Hh) (fun r => eq_refl) (apply_inv _ _ _ (ti_inv s T) C1)) as [T1 D1].
    set (s1 := upd (tc ++ [h]) (Some (F 0)) s) in *.
    assert (L1 : look s1 (tc ++ [h]) = Some (F 0)) by (unfold s1; cbn [look upd]; rewrite path_eqb_refl; reflexivity).
    pose proof (write_ok s1 _ 0 v L1) as C2. rewrite C2. cbn [nfwp].
    destruct (TI_upd s1 [h] (F v) (upd (tc ++ [h]) (Some (F v)) s1) T1 Hne1 (so_item h v Hh) (fun r => eq_refl) (apply_inv _ _ _ (ti_inv s1 T1) C2)) as [T2 D2].
    set (s2 := upd (tc ++ [h]) (Some (F v)) s1) in *.
    assert (L2 : look s2 (tc ++ [h]) = Some (F v)) by (unfold s2; cbn [look upd]; rewrite path_eqb_refl; reflexivity).
    rewrite (fsyncF_ok s2 _ v L2). cbn [nfwp].
    assert (Hcd2 : look s2 cd = Some D) by (apply D2; [apply D1; [exact Hcd | apply Hcdne] | apply Hcdne]).
    (* its cache entry *)
    assert (Ecd : cd ++ [h] = tc ++ [Cache; CItem; h]) by (unfold cd; rewrite <- app_assoc; reflexivity).
    assert (Hne3 : [Cache; CItem; h] <> []) by discriminate.
    pose proof (create_ok s2 (cd ++ [h]) (snoc_not_nil _ _)) as C3. rewrite parent_snoc in C3.
    specialize (C3 Hcd2 (stg_centry_not_dir s2 h T2)). rewrite C3. cbn [nfwp].
    assert (U3 : is_upd s2 (tc ++ [Cache; CItem; h]) (Some (F 0)) (upd (cd ++ [h]) (Some (F 0)) s2)) by (rewrite <- Ecd; intro r; reflexivity).
    destruct (TI_upd s2 _ (F 0) _ T2 Hne3 (so_ce h 0 Hh) U3 (apply_inv _ _ _ (ti_inv s2 T2) C3)) as [T3 D3].
    set (s3 := upd (cd ++ [h]) (Some (F 0)) s2) in *.
    assert (L3 : look s3 (cd ++ [h]) = Some (F 0)) by (unfold s3; cbn [look upd]; rewrite path_eqb_refl; reflexivity).
    pose proof (write_ok s3 _ 0 (cache_code v) L3) as C4. rewrite C4. cbn [nfwp].
    assert (U4 : is_upd s3 (tc ++ [Cache; CItem; h]) (Some (F (cache_code v))) (upd (cd ++ [h]) (Some (F (cache_code v))) s3)) by (rewrite <- Ecd; intro r; reflexivity).
    destruct (TI_upd s3 _ (F (cache_code v)) _ T3 Hne3 (so_ce h (cache_code v) Hh) U4 (apply_inv _ _ _ (ti_inv s3 T3) C4)) as [T4 D4].
    set (s4 := upd (cd ++ [h]) (Some (F (cache_code v))) s3) in *.
    assert (L4 : look s4 (cd ++ [h]) = Some (F (cache_code v))) by (unfold s4; cbn [look upd]; rewrite path_eqb_refl; reflexivity).
    rewrite (fsyncF_ok s4 _ _ L4). cbn [nfwp].
    apply HQ; [exact T4|]. rewrite <- Ecd in D3, D4. apply D4; [apply D3; [exact Hcd2 | apply snoc_neq_self] | apply snoc_neq_self].
  Qed.

  Lemma upload_each_nf : forall its s m (Q : npost) EE, Forall (fun it => is_safe (fst it) = true) its -> TI s -> look s cd = Some D ->
    (forall s', TI s' -> look s' cd = Some D -> Q s' m) -> nfwp (upload_each tc cd its) Q EE s m.
  Proof.
    induction its as [|[h v] its IH]; intros s m Q EE Hs T Hcd HQ; cbn [upload_each nfwp]; [apply HQ; assumption|].
    inversion Hs as [|? ? Hh Hrest]; subst. cbn [fst] in Hh.
    apply upload_one_nf; [exact Hh | exact T | exact Hcd |]. intros s1 T1 Hcd1. apply IH; assumption.
  Qed.

  Lemma upload_all_nf : forall its s m (Q : npost) EE, Forall (fun it => is_safe (fst it) = true) its -> TI s ->
    (forall s', TI s' -> Q s' m) -> nfwp (upload_all lay0 tc its) Q EE s m.
  Proof.
    intros its s m Q EE Hs T HQ. unfold upload_all. rewrite (cache_dir_lay0 CItem tc eq_refl). fold cd. cbn [seqs nfwp].
    assert (Hpre : forall r, prefix r [Cache; CItem] = true -> r = [] \/ r = [Cache] \/ r = [Cache; CItem]).
    { intros r H. destruct r as [|a r]; [auto|]. cbn in H. apply andb_true_iff in H. destruct H as [Ha H]. apply name_eqb_eq in Ha. subst a.
      destruct r as [|b r]; [auto|]. cbn in H. apply andb_true_iff in H. destruct H as [Hb H]. apply name_eqb_eq in Hb. subst b.
      destruct r; [auto | discriminate]. }
    assert (Hdirs : forall r, prefix r [Cache; CItem] = true -> stg_ok r D).
    { intros r H. destruct (Hpre r H) as [-> | [-> | ->]]; constructor. }
    apply md_nf; [apply (ti_inv s T) | |].
    { intros q Hq Hne. unfold cd in Hq. destruct (prefix_split q tc _ Hq) as [H | H].
      - apply prefix_spec in H. destruct H as [r ->]. rewrite prefix_app_both in Hq.
        destruct (look s (tc ++ r)) as [nd|] eqn:E; [|left; reflexivity]. right.
        apply (ti_stg s T) in E. pose proof (Hdirs r Hq) as H2. destruct (Hpre r Hq) as [-> | [-> | ->]]; inversion E; subst; try reflexivity; discriminate.
      - right. apply (closed_prefix_dir s tc); [apply (ti_inv s T) | apply (ti_tc s T) | exact H]. }
    intros s1 I1 P1.
    assert (Ht0tc : prefix t0 tc = true) by (unfold tc; apply prefix_app).
    assert (T1 : TI s1).
    { constructor.
      - exact I1.
      - intros q Hq. rewrite (P1 q). destruct (prefix q cd && nonempty q) eqn:E; [|apply (ti_frame s T); exact Hq].
        apply andb_true_iff in E. destruct E as [E _]. unfold cd, tc in E. rewrite <- app_assoc in E.
        destruct (prefix_split q t0 _ E) as [H | H]; [congruence|].
        rewrite <- (ti_frame s T q Hq). symmetry. apply (closed_prefix_dir s t0); [apply (ti_inv s T) | apply (ti_t0 s T) | exact H].
      - rewrite (P1 t0). rewrite (ti_t0 s T). destruct (prefix t0 cd && nonempty t0); reflexivity.
      - rewrite (P1 tc). rewrite (ti_tc s T). destruct (prefix tc cd && nonempty tc); reflexivity.
      - intros r nd H. rewrite (P1 _) in H. unfold cd in H. rewrite prefix_app_both in H.
        destruct (prefix r [Cache; CItem]) eqn:E.
        + assert (X : nonempty (tc ++ r) = true) by (unfold tc; apply nonempty_snoc_app). rewrite X in H. cbn in H.
          inversion H; subst. apply Hdirs. exact E.
        + cbn in H. apply (ti_stg s T). exact H. }
    assert (Hcd1 : look s1 cd = Some D).
    { rewrite (P1 cd), prefix_refl. unfold cd, tc. rewrite nonempty_snoc_app. reflexivity. }
    apply upload_each_nf; [exact Hs | exact T1 | exact Hcd1 |]. intros s2 T2 Hcd2.
    unfold fsyncD. cbn [nfwp]. rewrite (fsyncD_ok s2 cd Hcd2). cbn [nfwp]. rewrite (fsyncD_ok s2 tc (ti_tc s2 T2)). cbn [nfwp].
    apply HQ. exact T2.
  Qed.
  Lemma stage_items_nf : forall items s m (Q : npost) EE,
    match items with Some its => Forall (fun it : name * N => is_safe (fst it) = true) its | None => True end ->
    TI s -> (forall s', TI s' -> Q s' m) ->
    nfwp (match items with Some its => upload_all lay0 tc its | None => Ret end) Q EE s m.
  Proof.
    intros [its|] s m Q EE Hs T HQ; [apply upload_all_nf; assumption | cbn [nfwp]; apply HQ; exact T].
  Qed.

  (* Storage.create_collection with props: staging, swap / rename into place, removal of the temp directory *)
  Lemma create_nf : forall items pv,
    match items with Some its => Forall (fun it : name * N => is_safe (fst it) = true) its | None => True end ->
    nfwp (create_collection lay0 p items (Some pv)) (fun s' _ => CL s') NoExn s0 k.
  Proof.
    intros items pv Hits. pose proof (proj1 Hcl0) as Hinv. pose proof Hp_coll as Hpc.
    unfold create_collection, create_collection_gen. unfold p at 1 2. rewrite parent_snoc. cbn [nfwp].
    apply md_existing_nf; [exact Hlpar|]. cbn [nfwp]. unfold with_tmp, Finally. cbn [nfwp]. fold t0. fold tc. fold p.
    unfold Do at 1. cbn [nfwp].
    pose proof (CL_tmp_free s0 Hcl0 par k) as Hf. fold t0 in Hf.
    assert (Hunder : forall r, r <> [] -> look s0 (t0 ++ r) = None).
    { intros r Hr. apply closed_below; [apply Hinv | rewrite Hf; discriminate | exact Hr]. }
    assert (C1 : apply (Mkdir t0) s0 = inl (upd t0 (Some D) s0)).
    { apply mkdir_ok; [apply snoc_not_nil | exact Hf | unfold t0; rewrite parent_snoc; exact Hlpar]. }
    rewrite C1. set (s1 := upd t0 (Some D) s0). assert (I1 : fs_inv_weak s1) by apply (apply_inv _ _ _ Hinv C1).
    assert (Htct0 : path_eqb tc t0 = false) by (apply path_eqb_neq; unfold tc; intro E; symmetry in E; apply snoc_neq_self in E; exact E).
    cbn [seqs nfwp]. unfold Do at 1. cbn [nfwp].
    assert (C2 : apply (Mkdir tc) s1 = inl (upd tc (Some D) s1)).
    { apply mkdir_ok; [apply snoc_not_nil | | unfold tc; rewrite parent_snoc; unfold s1; cbn [look upd]; rewrite path_eqb_refl; reflexivity].
      unfold s1. cbn [look upd]. rewrite Htct0. unfold tc. apply Hunder. discriminate. }
    rewrite C2. set (s2 := upd tc (Some D) s1). assert (I2 : fs_inv_weak s2) by apply (apply_inv _ _ _ I1 C2). cbn [nfwp].
    assert (T2 : TI s2).
    { constructor.
      - exact I2.
      - intros q Hq. unfold s2, s1. cbn [look upd].
        destruct (path_eqb q tc) eqn:E1; [apply path_eqb_eq in E1; subst q; rewrite <- (app_nil_r tc), tc_under_t0 in Hq; discriminate|].
        destruct (path_eqb q t0) eqn:E2; [apply path_eqb_eq in E2; subst q; rewrite prefix_refl in Hq; discriminate | reflexivity].
      - unfold s2, s1. cbn [look upd]. rewrite (path_eqb_sym t0 tc), Htct0, path_eqb_refl. reflexivity.
      - unfold s2. cbn [look upd]. rewrite path_eqb_refl. reflexivity.
      - intros r nd H. destruct r as [|y r]; [rewrite app_nil_r in H; unfold s2 in H; cbn [look upd] in H; rewrite path_eqb_refl in H; inversion H; constructor|].
        exfalso. unfold s2, s1 in H. cbn [look upd] in H.
        assert (E1 : path_eqb (tc ++ y :: r) tc = false) by (apply path_eqb_neq; apply app_cons_neq_self).
        assert (E2 : path_eqb (tc ++ y :: r) t0 = false).
        { apply path_eqb_neq. unfold tc. rewrite <- app_assoc. apply app_cons_neq_self. }
        rewrite E1, E2 in H. unfold tc in H. rewrite <- app_assoc in H. rewrite Hunder in H; discriminate. }
    (* the props file of the staging collection *)
    unfold set_meta. cbn [nfwp].
    apply aw_nf; [exact I2 | apply snoc_not_nil | apply (ti_tc s2 T2) | | | discriminate |].
    { destruct (look s2 (tc ++ [Tmp (N.succ k)])) eqn:E; [|reflexivity]. apply (ti_stg s2 T2) in E. inversion E; subst; discriminate. }
    { intro E. apply (ti_stg s2 T2) in E. inversion E; subst; discriminate. }
    intros s3 I3 U3.
    destruct (TI_upd s2 [Props] (F pv) s3 T2 ltac:(discriminate) (so_props pv) U3 I3) as [T3 _].
    apply stage_items_nf; [exact Hits | exact T3 |]. intros s T.
    (* swap or rename into place, sync the parent, remove the temp directory *)
    assert (Hp0 : prefix t0 p = false).
    { unfold t0, p. rewrite <- (app_nil_r (par ++ [x])), <- app_assoc. apply prefix_snoc_diff. destruct x; discriminate. }
    assert (Hpar0 : prefix t0 par = false) by (unfold t0; apply prefix_snoc_self_false).
    assert (Ht0tc : prefix t0 tc = true) by (unfold tc; apply prefix_app).
    assert (Hno_tc : forall q, prefix t0 q = false -> prefix tc q = false).
    { intros q Hq. destruct (prefix tc q) eqn:E; [|reflexivity]. rewrite (prefix_trans t0 tc q Ht0tc E) in Hq. discriminate. }
    assert (Htcp : prefix tc p = false) by (apply Hno_tc; exact Hp0).
    assert (Hptc : prefix p tc = false).
    { unfold p, tc, t0. rewrite <- app_assoc. cbn [app]. apply prefix_snoc_diff. destruct x; discriminate. }
    assert (Hp_par : prefix p par = false) by (unfold p; apply prefix_snoc_self_false).
    assert (Hp_t0 : prefix p t0 = false).
    { unfold p, t0. rewrite <- (app_nil_r (par ++ [Tmp k])), <- app_assoc. apply prefix_snoc_diff. destruct x; discriminate. }
    assert (Htc_t0 : prefix tc t0 = false) by (unfold tc; apply prefix_snoc_self_false).
    assert (Hspar : look s par = Some D) by (rewrite (ti_frame s T par Hpar0); exact Hlpar).
    assert (Hfin : forall q nd, prefix t0 q = false ->
              (if prefix p q then look s (tc ++ strip p q) else look s q) = Some nd -> kind_ok q nd).
    { intros q nd Hq H. destruct (prefix p q) eqn:Ep.
      - apply prefix_spec in Ep. destruct Ep as [r ->]. rewrite strip_app in H. apply stg_kind; [exact Hpc | apply (ti_stg s T); exact H].
      - rewrite (ti_frame s T q Hq) in H. apply (proj2 Hcl0). exact H. }
    assert (Hpp : parent p = par) by (unfold p; apply parent_snoc).
    cbn [nfwp]. rewrite (ti_frame s T p Hp0). unfold fsyncD. rewrite Hpp.
    destruct (look s0 p) as [np|] eqn:Elp; cbn [nfwp].
    - destruct (exchange_ok s tc p D np) as [s4 [C4 L4]]; [apply snoc_not_nil | apply snoc_not_nil | exact Htcp | exact Hptc | apply (ti_tc s T) | rewrite (ti_frame s T p Hp0); exact Elp|].
      unfold Do. cbn [nfwp]. rewrite C4. cbn [nfwp].
      assert (L4par : look s4 par = Some D) by (rewrite L4, Hp_par, (Hno_tc par Hpar0); exact Hspar).
      rewrite (fsyncD_ok _ _ L4par). cbn [nfwp].
      assert (L4t0 : look s4 t0 = Some D) by (rewrite L4, Hp_t0, Htc_t0; apply (ti_t0 s T)).
      pose proof (rmtree_ok s4 t0 (snoc_not_nil _ _) L4t0) as C5. rewrite C5. cbn [nfwp].
      split; [apply (apply_inv _ _ _ (apply_inv _ _ _ (ti_inv s T) C4) C5)|].
      intros q nd Hq. cbn [look] in Hq. destruct (prefix t0 q) eqn:Et; [discriminate|].
      apply (Hfin q nd Et). rewrite L4 in Hq. rewrite (Hno_tc q Et) in Hq. exact Hq.
    - assert (C4 : apply (Rename tc p) s = inl (renamed tc p s)).
      { apply rename_dir_ok; [apply snoc_not_nil | apply snoc_not_nil | exact Htcp | unfold p; rewrite parent_snoc; exact Hspar | apply (ti_tc s T) | rewrite (ti_frame s T p Hp0); exact Elp]. }
      unfold Do. cbn [nfwp]. rewrite C4. cbn [nfwp]. set (s4 := renamed tc p s).
      assert (L4par : look s4 par = Some D) by (unfold s4, renamed; cbn [look]; rewrite Hp_par, (Hno_tc par Hpar0); exact Hspar).
      rewrite (fsyncD_ok _ _ L4par). cbn [nfwp].
      assert (L4t0 : look s4 t0 = Some D) by (unfold s4, renamed; cbn [look]; rewrite Hp_t0, Htc_t0; apply (ti_t0 s T)).
      pose proof (rmtree_ok s4 t0 (snoc_not_nil _ _) L4t0) as C5. rewrite C5. cbn [nfwp].
      split; [apply (apply_inv _ _ _ (apply_inv _ _ _ (ti_inv s T) C4) C5)|].
      intros q nd Hq. cbn [look] in Hq. destruct (prefix t0 q) eqn:Et; [discriminate|].
      apply (Hfin q nd Et). unfold s4, renamed in Hq. cbn [look] in Hq. rewrite (Hno_tc q Et) in Hq. exact Hq.
  Qed.
End Staging.
