(* Tie T: the regenerated translation of radicale/pathutils.py equals the hand model. *)
From Coq Require Import List NArith Bool String.
Import ListNotations.
Require Import RV.Lib.PyStr RV.Model.Path.
Require RV.Gen.PathGen RV.Gen.SyncTokGen.
Open Scope N_scope.

Lemma Gen_is_safe_path_component_eq : forall p,
  PathGen.is_safe_path_component p = is_safe_path_component p.
Proof. reflexivity. Qed.

Lemma Gen_is_safe_filesystem_path_component_eq : forall p,
  PathGen.is_safe_filesystem_path_component p = is_safe_filesystem_path_component p.
Proof.
  intros p. unfold PathGen.is_safe_filesystem_path_component, is_safe_filesystem_path_component.
  rewrite Gen_is_safe_path_component_eq. cbn [nonempty negb andb orb].
  replace (eqs (str "linux") (str "win32")) with false by reflexivity.
  cbn [negb orb]. rewrite !andb_true_r. reflexivity.
Qed.

Lemma fold_filter_join : forall parts acc,
  fold_left (fun np part => if negb (PathGen.is_safe_path_component part) then np else posix_join np part) parts acc
  = fold_left posix_join (filter is_safe_path_component parts) acc.
Proof.
  induction parts as [|x xs IH]; intros acc; [reflexivity|].
  cbn [fold_left filter]. rewrite Gen_is_safe_path_component_eq.
  destruct (is_safe_path_component x); cbn [negb fold_left]; apply IH.
Qed.

Lemma Gen_sanitize_path_eq : forall p, PathGen.sanitize_path p = sanitize_path p.
Proof.
  intros p. unfold PathGen.sanitize_path, sanitize_path, join_parts, safe_parts.
  rewrite fold_filter_join.
  change (str "/") with [slash]. change 47 with slash.
  destruct (endswith (fold_left posix_join (filter is_safe_path_component (split_on slash (normpath p))) [slash]) [slash]);
    reflexivity.
Qed.

Lemma Gen_strip_path_eq : forall p, PathGen.strip_path p = strip_path p.
Proof. reflexivity. Qed.

Lemma Gen_unstrip_path_eq : forall p b, PathGen.unstrip_path p b = unstrip_path p b.
Proof. intros p b. unfold PathGen.unstrip_path, unstrip_path. reflexivity. Qed.

Lemma Gen_check_token_name_eq : forall t, SyncTokGen.check_token_name t = check_token_name t.
Proof.
  intros t. unfold SyncTokGen.check_token_name, check_token_name.
  destruct (N.eqb (N.of_nat (List.length t)) 64); cbn [negb andb]; [|reflexivity].
  induction t as [|c t IH]; [reflexivity|].
  cbn [existsb forallb]. unfold is_hex at 1.
  destruct (contains_char c (str "0123456789abcdef")); cbn [negb orb andb]; [exact IH|reflexivity].
Qed.
