(* sanitize_path is idempotent, and the components of a sanitised path are exactly its safe parts *)
From Coq Require Import List NArith Bool Lia String.
Import ListNotations.
Require Import RV.Lib.PyStr RV.Model.Path RV.Proofs.PyStrLemmas RV.Proofs.PathProofs.
Open Scope list_scope. Open Scope N_scope.

Definition slashes (parts : list pystr) : pystr := List.concat (map (cons slash) parts).

Lemma safe_not_nil_str : forall p, safe p -> eqs p [] = false.
Proof. intros p H. apply eqs_neq. apply safe_nonempty. exact H. Qed.

Lemma slashes_cons : forall q qs, slashes (q :: qs) = slash :: (q ++ slashes qs).
Proof. reflexivity. Qed.

Lemma split_tail : forall ps p, contains_char slash p = false -> Forall safe ps ->
  split_on slash (p ++ slashes ps) = p :: ps.
Proof.
  induction ps as [|q qs IH]; intros p Hp Hs.
  - unfold slashes. cbn [map List.concat]. rewrite app_nil_r. apply split_on_noslash. exact Hp.
  - inversion Hs as [|? ? Hq Hqs]; subst. rewrite slashes_cons. rewrite split_on_app_sep by exact Hp. f_equal.
    apply IH; [apply safe_no_slash; exact Hq|exact Hqs].
Qed.

Lemma split_tail_slash : forall ps p, contains_char slash p = false -> Forall safe ps ->
  split_on slash ((p ++ slashes ps) ++ [slash]) = (p :: ps) ++ [[]].
Proof.
  induction ps as [|q qs IH]; intros p Hp Hs.
  - unfold slashes. cbn [map List.concat]. rewrite app_nil_r. rewrite split_on_app_sep by exact Hp. reflexivity.
  - inversion Hs as [|? ? Hq Hqs]; subst. rewrite slashes_cons.
    rewrite <- (app_assoc p (slash :: q ++ slashes qs) [slash]). cbn [app].
    rewrite split_on_app_sep by exact Hp. cbn [app]. f_equal.
    apply IH; [apply safe_no_slash; exact Hq|exact Hqs].
Qed.

Lemma safe_loop_step : forall p, safe p ->
  (eqs p [] || eqs p [dot]) = false /\ negb (eqs p [dot; dot]) = true.
Proof.
  intros p H. apply safe_spec in H as (H1 & _ & H2 & H3). split.
  - apply orb_false_iff. split; apply eqs_neq; assumption.
  - apply negb_true_iff. apply eqs_neq. exact H3.
Qed.

Lemma loop_safe : forall parts rest acc, Forall safe parts ->
  normpath_loop true (parts ++ rest) acc = normpath_loop true rest (rev parts ++ acc).
Proof.
  induction parts as [|p ps IH]; intros rest acc Hs; [reflexivity|].
  inversion Hs as [|? ? Hp Hps]; subst. cbn [app normpath_loop].
  destruct (safe_loop_step p Hp) as [E1 E2]. rewrite E1, E2. cbn [orb].
  rewrite IH by exact Hps. cbn [rev]. rewrite <- app_assoc. reflexivity.
Qed.

Lemma join_slashes : forall ps p, slash :: join [slash] (p :: ps) = slashes (p :: ps).
Proof.
  induction ps as [|q qs IH]; intros p.
  - unfold slashes. cbn [map List.concat join]. rewrite app_nil_r. reflexivity.
  - rewrite slashes_cons. change (join [slash] (p :: q :: qs)) with (p ++ [slash] ++ join [slash] (q :: qs)).
    cbn [app]. rewrite (IH q). reflexivity.
Qed.

Lemma startswith_2slash_safe : forall p rest, safe p -> startswith (slash :: p ++ rest) [slash; slash] = false.
Proof.
  intros p rest H. destruct p as [|x p']; [exfalso; apply (safe_nonempty [] H); reflexivity|].
  pose proof (safe_no_slash _ H) as Hn. cbn [contains_char] in Hn. apply orb_false_iff in Hn as [Hx _].
  cbn [app startswith]. rewrite Hx. rewrite N.eqb_refl. reflexivity.
Qed.

(* normpath of a rendered path (with or without trailing slash) is the rendered path without it *)
Lemma normpath_render : forall p ps tr, Forall safe (p :: ps) -> (tr = [] \/ tr = [slash]) ->
  normpath (slashes (p :: ps) ++ tr) = slashes (p :: ps).
Proof.
  intros p ps tr Hs Htr. inversion Hs as [|? ? Hp Hps]; subst.
  rewrite slashes_cons. unfold normpath. cbn [app nonempty negb].
  assert (H1 : startswith (slash :: (p ++ slashes ps) ++ tr) [slash] = true) by (cbn [startswith]; rewrite N.eqb_refl; reflexivity).
  rewrite H1. rewrite <- app_assoc. rewrite (startswith_2slash_safe p (slashes ps ++ tr) Hp). cbn [andb].
  cbn [Nat.eqb negb repeat_char app].
  assert (Hsplit : split_on slash (slash :: p ++ slashes ps ++ tr) = [] :: (p :: ps) ++ (match tr with [] => [] | _ => [[]] end)).
  { cbn [split_on]. rewrite N.eqb_refl. f_equal. destruct Htr as [->| ->].
    - rewrite !app_nil_r. apply split_tail; [apply safe_no_slash; exact Hp|exact Hps].
    - rewrite app_assoc. apply split_tail_slash; [apply safe_no_slash; exact Hp|exact Hps]. }
  rewrite Hsplit. cbn [normpath_loop eqs orb].
  rewrite (loop_safe (p :: ps) _ [] Hs). rewrite app_nil_r.
  assert (Hend : normpath_loop true (match tr with [] => [] | _ => [[]] end) (rev (p :: ps)) = p :: ps).
  { destruct Htr as [->| ->]; cbn [normpath_loop eqs orb]; apply rev_involutive. }
  rewrite Hend. rewrite (join_slashes ps p). rewrite slashes_cons. reflexivity.
Qed.

Lemma filter_safe_all : forall l, Forall safe l -> filter is_safe_path_component l = l.
Proof.
  induction l as [|x xs IH]; intros H; [reflexivity|]. inversion H as [|? ? Hx Hxs]; subst.
  cbn [filter]. unfold safe in Hx. rewrite Hx. f_equal. apply IH. exact Hxs.
Qed.

Lemma safe_parts_render : forall p ps, Forall safe (p :: ps) ->
  filter is_safe_path_component (split_on slash (slashes (p :: ps))) = p :: ps.
Proof.
  intros p ps Hs. inversion Hs as [|? ? Hp Hps]; subst.
  rewrite slashes_cons. cbn [split_on]. rewrite N.eqb_refl.
  rewrite split_tail by (try apply safe_no_slash; assumption).
  change (filter is_safe_path_component ([] :: p :: ps)) with (filter is_safe_path_component (p :: ps)).
  apply filter_safe_all. exact Hs.
Qed.

Theorem sanitize_path_idempotent : forall s, sanitize_path (sanitize_path s) = sanitize_path s.
Proof.
  intros s. destruct (sanitize_path_shape s) as [E Hs]. rewrite E.
  destruct (safe_parts s) as [|p ps] eqn:Eparts.
  - reflexivity.
  - assert (Hshape : render (p :: ps) ++ trailing_of s (p :: ps) = slashes (p :: ps) ++ (if endswith s [slash] then [slash] else []))
      by reflexivity.
    rewrite Hshape. clear Hshape.
    remember (if endswith s [slash] then [slash] else []) as tr eqn:Etr.
    assert (Htr : tr = [] \/ tr = [slash]) by (subst tr; destruct (endswith s [slash]); auto).
    assert (Hsp : safe_parts (slashes (p :: ps) ++ tr) = p :: ps).
    { unfold safe_parts. rewrite (normpath_render p ps tr Hs Htr). apply safe_parts_render. exact Hs. }
    destruct (sanitize_path_shape (slashes (p :: ps) ++ tr)) as [E2 _]. rewrite E2, Hsp.
    assert (Hend : endswith (slashes (p :: ps) ++ tr) [slash] = match tr with [] => false | _ => true end).
    { destruct Htr as [->| ->].
      - rewrite app_nil_r. exact (render_endswith_slash (p :: ps) Hs).
      - apply endswith_snoc. }
    unfold render, trailing_of. fold (slashes (p :: ps)). rewrite Hend.
    destruct Htr as [->| ->]; reflexivity.
Qed.

(* the components of a sanitised path are exactly the safe parts that survived *)
Theorem comps_sanitize : forall s, comps (sanitize_path s) = safe_parts s.
Proof.
  intros s. destruct (sanitize_path_shape s) as [E Hs]. rewrite E.
  destruct (safe_parts s) as [|p ps] eqn:Eparts; [reflexivity|].
  assert (Hshape : render (p :: ps) ++ trailing_of s (p :: ps) = slash :: ((p ++ slashes ps) ++ (if endswith s [slash] then [slash] else [])))
    by reflexivity.
  rewrite Hshape. clear Hshape.
  remember (if endswith s [slash] then [slash] else []) as tr eqn:Etr.
  assert (Htr : tr = [] \/ tr = [slash]) by (subst tr; destruct (endswith s [slash]); auto).
  pose proof (Forall_inv Hs) as Hp. pose proof (Forall_inv_tail Hs) as Hps.
  assert (Hpne : p <> []) by (apply safe_nonempty; exact Hp).
  assert (Hbody : p ++ slashes ps <> []) by (destruct p; [contradiction|discriminate]).
  unfold comps, strip_path, strip_char.
  assert (Hl : lstrip_char slash (slash :: (p ++ slashes ps) ++ tr) = (p ++ slashes ps) ++ tr).
  { cbn [lstrip_char]. rewrite N.eqb_refl. apply lstrip_char_nohead.
    destruct p as [|x p']; [contradiction|]. rewrite startswith_single. cbn [app].
    pose proof (safe_no_slash _ Hp) as Hn. cbn [contains_char] in Hn. apply orb_false_iff in Hn as [Hx _]. exact Hx. }
  rewrite Hl.
  assert (Hnoend : endswith (p ++ slashes ps) [slash] = false).
  { pose proof (render_endswith_slash (p :: ps) Hs) as He. unfold render in He. fold (slashes (p :: ps)) in He.
    rewrite slashes_cons in He. change (slash :: p ++ slashes ps) with ([slash] ++ (p ++ slashes ps)) in He.
    rewrite endswith_app_nonempty in He by exact Hbody. exact He. }
  assert (Hlast : lstrip_char slash (rev (p ++ slashes ps)) = rev (p ++ slashes ps)).
  { apply lstrip_char_nohead. exact Hnoend. }
  assert (Hr : rstrip_char slash ((p ++ slashes ps) ++ tr) = p ++ slashes ps).
  { unfold rstrip_char. destruct Htr as [->| ->].
    - rewrite app_nil_r, Hlast. apply rev_involutive.
    - rewrite rev_app_distr. cbn [rev app lstrip_char]. rewrite N.eqb_refl, Hlast. apply rev_involutive. }
  rewrite Hr. destruct (p ++ slashes ps) eqn:Ep; [contradiction|].
  rewrite <- Ep. apply split_tail; [apply safe_no_slash; exact Hp|exact Hps].
Qed.
