(* C14 -- content lines: unfolding undoes folding, parsing undoes printing, and the round trip
   parse_lines (print_lines ls) = Some ls for well-formed content lines.
   All statements are proved as requested; no statement had to be changed. *)
From Coq Require Import List NArith Bool Lia Sorted.
Import ListNotations.
Require Import RV.Lib.PyStr RV.Proofs.PyStrLemmas RV.Proofs.StrOrder RV.Model.ContentLine RV.Model.Vobj RV.Model.C14Spec.
Open Scope N_scope.

(* ================================================================== A. unfolding undoes folding *)
Definition good_line (s : pystr) : Prop :=
  s <> [] /\ no_brk s /\ match s with c :: _ => is_wsp c = false | [] => True end.

Lemma brk_false : forall c, is_brk c = false -> (c =? CR) = false /\ (c =? LF) = false.
Proof. intros c H. unfold is_brk in H. apply orb_false_iff in H. exact H. Qed.

Lemma unfold_step_fold : forall acc r, unfold_std_aux acc (CR :: LF :: SP :: r) = unfold_std_aux acc r.
Proof. reflexivity. Qed.

Lemma unfold_step_char : forall acc c r, is_brk c = false ->
  unfold_std_aux acc (c :: r) = unfold_std_aux (c :: acc) r.
Proof.
  intros acc c r H. apply brk_false in H as [Hcr Hlf].
  cbn [unfold_std_aux]. rewrite Hcr, Hlf. reflexivity.
Qed.

Lemma unfold_step_end : forall acc rest,
  match rest with [] => True | c :: _ => is_wsp c = false end ->
  unfold_std_aux acc (CR :: LF :: rest) = emit acc (unfold_std_aux [] rest).
Proof.
  intros acc [|e r] H; [reflexivity|].
  transitivity (if is_wsp e then unfold_std_aux acc r else emit acc (unfold_std_aux [] (e :: r)));
    [reflexivity | rewrite H; reflexivity].
Qed.

Lemma unfold_plain : forall s acc rest, no_brk s ->
  unfold_std_aux acc (s ++ rest) = unfold_std_aux (rev s ++ acc) rest.
Proof.
  induction s as [|c s IH]; intros acc rest H; [reflexivity|].
  inversion H as [|? ? Hc Hs]; subst.
  cbn [app rev]. rewrite unfold_step_char by exact Hc. rewrite IH by exact Hs.
  rewrite <- app_assoc. reflexivity.
Qed.

Lemma unfold_fold_loop : forall s acc k rest, no_brk s ->
  unfold_std_aux acc (fold_loop s k ++ rest) = unfold_std_aux (rev s ++ acc) rest.
Proof.
  induction s as [|c s IH]; intros acc k rest H; [reflexivity|].
  inversion H as [|? ? Hc Hs]; subst.
  cbn [fold_loop rev]. rewrite <- app_assoc. cbn [app].
  destruct (75 <? k + utf8_len c).
  - cbn [app]. rewrite unfold_step_fold, unfold_step_char by exact Hc. apply IH. exact Hs.
  - cbn [app]. rewrite unfold_step_char by exact Hc. apply IH. exact Hs.
Qed.

Lemma utf8_len_first : forall c, (75 <? 0 + utf8_len c) = false.
Proof. intros c. unfold utf8_len. destruct (c <? 128), (c <? 2048), (c <? 65536); reflexivity. Qed.

Lemma fold_line_head : forall c s, exists t, fold_line (c :: s) = c :: t.
Proof.
  intros c s. unfold fold_line. destruct (N.of_nat (length (c :: s)) <? 75).
  - eexists. reflexivity.
  - cbn [fold_loop]. rewrite utf8_len_first. eexists. reflexivity.
Qed.

Lemma fold_line_unfold : forall s acc rest, no_brk s ->
  unfold_std_aux acc (fold_line s ++ rest) = unfold_std_aux (rev s ++ acc) (CR :: LF :: rest).
Proof.
  intros s acc rest H. unfold fold_line. rewrite <- app_assoc. cbn [app].
  destruct (N.of_nat (length s) <? 75); [apply unfold_plain | apply unfold_fold_loop]; exact H.
Qed.

Lemma concat_fold_head : forall ss, Forall good_line ss ->
  match List.concat (map fold_line ss) with [] => True | c :: _ => is_wsp c = false end.
Proof.
  intros [|s ss] H; [exact I|].
  inversion H as [|? ? Hs Hss]; subst. destruct Hs as (Hne & _ & Hw).
  destruct s as [|c s]; [contradiction|].
  cbn [map List.concat]. destruct (fold_line_head c s) as [t ->]. exact Hw.
Qed.

Lemma emit_rev_nonempty : forall s rest, s <> [] -> emit (rev s ++ []) rest = s :: rest.
Proof.
  intros s rest Hne. rewrite app_nil_r. unfold emit.
  destruct (rev s) as [|x a] eqn:E.
  - apply (f_equal (@rev N)) in E. rewrite rev_involutive in E. contradiction.
  - rewrite <- E, rev_involutive. reflexivity.
Qed.

Lemma unfold_fold : forall ss, Forall good_line ss -> unfold_std (List.concat (map fold_line ss)) = ss.
Proof.
  unfold unfold_std. induction ss as [|s ss IH]; intros H; [reflexivity|].
  inversion H as [|? ? Hs Hss]; subst. destruct Hs as (Hne & Hnb & Hw).
  cbn [map List.concat]. rewrite fold_line_unfold by exact Hnb.
  rewrite unfold_step_end by (apply concat_fold_head; exact Hss).
  rewrite IH by exact Hss. apply emit_rev_nonempty. exact Hne.
Qed.

(* ================================================================== B. parsing undoes printing of one line *)
Definition key_lt (a b : pystr * list pystr) : Prop := str_ltb (fst a) (fst b) = true.

Lemma insert_param_lt : forall kv l, Forall (key_lt kv) l -> insert_param kv l = kv :: l.
Proof.
  intros kv [|h t] H; [reflexivity|].
  inversion H as [|? ? Hh Ht]; subst. cbn [insert_param]. unfold str_leb. unfold key_lt in Hh. rewrite Hh. reflexivity.
Qed.

Lemma sort_params_sorted : forall ps,
  StronglySorted (fun a b => str_ltb (fst a) (fst b) = true) ps -> sort_params ps = ps.
Proof.
  induction ps as [|p ps IH]; intros H; [reflexivity|].
  inversion H as [|? ? Hs Hall]; subst. unfold sort_params in *. cbn [fold_right].
  rewrite IH by exact Hs. apply insert_param_lt. exact Hall.
Qed.

Lemma span_app : forall p a b, Forall (fun c => p c = true) a ->
  match b with [] => True | c :: _ => p c = false end -> span p (a ++ b) = (a, b).
Proof.
  induction a as [|x a IH]; intros b Ha Hb.
  - destruct b as [|c b]; [reflexivity|]. cbn [app span]. rewrite Hb. reflexivity.
  - inversion Ha as [|? ? Hx Ha']; subst. cbn [app span]. rewrite Hx, (IH b Ha' Hb). reflexivity.
Qed.

Lemma name_char_facts : forall c, is_name_char c = true ->
  45 <= c /\ c <= 122 /\ c <> 46 /\ c <> 58 /\ c <> 59 /\ c <> 61.
Proof.
  intros c H. unfold is_name_char, DASH, USC in H.
  rewrite !orb_true_iff, !andb_true_iff, !N.leb_le, !N.eqb_eq in H. lia.
Qed.

Lemma name_char_not_brk : forall c, is_name_char c = true -> is_brk c = false.
Proof.
  intros c H. apply name_char_facts in H. unfold is_brk, CR, LF.
  apply orb_false_iff. split; apply N.eqb_neq; lia.
Qed.

Lemma name_char_not_wsp : forall c, is_name_char c = true -> is_wsp c = false.
Proof.
  intros c H. apply name_char_facts in H. unfold is_wsp, SP, TAB.
  apply orb_false_iff. split; apply N.eqb_neq; lia.
Qed.

Lemma name_char_not_semi : forall c, is_name_char c = true -> (c =? SEMI) = false.
Proof. intros c H. apply name_char_facts in H. unfold SEMI. apply N.eqb_neq. lia. Qed.

Lemma nonempty_true : forall (A : Type) (s : list A), s <> [] -> nonempty s = true.
Proof. intros A [|x s] H; [contradiction|reflexivity]. Qed.

(* ---- parameter values *)
Lemma qsafe_chars : forall v, contains_char DQ v = false -> Forall (fun c => is_qsafe_char c = true) v.
Proof.
  induction v as [|x v IH]; intros H; constructor.
  - cbn [contains_char] in H. apply orb_false_iff in H as [H1 _]. unfold is_qsafe_char. rewrite H1. reflexivity.
  - cbn [contains_char] in H. apply orb_false_iff in H as [_ H2]. apply IH. exact H2.
Qed.

Lemma safe_chars : forall v, contains_char DQ v = false -> needs_quote v = false ->
  Forall (fun c => is_safe_char c = true) v.
Proof.
  induction v as [|x v IH]; intros Hd Hq; constructor.
  - unfold needs_quote in Hq. cbn [contains_char] in Hd, Hq.
    repeat match goal with H : _ || _ = false |- _ => apply orb_false_iff in H; destruct H end.
    unfold is_safe_char.
    repeat match goal with H : (x =? _) = false |- _ => rewrite H; clear H end. reflexivity.
  - apply IH.
    + cbn [contains_char] in Hd. apply orb_false_iff in Hd as [_ H2]. exact H2.
    + unfold needs_quote in *. cbn [contains_char] in Hq.
      repeat match goal with H : _ || _ = false |- _ => apply orb_false_iff in H; destruct H end.
      repeat match goal with H : contains_char _ v = false |- _ => rewrite H; clear H end. reflexivity.
Qed.

Lemma parse_pvalue_print : forall v tail, wf_pvalue v ->
  match tail with [] => True | c :: _ => is_safe_char c = false end ->
  parse_pvalue (dquote_escape v ++ tail) = Some (needs_quote v, v, tail).
Proof.
  intros v tail (Hne & Hdq & _) Ht. unfold dquote_escape. destruct (needs_quote v) eqn:Hq.
  - cbn [app parse_pvalue]. change (DQ =? DQ) with true. cbv iota.
    rewrite <- app_assoc. cbn [app].
    rewrite span_app; [reflexivity | apply qsafe_chars; exact Hdq | reflexivity].
  - destruct v as [|c v]; [contradiction|].
    assert (Hc : (c =? DQ) = false).
    { cbn [contains_char] in Hdq. apply orb_false_iff in Hdq as [H1 _]. exact H1. }
    cbn [app parse_pvalue]. rewrite Hc.
    change (c :: v ++ tail) with ((c :: v) ++ tail).
    rewrite span_app; [reflexivity | apply safe_chars; assumption | exact Ht].
Qed.

Lemma join_cons2 : forall sep (a b : pystr) l, join sep (a :: b :: l) = a ++ sep ++ join sep (b :: l).
Proof. reflexivity. Qed.

Definition semi_or_colon_head (t : pystr) : Prop := exists c r, t = c :: r /\ (c = SEMI \/ c = COLON).

Lemma parse_pvalues_print : forall vs fuel tail, vs <> [] -> Forall wf_pvalue vs ->
  (List.length vs <= fuel)%nat -> semi_or_colon_head tail ->
  parse_pvalues fuel (join [COMMA] (map dquote_escape vs) ++ tail) = Some (vs, tail).
Proof.
  induction vs as [|v vs IH]; intros fuel tail Hne Hwf Hfuel Htail; [contradiction|].
  inversion Hwf as [|? ? Hv Hvs]; subst.
  destruct fuel as [|f]; [cbn in Hfuel; lia|].
  assert (Hnev : nonempty v = true) by (apply nonempty_true; apply Hv).
  destruct vs as [|v2 vs].
  - cbn [map join parse_pvalues]. destruct Htail as (c & r & -> & Hc).
    rewrite parse_pvalue_print; [|exact Hv|destruct Hc; subst; reflexivity].
    rewrite Hnev, orb_true_r.
    destruct Hc; subst; reflexivity.
  - rewrite map_cons, map_cons, join_cons2, <- map_cons.
    rewrite <- !app_assoc. cbn [app parse_pvalues].
    rewrite parse_pvalue_print; [|exact Hv|reflexivity].
    change (COMMA =? COMMA) with true. cbv iota.
    rewrite IH; [|discriminate|exact Hvs|cbn [List.length] in *; lia|exact Htail].
    rewrite Hnev, orb_true_r. reflexivity.
Qed.

Lemma dquote_escape_length : forall v, (List.length v <= List.length (dquote_escape v))%nat.
Proof.
  intros v. unfold dquote_escape. destruct (needs_quote v); [|lia].
  cbn [List.length]. rewrite app_length. lia.
Qed.

Lemma join_length : forall vs, Forall wf_pvalue vs ->
  (List.length vs <= List.length (join [COMMA] (map dquote_escape vs)))%nat.
Proof.
  induction vs as [|v vs IH]; intros H; [cbn; lia|].
  inversion H as [|? ? Hv Hvs]; subst.
  assert (Hl : (1 <= List.length (dquote_escape v))%nat).
  { pose proof (dquote_escape_length v) as L. destruct Hv as (Hne & _).
    destruct v as [|c v]; [contradiction|]. cbn [List.length] in L. lia. }
  destruct vs as [|v2 vs].
  - cbn [map join List.length]. exact Hl.
  - specialize (IH Hvs). rewrite map_cons, map_cons, join_cons2, <- map_cons.
    rewrite !app_length. cbn [List.length] in *. lia.
Qed.

(* ---- parameters *)
Lemma params_tail_head : forall ps v, semi_or_colon_head (List.concat (map print_param ps) ++ COLON :: v).
Proof.
  intros [|p ps] v; unfold semi_or_colon_head.
  - cbn. eauto.
  - cbn [map List.concat print_param app]. eexists. eexists. split; [reflexivity|left; reflexivity].
Qed.

Lemma print_params_cons : forall k vs ps t,
  List.concat (map print_param ((k, vs) :: ps)) ++ t =
  SEMI :: k ++ EQ :: (join [COMMA] (map dquote_escape vs) ++ (List.concat (map print_param ps) ++ t)).
Proof.
  intros. cbn [map List.concat]. unfold print_param. cbn [fst snd]. rewrite <- !app_assoc. cbn [app].
  rewrite <- ?app_assoc. reflexivity.
Qed.

Lemma parse_params_print : forall ps fuel v, Forall wf_param ps -> (List.length ps < fuel)%nat ->
  parse_params fuel (List.concat (map print_param ps) ++ COLON :: v) = Some (ps, v).
Proof.
  induction ps as [|[k vs] ps IH]; intros fuel v Hwf Hfuel.
  - destruct fuel as [|f]; [lia|]. reflexivity.
  - destruct fuel as [|f]; [lia|].
    inversion Hwf as [|? ? Hp Hps]; subst.
    destruct Hp as (Hkne & Hknc & _ & Hvne & Hvs). cbn [fst snd] in *.
    rewrite print_params_cons. cbn [parse_params]. change (SEMI =? SEMI) with true. cbv iota.
    rewrite span_app; [|exact Hknc|reflexivity].
    rewrite (nonempty_true _ k Hkne). cbn [negb]. change (EQ =? EQ) with true. cbv iota.
    rewrite parse_pvalues_print; [|exact Hvne|exact Hvs| |apply params_tail_head].
    + rewrite IH; [reflexivity|exact Hps|cbn [List.length] in Hfuel; lia].
    + rewrite app_length. pose proof (join_length vs Hvs). lia.
Qed.

Lemma print_params_length : forall ps,
  (List.length ps <= List.length (List.concat (map print_param ps)))%nat.
Proof.
  induction ps as [|p ps IH]; [cbn; lia|].
  cbn [map List.concat]. unfold print_param at 1. rewrite app_length. cbn [List.length]. lia.
Qed.

(* ---- merging *)
Lemma add_param_fresh : forall k vs l, Forall (fun kv => eqs k (fst kv) = false) l ->
  add_param k vs l = l ++ [(k, vs)].
Proof.
  induction l as [|[k' vs'] l IH]; intros H; [reflexivity|].
  inversion H as [|? ? Hh Ht]; subst. cbn [fst] in Hh. cbn [add_param app]. rewrite Hh, (IH Ht). reflexivity.
Qed.

Definition merge_step (acc : list (pystr * list pystr)) (p : raw_param) :=
  match snd p with [] => acc | vs => add_param (upper_name (fst p)) vs acc end.

Lemma merge_fold : forall ps acc, Forall wf_param ps ->
  StronglySorted (fun a b => str_ltb (fst a) (fst b) = true) ps ->
  Forall (fun a => Forall (fun b => str_ltb (fst a) (fst b) = true) ps) acc ->
  fold_left merge_step ps acc = acc ++ ps.
Proof.
  induction ps as [|[k vs] ps IH]; intros acc Hwf Hs Hacc; [cbn; rewrite app_nil_r; reflexivity|].
  inversion Hwf as [|? ? Hp Hps]; subst. inversion Hs as [|? ? Hs' Hlt]; subst.
  destruct Hp as (_ & _ & Hup & Hvne & _). cbn [fst snd] in *.
  cbn [fold_left]. unfold merge_step at 2. cbn [fst snd]. rewrite Hup.
  destruct vs as [|v0 vs0]; [contradiction|].
  rewrite add_param_fresh.
  - rewrite IH; [rewrite <- app_assoc; reflexivity|exact Hps|exact Hs'|].
    apply Forall_app. split.
    + eapply Forall_impl; [|exact Hacc]. intros a Ha. inversion Ha; assumption.
    + constructor; [exact Hlt|constructor].
  - eapply Forall_impl; [|exact Hacc]. intros a Ha. inversion Ha as [|? ? Hak _]; subst. cbn [fst] in Hak.
    apply eqs_neq. intros E. apply str_ltb_neq in Hak. congruence.
Qed.

Lemma merge_params_id : forall ps, Forall wf_param ps ->
  StronglySorted (fun a b => str_ltb (fst a) (fst b) = true) ps -> merge_params ps = ps.
Proof.
  intros ps Hwf Hs. change (merge_params ps) with (fold_left merge_step ps []).
  rewrite merge_fold; [reflexivity|exact Hwf|exact Hs|constructor].
Qed.

(* ---- the `;;` tolerance *)
Lemma semi_tol : forall ps v, Forall wf_param ps ->
  match List.concat (map print_param ps) ++ COLON :: v with
  | c :: (d :: _) as r' => if (c =? SEMI) && ((d =? SEMI) || (d =? COLON)) then r' else List.concat (map print_param ps) ++ COLON :: v
  | _ => List.concat (map print_param ps) ++ COLON :: v
  end = List.concat (map print_param ps) ++ COLON :: v.
Proof.
  intros [|[k vs] ps] v Hwf.
  - cbn [map List.concat app]. destruct v; reflexivity.
  - inversion Hwf as [|? ? Hp _]; subst. destruct Hp as (Hkne & Hknc & _). cbn [fst] in *.
    rewrite print_params_cons. destruct k as [|c k]; [contradiction|].
    inversion Hknc as [|? ? Hc _]; subst. cbn [app].
    assert (Hcol : (c =? COLON) = false) by (apply name_char_facts in Hc; unfold COLON; apply N.eqb_neq; lia).
    rewrite (name_char_not_semi c Hc), Hcol. cbn [orb]. rewrite andb_false_r. reflexivity.
Qed.

Lemma parse_rest : forall grp nm ps v, Forall wf_param ps ->
  StronglySorted (fun a b => str_ltb (fst a) (fst b) = true) ps -> has_qp ps = false ->
  match parse_params (S (List.length (List.concat (map print_param ps) ++ COLON :: v)))
          (List.concat (map print_param ps) ++ COLON :: v) with
  | Some (raw, v') =>
      let ps' := merge_params raw in
      if has_qp ps' then None else Some (mkCl grp nm ps' v')
  | None => None
  end = Some (mkCl grp nm ps v).
Proof.
  intros grp nm ps v Hwf Hs Hqp.
  rewrite parse_params_print; [|exact Hwf|].
  - cbv zeta. rewrite merge_params_id by assumption. rewrite Hqp. reflexivity.
  - rewrite app_length. pose proof (print_params_length ps). cbn [List.length]. lia.
Qed.

Lemma tail_head_not_name : forall ps v,
  match List.concat (map print_param ps) ++ COLON :: v with [] => True | c :: _ => is_name_char c = false end.
Proof.
  intros ps v. destruct (params_tail_head ps v) as (c & r & -> & [-> | ->]); reflexivity.
Qed.

Lemma parse_print_cl : forall l, wf_cl l -> parse_cl (print_cl l) = Some l.
Proof.
  intros [g n ps v]. unfold wf_cl. cbn [cl_group cl_name cl_params cl_value].
  intros (Hg & Hn & Hnc & Hup & Hps & Hs & Hqp & Hv).
  unfold print_cl, parse_cl. cbn [cl_group cl_name cl_params cl_value].
  rewrite sort_params_sorted by exact Hs.
  pose proof (tail_head_not_name ps v) as Hhead.
  pose proof (params_tail_head ps v) as Hsc.
  destruct g as [g|].
  - destruct Hg as (Hgne & Hgnc).
    rewrite <- app_assoc. cbn [app].
    rewrite span_app; [|exact Hgnc|reflexivity].
    rewrite (nonempty_true _ g Hgne). cbn [negb]. change (dot =? dot) with true. cbv iota.
    rewrite span_app; [|exact Hnc|exact Hhead].
    rewrite (nonempty_true _ n Hn). cbv iota.
    rewrite semi_tol by exact Hps.
    rewrite Hup. apply parse_rest; assumption.
  - cbn [app].
    rewrite span_app; [|exact Hnc|exact Hhead].
    rewrite (nonempty_true _ n Hn). cbn [negb].
    clear Hhead.
    remember (List.concat (map print_param ps) ++ COLON :: v) as P eqn:EP.
    destruct Hsc as (c & r & E2 & Hc). subst P.
    rewrite E2 at 1.
    assert (Ed : (c =? dot) = false) by (destruct Hc; subst c; reflexivity).
    rewrite Ed. cbv iota.
    rewrite semi_tol by exact Hps.
    rewrite Hup. apply parse_rest; assumption.
Qed.

(* ---- a printed line is a good line *)
Lemma no_brk_app : forall a b, no_brk a -> no_brk b -> no_brk (a ++ b).
Proof. intros a b Ha Hb. unfold no_brk. apply Forall_app. split; assumption. Qed.

Lemma no_brk_cons : forall c s, is_brk c = false -> no_brk s -> no_brk (c :: s).
Proof. intros c s Hc Hs. constructor; assumption. Qed.

Lemma name_chars_no_brk : forall s, all_name_chars s -> no_brk s.
Proof. intros s H. eapply Forall_impl; [|exact H]. intros c Hc. apply name_char_not_brk. exact Hc. Qed.

Lemma no_brk_dquote_escape : forall v, no_brk v -> no_brk (dquote_escape v).
Proof.
  intros v H. unfold dquote_escape. destruct (needs_quote v); [|exact H].
  apply no_brk_cons; [reflexivity|]. apply no_brk_app; [exact H|]. apply no_brk_cons; [reflexivity|constructor].
Qed.

Lemma no_brk_join : forall vs, Forall wf_pvalue vs -> no_brk (join [COMMA] (map dquote_escape vs)).
Proof.
  induction vs as [|v vs IH]; intros H; [constructor|].
  inversion H as [|? ? Hv Hvs]; subst. destruct Hv as (_ & _ & Hb).
  destruct vs as [|v2 vs].
  - cbn [map join]. apply no_brk_dquote_escape. exact Hb.
  - rewrite map_cons, map_cons, join_cons2, <- map_cons.
    apply no_brk_app; [apply no_brk_dquote_escape; exact Hb|].
    apply no_brk_app; [apply no_brk_cons; [reflexivity|constructor]|]. apply IH. exact Hvs.
Qed.

Lemma no_brk_print_param : forall kv, wf_param kv -> no_brk (print_param kv).
Proof.
  intros [k vs] (_ & Hknc & _ & _ & Hvs). cbn [fst snd] in *. unfold print_param. cbn [fst snd].
  apply no_brk_cons; [reflexivity|]. apply no_brk_app; [apply name_chars_no_brk; exact Hknc|].
  apply no_brk_cons; [reflexivity|]. apply no_brk_join. exact Hvs.
Qed.

Lemma no_brk_print_params : forall ps, Forall wf_param ps -> no_brk (List.concat (map print_param ps)).
Proof.
  induction ps as [|p ps IH]; intros H; [constructor|].
  inversion H as [|? ? Hp Hps]; subst. cbn [map List.concat].
  apply no_brk_app; [apply no_brk_print_param; exact Hp | apply IH; exact Hps].
Qed.

Lemma print_cl_good : forall l, wf_cl l -> good_line (print_cl l).
Proof.
  intros [g n ps v]. unfold wf_cl. cbn [cl_group cl_name cl_params cl_value].
  intros (Hg & Hn & Hnc & Hup & Hps & Hs & Hqp & Hv).
  unfold print_cl, good_line. cbn [cl_group cl_name cl_params cl_value].
  rewrite sort_params_sorted by exact Hs.
  assert (Hrest : no_brk (n ++ List.concat (map print_param ps) ++ COLON :: v)).
  { apply no_brk_app; [apply name_chars_no_brk; exact Hnc|].
    apply no_brk_app; [apply no_brk_print_params; exact Hps|].
    apply no_brk_cons; [reflexivity|exact Hv]. }
  destruct n as [|n0 n]; [contradiction|]. inversion Hnc as [|? ? Hn0 _]; subst.
  destruct g as [g|].
  - destruct Hg as (Hgne & Hgnc). destruct g as [|g0 g]; [contradiction|].
    inversion Hgnc as [|? ? Hg0 _]; subst.
    split; [discriminate|]. split.
    + apply no_brk_app; [|exact Hrest].
      apply no_brk_app; [apply name_chars_no_brk; exact Hgnc|]. apply no_brk_cons; [reflexivity|constructor].
    + cbn [app]. apply name_char_not_wsp. exact Hg0.
  - cbn [app] in *. split; [discriminate|]. split; [exact Hrest|].
    apply name_char_not_wsp. exact Hn0.
Qed.

(* ================================================================== C. the theorem *)
Lemma map_opt_parse_print : forall ls, Forall wf_cl ls -> map_opt parse_cl (map print_cl ls) = Some ls.
Proof.
  induction ls as [|l ls IH]; intros H; [reflexivity|].
  inversion H as [|? ? Hl Hls]; subst. cbn [map map_opt].
  rewrite parse_print_cl by exact Hl. rewrite IH by exact Hls. reflexivity.
Qed.

Theorem lines_roundtrip : forall ls, Forall wf_cl ls -> parse_lines (print_lines ls) = Some ls.
Proof.
  intros ls H. unfold parse_lines, print_lines.
  rewrite <- (map_map print_cl fold_line).
  rewrite unfold_fold.
  - apply map_opt_parse_print. exact H.
  - apply Forall_map. eapply Forall_impl; [|exact H]. intros l Hl. apply print_cl_good. exact Hl.
Qed.

(* ================================================================== D. non-vacuity *)
(* A.B;C="x:y",z;D=w:<40 times 'x'>e-acute<40 times 'x'>   (group A, name B, parameters C and D) *)
Definition example_cl : cl :=
  mkCl (Some [65]) [66]
       [([67], [[120; 58; 121]; [122]]); ([68], [[119]])]
       (repeat 120 40 ++ 233 :: repeat 120 40).

Example wf_cl_example : exists l, wf_cl l /\ cl_params l <> [] /\ (75 < N.of_nat (List.length (print_cl l))).
Proof.
  exists example_cl. split; [|split].
  - unfold wf_cl, example_cl. cbn [cl_group cl_name cl_params cl_value].
    repeat split.
    + discriminate.
    + repeat constructor.
    + discriminate.
    + repeat constructor.
    + unfold wf_param, wf_pvalue, all_name_chars, no_brk. cbn [fst snd].
      repeat (constructor || split || discriminate).
    + repeat constructor.
    + cbn [repeat app]. unfold no_brk. repeat constructor.
  - discriminate.
  - vm_compute. reflexivity.
Qed.

Example example_roundtrip : parse_lines (print_lines [example_cl]) = Some [example_cl].
Proof. vm_compute. reflexivity. Qed.

Example example_is_folded :
  List.length (print_lines [example_cl]) = (List.length (print_cl example_cl) + 5)%nat.
Proof. vm_compute. reflexivity. Qed.

Print Assumptions lines_roundtrip.
Print Assumptions wf_cl_example.
