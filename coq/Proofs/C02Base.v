(* C02, part 1: "watched" paths W (the client-visible paths, later also the inside of a staging
   directory); steps that do not touch W; the effect of _atomic_write on W under every fault and at
   every kill point: each watched path is as before, or as after -- never in between. *)
From Coq Require Import List NArith Bool Lia PeanoNat.
Import ListNotations.
Require Import RV.Lib.Prog RV.Model.Fs RV.Model.StorageOps RV.Proofs.ProgLemmas RV.Proofs.FsLemmas
  RV.Proofs.FsInv RV.Proofs.CacheCalm.
Open Scope N_scope.

Definition agree (W : path -> Prop) (s s' : fs) : Prop := forall q, W q -> look s q = look s' q.
Definition wquiet (W : path -> Prop) (st : step) : Prop := forall q, W q -> touch st q = false.

Lemma agree_refl : forall W s, agree W s s.
Proof. intros W s q _. reflexivity. Qed.
Lemma agree_trans : forall W a b c, agree W a b -> agree W b c -> agree W a c.
Proof. intros W a b c H1 H2 q Hq. rewrite (H1 q Hq). apply H2. exact Hq. Qed.
Lemma agree_step : forall W st s s', wquiet W st -> apply st s = inl s' -> agree W s' s.
Proof. intros W st s s' Hq Ha q Hw. eapply frame; eauto. Qed.
Lemma agree_data_abs : forall s s', agree (fun q => is_data q = true) s s' <-> abs_eq s s'.
Proof. intros. reflexivity. Qed.

Definition wasrt := assertion step fs.

(* introduction rules for machine_wp that do not unfold the continuation *)
Lemma mw_seq : forall (p q : P) Q E C s t, machine_wp p (machine_wp q Q E C) E C s t -> machine_wp (Seq p q) Q E C s t.
Proof. intros. exact H. Qed.
Lemma mw_read : forall pa (k : option node -> P) Q E C s t, machine_wp (k (look s pa)) Q E C s t -> machine_wp (Read pa k) Q E C s t.
Proof. intros. exact H. Qed.
Lemma mw_fresh : forall (k : N -> P) Q E C s t, (forall id, machine_wp (k id) Q E C s t) -> machine_wp (Fresh k) Q E C s t.
Proof. intros. exact H. Qed.
Lemma mw_try : forall st (kok : P) kerr (Q : wasrt) E (C : wasrt) s t, C s t ->
  (forall e, machine_wp (kerr e) Q E C s (t ++ [(st, false)])) ->
  (forall s', apply st s = inl s' -> machine_wp kok Q E C s' (t ++ [(st, true)])) -> machine_wp (Try st kok kerr) Q E C s t.
Proof. intros. split; [assumption | split; assumption]. Qed.
Lemma mw_do : forall st (Q : wasrt) (E : exn errno -> wasrt) (C : wasrt) s t, C s t ->
  (forall e, E (EOS e) s (t ++ [(st, false)])) ->
  (forall s', apply st s = inl s' -> Q s' (t ++ [(st, true)])) -> machine_wp (Do st) Q E C s t.
Proof. intros. split; [assumption | split; assumption]. Qed.
Lemma mw_catch : forall (p : P) h Q E C s t, machine_wp p Q (fun e => machine_wp (h e) Q E C) C s t -> machine_wp (Catch p h) Q E C s t.
Proof. intros. exact H. Qed.
Lemma mw_ret : forall (Q : wasrt) E C s t, Q s t -> machine_wp Ret Q E C s t.
Proof. intros. exact H. Qed.
Lemma mw_raise : forall e Q (E : exn errno -> wasrt) C s t, E e s t -> machine_wp (Raise e) Q E C s t.
Proof. intros. exact H. Qed.
Lemma mw_mono : forall (p : P) (Q Q' : wasrt) (E E' : exn errno -> wasrt) (C C' : wasrt) s t,
  (forall s t, Q s t -> Q' s t) -> (forall e s t, E e s t -> E' e s t) -> (forall s t, C s t -> C' s t) ->
  machine_wp p Q E C s t -> machine_wp p Q' E' C' s t.
Proof. intros p Q Q' E E' C C' s t H1 H2 H3. unfold machine_wp. apply wp_mono; assumption. Qed.
Global Opaque machine_wp.

Section AW.
  Local Transparent machine_wp.
  Variable W : path -> Prop.
  Variables (d : path) (x : name) (v : N).
  Variable s0 : fs.
  (* no watched path lies inside a temp directory of d *)
  Hypothesis W_tmp : forall q k, W q -> prefix (d ++ [Tmp k]) q = false.
  Hypothesis d_ne : d <> [].

  Let b := d ++ [x].
  Definition aw_after (s' : fs) : Prop :=
    forall q, W q -> look s' q = if path_eqb q b then Some (F v) else if prefix b q then None else look s0 q.
  Definition aw_before (s' : fs) : Prop := agree W s' s0.

  Definition BA : wasrt := fun s _ => fs_inv_weak s /\ (aw_before s \/ aw_after s).
  Definition A_ : wasrt := fun s _ => fs_inv_weak s /\ aw_after s.

  Lemma wq_tmp : forall k st, (forall q, touch st q = true -> prefix (d ++ [Tmp k]) q = true) -> wquiet W st.
  Proof.
    intros k st H q Hw. destruct (touch st q) eqn:E; [|reflexivity]. pose proof (H q E) as H1. rewrite (W_tmp q k Hw) in H1. discriminate.
  Qed.

  Lemma BA_step : forall st s s' t t', wquiet W st -> BA s t -> apply st s = inl s' -> BA s' t'.
  Proof.
    intros st s s' t t' Hq [Hi Hba] Ha. split; [eapply apply_inv; eauto|].
    pose proof (agree_step W st s s' Hq Ha) as Hag.
    destruct Hba as [Hb|Haf]; [left; eapply agree_trans; eauto | right].
    intros q Hw. rewrite (Hag q Hw). apply Haf. exact Hw.
  Qed.
  Lemma A_step : forall st s s' t t', wquiet W st -> A_ s t -> apply st s = inl s' -> A_ s' t'.
  Proof.
    intros st s s' t t' Hq [Hi Haf] Ha. split; [eapply apply_inv; eauto|].
    pose proof (agree_step W st s s' Hq Ha) as Hag. intros q Hw. rewrite (Hag q Hw). apply Haf. exact Hw.
  Qed.

  Lemma wq_fsync : forall q, wquiet W (FsyncD q) /\ wquiet W (FsyncF q).
  Proof. intro q. split; intros q' _; reflexivity. Qed.

  (* one quiet step, then any continuation that keeps BA *)
  Lemma BA_do : forall st s t, wquiet W st -> BA s t -> machine_wp (Do st) BA (fun _ => BA) BA s t.
  Proof.
    intros st s t Hq H. unfold machine_wp, Do. cbn [wp]. split; [exact H|]. split.
    - intro e. destruct H as [Hi Hb]. split; assumption.
    - intros s' Ha. eapply BA_step; eauto.
  Qed.

  Lemma aw_c02 : forall s t, fs_inv_weak s -> agree W s s0 ->
    machine_wp (AW d x v) A_ (fun _ => BA) BA s t.
  Proof.
    intros s t Hinv Hag. unfold AW, with_tmp, machine_wp. cbn [wp]. intro k.
    set (t0 := d ++ [Tmp k]). set (a := t0 ++ [x]).
    assert (HBA0 : BA s t) by (split; [exact Hinv | left; exact Hag]).
    assert (Hqt0 : forall st, (forall q, touch st q = true -> prefix t0 q = true) -> wquiet W st) by (intros st H; apply (wq_tmp k); exact H).
    assert (Hq_mk : wquiet W (Mkdir t0)).
    { apply Hqt0. cbn. intros q E. apply path_eqb_eq in E. rewrite E. apply prefix_refl. }
    assert (Hq_rm : wquiet W (Rmtree t0)) by (apply Hqt0; cbn; auto).
    assert (Hq_cr : wquiet W (Create a)).
    { apply Hqt0. cbn. intros q E. apply path_eqb_eq in E. rewrite E. unfold a. apply prefix_app. }
    assert (Hq_wr : wquiet W (Write a v)).
    { apply Hqt0. cbn. intros q E. apply path_eqb_eq in E. rewrite E. unfold a. apply prefix_app. }
    (* clean-up after an exception: rmtree of the temp directory, re-raise *)
    assert (Hclean : forall e s1 t1, BA s1 t1 -> wp step errno path (option node) fs apply look ls
              (Seq (Do (Rmtree t0)) (Raise e)) (wp step errno path (option node) fs apply look ls (Do (Rmtree t0))
                 (wp step errno path (option node) fs apply look ls (fsyncD d) A_ (fun _ => BA) BA) (fun _ => BA) BA) (fun _ => BA) BA s1 t1).
    { intros e s1 t1 H1. cbn [wp Do]. split; [exact H1|]. split.
      - intro e'. destruct H1; split; assumption.
      - intros s' Ha. eapply BA_step; [exact Hq_rm | exact H1 | exact Ha]. }
    (* Mkdir t0 *)
    split; [exact HBA0|]. split; [intro e; exact HBA0|]. intros s1 Ha1.
    assert (H1 : BA s1 (t ++ [(Mkdir t0, true)])) by (eapply BA_step; [exact Hq_mk | exact HBA0 | exact Ha1]).
    assert (Hag1 : agree W s1 s0) by (eapply agree_trans; [eapply agree_step; [exact Hq_mk | exact Ha1] | exact Hag]).
    assert (Hinv1 : fs_inv_weak s1) by (eapply apply_inv; eauto).
    generalize dependent (t ++ [(Mkdir t0, true)]). intros t1 H1.
    cbn [seqs]. cbn [wp].
    (* Create a *)
    split; [exact H1|]. split; [intro e; apply Hclean; exact H1|]. intros s2 Ha2.
    assert (Hag2 : agree W s2 s0) by (eapply agree_trans; [eapply agree_step; [exact Hq_cr | exact Ha2] | exact Hag1]).
    assert (Hinv2 : fs_inv_weak s2) by (eapply apply_inv; eauto).
    assert (H2 : forall t', BA s2 t') by (intro; split; [exact Hinv2 | left; exact Hag2]).
    (* Write a v *)
    split; [apply H2|]. split; [intro e; apply Hclean; apply H2|]. intros s3 Ha3.
    assert (Hag3 : agree W s3 s0) by (eapply agree_trans; [eapply agree_step; [exact Hq_wr | exact Ha3] | exact Hag2]).
    assert (Hinv3 : fs_inv_weak s3) by (eapply apply_inv; eauto).
    assert (Hla : look s3 a = Some (F v)).
    { cbn [apply] in Ha3. destruct (is_file s2 a); [|discriminate]. injection Ha3 as <-. cbn. rewrite path_eqb_refl. reflexivity. }
    assert (H3 : forall t', BA s3 t') by (intro; split; [exact Hinv3 | left; exact Hag3]).
    (* FsyncF a *)
    unfold fsyncF. cbn [wp]. split; [apply H3|]. split; [intro e; apply (Hclean ERun); apply H3|]. intros s4 Ha4.
    assert (s4 = s3) by (cbn [apply] in Ha4; destruct (is_file s3 a); [injection Ha4 as <-; reflexivity | discriminate]). subst s4.
    (* Rename a b *)
    split; [apply H3|]. split; [intro e; apply (Hclean (EOS e)); apply H3|]. intros s5 Ha5.
    assert (Hinv5 : fs_inv_weak s5) by (eapply apply_inv; eauto).
    assert (Haf5 : aw_after s5).
    { intros q Hw. pose proof (W_tmp q k Hw) as Hnt. fold t0 in Hnt.
      assert (Hna : prefix a q = false).
      { destruct (prefix a q) eqn:E; [|reflexivity]. rewrite (prefix_trans t0 a q) in Hnt; [discriminate | unfold a; apply prefix_app | exact E]. }
      assert (Hlook : look s5 q = if prefix b q then look s3 (a ++ strip b q) else if prefix a q then None else look s3 q).
      { cbn [apply] in Ha5. rewrite Hla in Ha5. inv_apply Ha5; subst s5; reflexivity. }
      rewrite Hlook, Hna. destruct (path_eqb q b) eqn:Eqb.
      - apply path_eqb_eq in Eqb. subst q. rewrite prefix_refl. unfold strip. rewrite skipn_all. rewrite app_nil_r. exact Hla.
      - destruct (prefix b q) eqn:Epb; [|apply Hag3; exact Hw].
        apply prefix_strip in Epb. destruct (strip b q) as [|y r] eqn:Es.
        + rewrite app_nil_r in Epb. subst q. rewrite path_eqb_refl in Eqb. discriminate.
        + apply (closed_below s3 a); [apply Hinv3 | rewrite Hla; discriminate | discriminate]. }
    assert (H5 : forall t', A_ s5 t') by (intro; split; assumption).
    (* Rmtree t0, fsyncD d *)
    cbn [Do wp]. split; [split; [exact Hinv5 | right; exact Haf5]|]. split.
    { intro e. split; [exact Hinv5 | right; exact Haf5]. }
    intros s6 Ha6. assert (H6 : forall t', A_ s6 t') by (intro t'; eapply A_step; [exact Hq_rm | apply (H5 t') | exact Ha6]).
    unfold fsyncD. cbn [wp]. destruct (H6 []) as [Hi6 Haf6]. split; [split; [exact Hi6 | right; exact Haf6]|]. split.
    { intro e. split; [exact Hi6 | right; exact Haf6]. }
    intros s7 Ha7. assert (s7 = s6) by (cbn [apply] in Ha7; destruct (is_dir s6 d); [injection Ha7 as <-; reflexivity | discriminate]). subst s7.
    split; assumption.
  Qed.
End AW.
