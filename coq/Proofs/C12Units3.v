(* C12, part 4: move and create_collection (staging directory, n items, Rename or Exchange). *)
From Coq Require Import List NArith Bool Lia PeanoNat.
Import ListNotations.
Require Import RV.Lib.Prog RV.Model.Fs RV.Model.StorageOps RV.Proofs.ProgLemmas RV.Proofs.FsLemmas
  RV.Proofs.FsInv RV.Proofs.MonLemmas RV.Proofs.CacheCalm RV.Proofs.C12Mon RV.Proofs.C12Units RV.Proofs.C12Units2.
Open Scope N_scope.

(* fsync of directory q settles the listed entries of q, the others stay pending *)
Lemma J12_fsyncD_part : forall cs q (X X' : list dent) s t,
  (forall e, In e X -> (exists p, e = DE p /\ parent p = q) \/ In e X') ->
  IG (GX X) (mon_of t) /\ (forall c, In c cs -> look s c = Some D) ->
  WP (fsyncD q) (fun s' t' => IG (GX X') (mon_of t') /\ (forall c, In c cs -> look s' c = Some D)) s t.
Proof.
  intros cs q X X' s t HX [Hm Hd]. apply WP_fsyncD_s. split; [|exact Hd].
  rewrite mon_of_ok. cbn [dstep]. eapply IG_weaken; [|apply IG_drop; exact Hm]. cbn.
  intros e [[Hn|Hin] Hf]; [left; exact Hn|]. destruct (HX e Hin) as [[p [-> Hp]]|Hi]; [|right; exact Hi].
  rewrite Hp, path_eqb_refl in Hf. discriminate.
Qed.

(* Exchange a b: both subtrees are re-keyed; nothing data may sit below either name afterwards *)
Lemma IG_exchange : forall (G G' : dent -> Prop) a b m, IG G m ->
  let sw := fun q => if prefix a q then b ++ strip a q else if prefix b q then a ++ strip b q else q in
  (forall d, G d -> d <> DE a -> d <> DE b ->
     G' (dmap sw d) /\ (under a (dmap sw d) = true \/ under b (dmap sw d) = true -> is_data (dpath (dmap sw d)) = false)) ->
  G' (DE a) -> G' (DE b) -> IG G' (dstep (Exchange a b) m).
Proof.
  intros G G' a b m [Hb Hd] sw Hre Ga Gb. cbn [dstep]. fold sw.
  assert (Hsurv : forall e, In e (map (dmap sw) (filter (fun d => negb (dent_eqb (DE a) d || dent_eqb (DE b) d)) (m_dirty m))) ->
                            exists d, e = dmap sw d /\ G d /\ d <> DE a /\ d <> DE b).
  { intros e He. apply in_map_iff in He. destruct He as [d [<- Hin]]. apply filter_In in Hin. destruct Hin as [Hin Hf].
    apply negb_true_iff in Hf. apply orb_false_iff in Hf. destruct Hf as [H1 H2].
    exists d. repeat split; auto; intros ->; cbn in *; rewrite path_eqb_refl in *; discriminate. }
  split.
  - cbn. rewrite Hb. cbn. rewrite <- not_true_iff_false. intro Hex. apply orb_true_iff in Hex.
    unfold exposes in Hex. cbn [m_dirty drop] in Hex.
    destruct Hex as [Hex|Hex]; apply existsb_exists in Hex; destruct Hex as [e [He Hc]];
      apply Hsurv in He; destruct He as [d [-> [Hg [Hna Hnb]]]]; apply andb_true_iff in Hc; destruct Hc as [Hc1 Hc2];
      destruct (Hre d Hg Hna Hnb) as [_ H2]; rewrite H2 in Hc2; auto; discriminate.
  - cbn. intros e [<-|[<-|He]]; auto. apply Hsurv in He. destruct He as [d [-> [Hg [Hna Hnb]]]]. apply (Hre d Hg Hna Hnb).
Qed.

Section Move.
  Variable lay : layout.
  Variables (c c' : path) (h h' : name) (v : N) (exp exp' : list name).
  Hypothesis Hc : coll_path c = true.
  Hypothesis Hc' : coll_path c' = true.
  Hypothesis Hh : is_safe h = true.
  Hypothesis Hh' : is_safe h' = true.
  (* an item is not an ancestor of a collection *)
  Hypothesis Hsep1 : prefix (c ++ [h]) c' = false.
  Hypothesis Hsep2 : prefix (c' ++ [h']) c = false.

  Lemma move_c12 : forall s t, J12 [c; c'] s t -> WP (move lay c h c' h' v exp exp') (J12 [c; c']) s t.
  Proof.
    intros s t H.
    assert (Hcd : forall c0, In c0 [c; c'] -> is_data c0 = true) by (intros c0 [<- | [<- | []]]; apply coll_is_data; assumption).
    assert (Hdir : forall s t, J12 [c; c'] s t -> look s c = Some D) by (intros s0 t0 [_ Hd]; apply Hd; left; reflexivity).
    assert (Hdir' : forall s t, J12 [c; c'] s t -> look s c' = Some D) by (intros s0 t0 [_ Hd]; apply Hd; right; left; reflexivity).
    pose proof (J12_ok [c; c'] Hcd) as Jok. pose proof (J12_fail [c; c']) as Jf.
    pose proof (coll_ne c Hc) as Hne. pose proof (coll_ne c' Hc') as Hne'.
    pose proof (coll_is_data c Hc) as Hdat. pose proof (coll_is_data c' Hc') as Hdat'.
    set (a := c ++ [h]). set (b := c' ++ [h']).
    unfold move. fold a b. cbn [seqs].
    (* the rename *)
    eapply WP_seq.
    { apply WP_catch_raise; [intro e; eexists; reflexivity|].
      apply (J12_data_step [c; c'] (Rename a b) [DE a; DE b]); [ | | exact H].
      - intros m Hm. eapply IG_rename; [exact Hm | | right; left; reflexivity | right; right; left; reflexivity].
        intros d Hg Hu Hne0. destruct Hg as [Hg|[]].
        assert (Hnew : is_data (dpath (dmap (rekey a b) d)) = false).
        { rewrite dpath_dmap. unfold rekey. destruct (prefix a (dpath d)) eqn:E; [|exact Hg].
          apply prefix_strip in E. rewrite E in Hg.
          destruct (strip a (dpath d)) as [|y r] eqn:Es.
          - rewrite app_nil_r in Hg. unfold a in Hg. rewrite (coll_item_data c h Hc Hh) in Hg. discriminate.
          - unfold a in Hg. rewrite coll_ext in Hg; [|apply coll_snoc; assumption | discriminate].
            unfold b. rewrite coll_ext; [exact Hg | apply coll_snoc; assumption | discriminate]. }
        split; [left; exact Hnew | intros _; exact Hnew].
      - intros c0 [<- | [<- | []]]; cbn [touch]; apply orb_false_iff; split.
        + unfold a. apply prefix_snoc_self_false.
        + exact Hsep2.
        + exact Hsep1.
        + unfold b. apply prefix_snoc_self_false. }
    intros s1 t1 H1.
    (* the cache / history tail *)
    assert (Htail : forall (b0 : bool) s t, J12 [c; c'] s t ->
      WP (seqs [MD (cache_dir lay CItem c');
              Try (Rename (cache_dir lay CItem c ++ [h]) (cache_dir lay CItem c' ++ [h']))
                  (Seq (MD (cache_dir lay CItem c')) (if path_eqb (cache_dir lay CItem c) (cache_dir lay CItem c') then Ret else MD (cache_dir lay CItem c)))
                  (fun _ => Ret);
              update_history lay c' h' (Some v); update_history lay c h None; clean_history lay c' exp';
              (if b0 then Ret else clean_history lay c exp)]) (J12 [c; c']) s t).
    { intros b0 s0 t0 H0. apply calm_WP; [|exact H0]. apply calm_seqs. forall_split.
      - apply (calm_MD_cache _ Jok Jf c' Hdir' Hne' Hdat').
      - apply (calm_try _ Jok Jf).
        + cbn [nondata_step]. rewrite !nd_cache. reflexivity.
        + apply calm_seq; [apply (calm_MD_cache _ Jok Jf c' Hdir' Hne' Hdat')|].
          destruct (path_eqb (cache_dir lay CItem c) (cache_dir lay CItem c')); [apply calm_ret | apply (calm_MD_cache _ Jok Jf c Hdir Hne Hdat)].
        + intro e. apply calm_ret.
      - apply (calm_update_history _ Jok Jf c' Hdir' Hne' Hdat').
      - apply (calm_update_history _ Jok Jf c Hdir Hne Hdat).
      - apply (calm_clean_history _ Jok Jf c').
      - destruct b0; [apply calm_ret | apply (calm_clean_history _ Jok Jf c)]. }
    (* fsync of the target directory, then of the source directory when it is another one *)
    destruct (path_eqb c c') eqn:Ecc.
    - apply path_eqb_eq in Ecc. eapply WP_seq.
      { apply (J12_fsyncD [c; c'] c' [DE a; DE b]); [|exact H1].
        intros e [<- | [<- | []]]; eexists; (split; [reflexivity|]); unfold a, b; rewrite parent_snoc; auto. }
      intros s2 t2 H2. eapply WP_seq; [apply WP_ret; exact H2|]. intros s3 t3 H3. exact (Htail true _ _ H3).
    - eapply WP_seq.
      { apply (J12_fsyncD_part [c; c'] c' [DE a; DE b] [DE a]); [|exact H1].
        intros e [<- | [<- | []]]; [right; left; reflexivity | left; eexists; split; [reflexivity | unfold b; apply parent_snoc]]. }
      intros s2 t2 H2. eapply WP_seq.
      { apply (J12_fsyncD [c; c'] c [DE a]); [|exact H2].
        intros e Hi. apply in1 in Hi. subst e. eexists. split; [reflexivity | unfold a; apply parent_snoc]. }
      intros s3 t3 H3. exact (Htail false _ _ H3).
  Qed.
End Move.
