(* C05, tie T: the regenerated translation of the login-name mapping of BaseAuth.login equals the
   canonical model Model.LoginMap.map_login, for every str.lower / str.upper.
   (The second tie-T lemma, Gen_gate_skeleton_eq, lives in Proofs/C05GenEqGate.v.) *)
From Coq Require Import List NArith Bool String.
Import ListNotations.
Require Import RV.Lib.PyStr RV.Model.C05Text RV.Model.LoginMap.
Require RV.Gen.LoginMapC05Gen.
Open Scope N_scope.

Lemma Gen_map_login_eq : forall py_lower py_upper lc uc sd login,
  LoginMapC05Gen.map_login py_lower py_upper lc uc sd login = map_login py_lower py_upper lc uc sd login.
Proof. intros py_lower py_upper [|] [|] [|] login; reflexivity. Qed.

