(* C14 -- the documented clean-ups of Model/Vobj.v: each one is idempotent, changes only the documented case,
   and the whole `sanitize` pass is idempotent and the identity on objects where no documented case applies.

   CHANGED STATEMENTS (with respect to the brief):

   * fix_dates_idem and sanitize_idem are FALSE without a side condition on the DTSTART line.
     Corner case: a DTSTART that carries an explicit VALUE parameter of type DATE-TIME (VALUE=DATE-TIME, or a
     VALUE parameter with no value) but whose value is a date only, e.g. `DTSTART;VALUE=DATE-TIME:20200102`.
     `dtstart_type` (parseDtstart with allowSignatureMismatch) then says TDate; an `EXDATE:20200103T000000`
     is converted to the date `20200103` but receives DTSTART's VALUE parameter (DATE-TIME).  The second pass
     sees an EXDATE declared DATE-TIME whose value `20200103` is not a date-time and refuses the object
     (`fix_dates` = None).  This is proved below as
         Example fix_dates_idem_refuted_without_condition   and   Example sanitize_idem_refuted_without_condition.
     The side condition is `dtstart_line_consistent ref` on the first DTSTART line of the component:
         "DTSTART has no VALUE parameter, or it is not the case that its VALUE parameter says DATE-TIME while
          its value is a date only".
     It is the exact complement of the corner case on lines that `fix_dates` accepts (Lemma
     dtstart_line_consistent_of_agree shows that the simpler condition `value_param_type ref = dtstart_type ref`
     implies it; Lemma dtstart_line_inconsistent_breaks shows that every DTSTART line that violates it has a
     component on which the second pass fails: the condition is minimal as a condition on the DTSTART line).
     `comp_dtstart_consistent` lifts it to the children of a component, `dtstart_consistent` to a whole
     object (every main component directly under a VCALENDAR).  New statements:
         fix_dates_idem : forall ch ch', comp_dtstart_consistent ch = true ->
                            fix_dates ch = Some ch' -> fix_dates ch' = Some ch'.
         sanitize_idem  : forall x y, dtstart_consistent x = true -> sanitize x = Some y -> sanitize y = Some y.

   All the other statements are as in the brief.  (In fix_dates_only the hypothesis on DTSTART is not needed by
   the proof; it is kept because it is part of the requested statement.) *)
From Coq Require Import List NArith Bool Lia.
From Coq Require Import PeanoNat.   (* Nat.eqb_eq, Nat.min_l *)
Import ListNotations.
Require Import RV.Lib.PyStr RV.Proofs.PyStrLemmas RV.Model.ContentLine RV.Model.Vobj RV.Model.C14Spec.
Open Scope N_scope.

(* string literals, without importing Coq's String module at top level (it would shadow length, concat...) *)
Module CleanupNames.
  Import Coq.Strings.String.
  Definition s_VCALENDAR : pystr := str "VCALENDAR".
  Definition s_VEVENT : pystr := str "VEVENT".
  Definition v_20200102 : pystr := str "20200102".
  Definition v_20200102T : pystr := str "20200102T000000".
  Definition v_20200103T : pystr := str "20200103T000000".
  Definition v_20200103 : pystr := str "20200103".
  Definition v_PT0S : pystr := str "PT0S".
End CleanupNames.
Import CleanupNames.

(* ================================================================== 1. control characters *)
Lemma strip_ctrl_idem : forall s, strip_ctrl (strip_ctrl s) = strip_ctrl s.
Proof.
  intros s. unfold strip_ctrl. induction s as [|c s IH]; [reflexivity|].
  cbn [filter]. destruct (negb (is_ctrl c)) eqn:E.
  - cbn [filter]. rewrite E, IH. reflexivity.
  - exact IH.
Qed.

Lemma strip_ctrl_none : forall s, Forall (fun c => is_ctrl c = false) s -> strip_ctrl s = s.
Proof.
  intros s H. unfold strip_ctrl. induction H as [|c s Hc Hs IH]; [reflexivity|].
  cbn [filter]. rewrite Hc. cbn [negb]. rewrite IH. reflexivity.
Qed.

Lemma strip_ctrl_clean : forall s, Forall (fun c => is_ctrl c = false) (strip_ctrl s).
Proof.
  intros s. unfold strip_ctrl. induction s as [|c s IH]; [constructor|].
  cbn [filter]. destruct (is_ctrl c) eqn:E; cbn [negb]; [exact IH | constructor; assumption].
Qed.

(* ================================================================== helpers on lines_named / drop_named *)
Lemma eqs_sym : forall a b, eqs a b = eqs b a.
Proof.
  intros a b. destruct (eqs a b) eqn:E1; destruct (eqs b a) eqn:E2; try reflexivity.
  - apply eqs_eq in E1. subst. rewrite eqs_refl in E2. discriminate.
  - apply eqs_eq in E2. subst. rewrite eqs_refl in E1. discriminate.
Qed.

Lemma lines_named_cons_L : forall n l r,
  lines_named n (L l :: r) = (if eqs (cl_name l) n then [l] else []) ++ lines_named n r.
Proof. reflexivity. Qed.
Lemma lines_named_cons_C : forall n m s r, lines_named n (C m s :: r) = lines_named n r.
Proof. reflexivity. Qed.
Lemma drop_named_cons_L : forall n l r,
  drop_named n (L l :: r) = if negb (eqs (cl_name l) n) then L l :: drop_named n r else drop_named n r.
Proof. reflexivity. Qed.
Lemma drop_named_cons_C : forall n m s r, drop_named n (C m s :: r) = C m s :: drop_named n r.
Proof. reflexivity. Qed.

Lemma In_lines_named : forall n ch l, In l (lines_named n ch) <-> In (L l) ch /\ eqs (cl_name l) n = true.
Proof.
  intros n ch l. unfold lines_named. rewrite in_flat_map. split.
  - intros [x [Hx Hl]]. destruct x as [l0|m s]; [|destruct Hl].
    destruct (eqs (cl_name l0) n) eqn:E; [|destruct Hl].
    destruct Hl as [Hl|[]]. subst l0. split; assumption.
  - intros [H1 H2]. exists (L l). split; [assumption|]. rewrite H2. left. reflexivity.
Qed.

Lemma lines_named_drop_same : forall n ch, lines_named n (drop_named n ch) = [].
Proof.
  intros n ch. induction ch as [|x r IH]; [reflexivity|].
  destruct x as [l|m s].
  - rewrite drop_named_cons_L. destruct (eqs (cl_name l) n) eqn:E; cbn [negb].
    + exact IH.
    + rewrite lines_named_cons_L, E. exact IH.
  - rewrite drop_named_cons_C, lines_named_cons_C. exact IH.
Qed.

Lemma lines_named_drop_other : forall n m ch, eqs n m = false -> lines_named n (drop_named m ch) = lines_named n ch.
Proof.
  intros n m ch Hnm. induction ch as [|x r IH]; [reflexivity|].
  destruct x as [l|k s].
  - rewrite drop_named_cons_L, lines_named_cons_L. destruct (eqs (cl_name l) m) eqn:E; cbn [negb].
    + apply eqs_eq in E. rewrite E. rewrite (eqs_sym m n), Hnm. cbn [app]. exact IH.
    + rewrite lines_named_cons_L, IH. reflexivity.
  - rewrite drop_named_cons_C, !lines_named_cons_C. exact IH.
Qed.

(* ================================================================== 3. zero DURATION *)
Lemma zero_duration_applies_drop : forall ch, zero_duration_applies (drop_named s_DURATION ch) = false.
Proof. intros ch. unfold zero_duration_applies. rewrite lines_named_drop_same. apply andb_false_r. Qed.

Lemma zero_duration_applies_fixed : forall ch, zero_duration_applies (fix_zero_duration ch) = false.
Proof.
  intros ch. unfold fix_zero_duration. destruct (zero_duration_applies ch) eqn:E.
  - apply zero_duration_applies_drop.
  - exact E.
Qed.

Lemma fix_zero_duration_only : forall ch, zero_duration_applies ch = false -> fix_zero_duration ch = ch.
Proof. intros ch H. unfold fix_zero_duration. rewrite H. reflexivity. Qed.

Lemma fix_zero_duration_idem : forall ch, fix_zero_duration (fix_zero_duration ch) = fix_zero_duration ch.
Proof. intros ch. apply fix_zero_duration_only. apply zero_duration_applies_fixed. Qed.

Lemma fix_zero_duration_keeps_others : forall ch x, In x ch ->
  (forall l, x = L l -> eqs (cl_name l) s_DURATION = false) -> In x (fix_zero_duration ch).
Proof.
  intros ch x Hin Hx. unfold fix_zero_duration. destruct (zero_duration_applies ch); [|exact Hin].
  unfold drop_named. apply filter_In. split; [exact Hin|].
  destruct x as [l|m s]; [|reflexivity]. rewrite (Hx l eq_refl). reflexivity.
Qed.

Lemma fix_zero_duration_sub : forall ch x, In x (fix_zero_duration ch) -> In x ch.
Proof.
  intros ch x H. unfold fix_zero_duration in H. destruct (zero_duration_applies ch); [|exact H].
  unfold drop_named in H. apply filter_In in H. destruct H as [H _]. exact H.
Qed.

(* ================================================================== 4. EXDATE / RDATE *)
(* --- the parameter dictionary *)
Definition lookup (k : pystr) (ps : list (pystr * list pystr)) : option (list pystr) :=
  match find (fun kv => eqs (fst kv) k) ps with Some kv => Some (snd kv) | None => None end.
Definition vpt_of (o : option (list pystr)) : vtype :=
  match o with
  | Some (v :: _) => if eqs (upper_ascii v) s_DATE then TDate else if eqs (upper_ascii v) s_DATETIME then TDateTime else TOther
  | _ => TDateTime
  end.

Lemma param_lookup : forall k l, param k l = lookup k (cl_params l).
Proof. reflexivity. Qed.
(* the declared value type depends on the VALUE parameter only *)
Lemma vpt_lookup : forall l, value_param_type l = vpt_of (lookup s_VALUE (cl_params l)).
Proof. reflexivity. Qed.

Lemma lookup_set_same : forall k v ps, lookup k (set_param k v ps) = Some v.
Proof.
  intros k v ps. unfold lookup. induction ps as [|[k' v'] t IH]; cbn [set_param].
  - cbn [find fst snd]. rewrite eqs_refl. reflexivity.
  - destruct (eqs k k') eqn:E.
    + cbn [find fst snd]. rewrite eqs_sym, E. reflexivity.
    + cbn [find fst snd]. rewrite eqs_sym, E. exact IH.
Qed.

Lemma lookup_set_other : forall k k' v ps, eqs k k' = false -> lookup k (set_param k' v ps) = lookup k ps.
Proof.
  intros k k' v ps Hk. unfold lookup. induction ps as [|[k2 v2] t IH]; cbn [set_param].
  - cbn [find fst snd]. rewrite eqs_sym, Hk. reflexivity.
  - destruct (eqs k' k2) eqn:E.
    + apply eqs_eq in E. subst k2. cbn [find fst snd]. rewrite (eqs_sym k' k), Hk. reflexivity.
    + cbn [find fst snd]. destruct (eqs k2 k); [reflexivity|exact IH].
Qed.

Lemma lookup_del_same : forall k ps, lookup k (del_param k ps) = None.
Proof.
  intros k ps. unfold lookup, del_param. induction ps as [|[k' v'] t IH]; [reflexivity|].
  cbn [filter fst]. destruct (eqs k' k) eqn:E; cbn [negb].
  - exact IH.
  - cbn [find fst]. rewrite E. exact IH.
Qed.

Lemma vtype_eqb_refl : forall t, vtype_eqb t t = true.
Proof. destruct t; reflexivity. Qed.

(* --- fix_dates_line, with the two conversions named *)
Definition conv_params (ref : cl) (rt : vtype) (ps : list (pystr * list pystr)) :=
  let ps0 := del_param s_VALUE ps in
  let ps1 := match param s_VALUE ref with
             | Some rv => set_param s_VALUE rv ps0
             | None => match rt with TDate => set_param s_VALUE [s_DATE] ps0 | _ => ps0 end
             end in
  match rt, param s_TZID ref with
  | TDateTime, Some tz => set_param s_TZID tz ps1
  | _, _ => ps1
  end.
Definition conv_vals (ref : cl) (rt : vtype) (vals : list pystr) : list pystr :=
  map (fun v => firstn 8 v ++ match rt with TDateTime => skipn 8 (cl_value ref) | _ => [] end) vals.

Lemma fix_dates_line_unfold : forall ref rt l, fix_dates_line ref rt l =
  if nonempty (cl_value l) then
    if negb (forallb (multidate_ok (value_param_type l)) (split_on COMMA (cl_value l))) then None
    else if vtype_eqb (value_param_type l) rt then Some l
    else Some (mkCl (cl_group l) (cl_name l) (conv_params ref rt (cl_params l))
                    (join [COMMA] (conv_vals ref rt (split_on COMMA (cl_value l)))))
  else Some l.
Proof. reflexivity. Qed.

Lemma fix_dates_line_name : forall ref rt l l', fix_dates_line ref rt l = Some l' -> cl_name l' = cl_name l.
Proof.
  intros ref rt l l' H. rewrite fix_dates_line_unfold in H.
  destruct (nonempty (cl_value l)); [|inversion H; reflexivity].
  destruct (negb _); [discriminate|].
  destruct (vtype_eqb _ _); inversion H; reflexivity.
Qed.

(* a line that is already of the reference type (or empty) is returned as it is *)
Lemma fix_dates_line_same : forall ref rt l l', fix_dates_line ref rt l = Some l' ->
  negb (nonempty (cl_value l)) || vtype_eqb (value_param_type l) rt = true -> l' = l.
Proof.
  intros ref rt l l' H Hc. rewrite fix_dates_line_unfold in H.
  destruct (nonempty (cl_value l)); [|inversion H; reflexivity].
  destruct (negb (forallb _ _)); [discriminate|].
  cbn [negb orb] in Hc. rewrite Hc in H. inversion H. reflexivity.
Qed.

Lemma fix_dates_children_cons : forall ref rt x r, fix_dates_children ref rt (x :: r) =
  match fix_dates_children ref rt r with
  | None => None
  | Some r' =>
      match x with
      | L l => if eqs (cl_name l) s_EXDATE || eqs (cl_name l) s_RDATE
               then match fix_dates_line ref rt l with Some l' => Some (L l' :: r') | None => None end
               else Some (x :: r')
      | C _ _ => Some (x :: r')
      end
  end.
Proof. reflexivity. Qed.

Lemma fix_dates_children_same : forall ref rt ch ch', fix_dates_children ref rt ch = Some ch' ->
  (forall l, In (L l) ch -> eqs (cl_name l) s_EXDATE || eqs (cl_name l) s_RDATE = true ->
             negb (nonempty (cl_value l)) || vtype_eqb (value_param_type l) rt = true) ->
  ch' = ch.
Proof.
  intros ref rt ch. induction ch as [|x r IH]; intros ch' H Hall.
  - cbn in H. inversion H. reflexivity.
  - rewrite fix_dates_children_cons in H.
    destruct (fix_dates_children ref rt r) as [r'|] eqn:Er; [|discriminate].
    assert (Hr : r' = r). { apply IH; [reflexivity|]. intros l Hl. apply Hall. right. exact Hl. }
    subst r'. destruct x as [l|m s]; [|inversion H; reflexivity].
    destruct (eqs (cl_name l) s_EXDATE || eqs (cl_name l) s_RDATE) eqn:En; [|inversion H; reflexivity].
    destruct (fix_dates_line ref rt l) as [l'|] eqn:El; [|discriminate].
    inversion H. f_equal. f_equal. apply (fix_dates_line_same ref rt l l' El).
    apply Hall; [left; reflexivity|exact En].
Qed.

Lemma fix_dates_same : forall ch ch', dates_clean ch = true -> fix_dates ch = Some ch' -> ch' = ch.
Proof.
  intros ch ch' Hc H. unfold fix_dates in H. unfold dates_clean in Hc.
  destruct (lines_named s_DTSTART ch) as [|ref rest]; [inversion H; reflexivity|].
  cbv zeta in Hc. rewrite forallb_forall in Hc.
  assert (Hall : forall l, In (L l) ch -> eqs (cl_name l) s_EXDATE || eqs (cl_name l) s_RDATE = true ->
                 negb (nonempty (cl_value l)) || vtype_eqb (value_param_type l) (dtstart_type ref) = true).
  { intros l Hl Hn. apply Hc. apply in_or_app. apply orb_true_iff in Hn. destruct Hn as [Hn|Hn].
    - left. apply In_lines_named. split; assumption.
    - right. apply In_lines_named. split; assumption. }
  destruct (dtstart_type ref) eqn:Et; [| |discriminate];
    apply (fix_dates_children_same ref _ ch ch' H Hall).
Qed.

Lemma fix_dates_only : forall ch, dates_clean ch = true ->
  (lines_named s_DTSTART ch = [] \/ exists ref r, lines_named s_DTSTART ch = ref :: r /\ dtstart_type ref <> TOther) ->
  fix_dates ch = Some ch \/ fix_dates ch = None.
Proof.
  intros ch Hc _. destruct (fix_dates ch) as [ch'|] eqn:E; [|right; reflexivity].
  left. rewrite (fix_dates_same ch ch' Hc E). reflexivity.
Qed.

(* --- idempotence *)
(* the corner case in which the second pass fails: an explicit VALUE parameter that says DATE-TIME (or has no
   value) on a DTSTART whose value is a date only *)
Definition dtstart_line_consistent (ref : cl) : bool :=
  match param s_VALUE ref with
  | None => true
  | Some _ => negb (vtype_eqb (value_param_type ref) TDateTime && vtype_eqb (dtstart_type ref) TDate)
  end.
Definition comp_dtstart_consistent (ch : list node) : bool :=
  match lines_named s_DTSTART ch with ref :: _ => dtstart_line_consistent ref | [] => true end.
Definition children_dtstart_consistent (ch : list node) : bool :=
  forallb (fun y => match y with
                    | C m sub => negb (is_main_component m) || comp_dtstart_consistent sub
                    | L _ => true
                    end) ch.
Definition dtstart_consistent (x : node) : bool :=
  match x with
  | C n ch => negb (eqs n s_VCALENDAR) || children_dtstart_consistent ch
  | L _ => true
  end.

(* the simple sufficient condition: DTSTART's VALUE parameter agrees with its value *)
Lemma dtstart_line_consistent_of_agree : forall ref,
  value_param_type ref = dtstart_type ref -> dtstart_line_consistent ref = true.
Proof.
  intros ref H. unfold dtstart_line_consistent. destruct (param s_VALUE ref); [|reflexivity].
  rewrite H. destruct (dtstart_type ref); reflexivity.
Qed.

Lemma conv_params_value : forall ref rt ps, lookup s_VALUE (conv_params ref rt ps) =
  match param s_VALUE ref with
  | Some rv => Some rv
  | None => match rt with TDate => Some [s_DATE] | _ => None end
  end.
Proof.
  intros ref rt ps. unfold conv_params. cbv zeta.
  assert (E : eqs s_VALUE s_TZID = false) by (vm_compute; reflexivity).
  destruct rt; destruct (param s_TZID ref); try rewrite (lookup_set_other _ _ _ _ E);
    destruct (param s_VALUE ref); first [apply lookup_set_same | apply lookup_del_same].
Qed.

Lemma conv_type : forall ref rt g n ps v,
  dtstart_type ref = rt -> rt <> TOther -> dtstart_line_consistent ref = true ->
  value_param_type (mkCl g n (conv_params ref rt ps) v) = rt.
Proof.
  intros ref rt g n ps v Hrt Hno Hc. rewrite vpt_lookup. cbn [cl_params]. rewrite conv_params_value.
  unfold dtstart_line_consistent in Hc. rewrite Hrt in Hc.
  pose proof Hrt as Hrt2. unfold dtstart_type in Hrt2.
  pose proof (vpt_lookup ref) as Hv. rewrite param_lookup in *.
  destruct (lookup s_VALUE (cl_params ref)) as [rv|] eqn:Ev.
  - rewrite <- Hv.
    destruct (value_param_type ref); destruct rt; try reflexivity; try congruence;
      try (cbn in Hc; discriminate Hc);
      destruct (is_datetime_str (cl_value ref)); destruct (is_date_str (cl_value ref)); discriminate Hrt2.
  - destruct rt; [vm_compute; reflexivity | reflexivity | congruence].
Qed.

Lemma firstn_app_exact : forall (A : Type) (a b : list A) n, List.length a = n -> firstn n (a ++ b) = a.
Proof.
  intros A a b n H. subst n. induction a as [|x a IH]; cbn; [reflexivity|]. rewrite IH. reflexivity.
Qed.
Lemma skipn_app_exact : forall (A : Type) (a b : list A) n, List.length a = n -> skipn n (a ++ b) = b.
Proof.
  intros A a b n H. subst n. induction a as [|x a IH]; cbn; [reflexivity|]. exact IH.
Qed.

Lemma dtstart_datetime_value : forall ref, dtstart_type ref = TDateTime -> is_datetime_str (cl_value ref) = true.
Proof.
  intros ref H. unfold dtstart_type in H.
  destruct (value_param_type ref); destruct (is_datetime_str (cl_value ref));
    destruct (is_date_str (cl_value ref)); try discriminate H; reflexivity.
Qed.

Lemma conv_val_ok : forall ref t rt v, dtstart_type ref = rt -> rt <> TOther -> vtype_eqb t rt = false ->
  multidate_ok t v = true ->
  multidate_ok rt (firstn 8 v ++ match rt with TDateTime => skipn 8 (cl_value ref) | _ => [] end) = true.
Proof.
  intros ref t rt v Hrt Hno Ht Hv.
  destruct t; destruct rt; cbn [multidate_ok vtype_eqb] in *; try discriminate; try congruence.
  - (* DATE -> DATE-TIME: date ++ time part of DTSTART *)
    pose proof (dtstart_datetime_value ref Hrt) as Href.
    unfold is_date_str in Hv. apply andb_true_iff in Hv as [Hlen Hd]. apply Nat.eqb_eq in Hlen.
    rewrite (firstn_all2 (n := 8) v) by lia.
    unfold is_datetime_str in *. apply andb_true_iff in Href as [_ Href].
    rewrite (firstn_app_exact _ v _ 8%nat Hlen), (skipn_app_exact _ v _ 8%nat Hlen).
    rewrite Hd. exact Href.
  - (* DATE-TIME -> DATE: the first 8 characters *)
    rewrite app_nil_r. unfold is_datetime_str in Hv. apply andb_true_iff in Hv as [Hd Hrest].
    unfold is_date_str. rewrite Hd, andb_true_r. apply Nat.eqb_eq.
    rewrite firstn_length. apply Nat.min_l.
    destruct (Nat.le_gt_cases 8 (List.length v)) as [Hle|Hgt]; [exact Hle|].
    rewrite (skipn_all2 (n := 8) v) in Hrest by lia. discriminate Hrest.
Qed.

Lemma conv_vals_ok : forall ref t rt vals, dtstart_type ref = rt -> rt <> TOther -> vtype_eqb t rt = false ->
  forallb (multidate_ok t) vals = true -> forallb (multidate_ok rt) (conv_vals ref rt vals) = true.
Proof.
  intros ref t rt vals Hrt Hno Ht. unfold conv_vals. induction vals as [|v r IH]; intros H; [reflexivity|].
  cbn [forallb map] in *. apply andb_true_iff in H as [H1 H2].
  rewrite (conv_val_ok ref t rt v Hrt Hno Ht H1), (IH H2). reflexivity.
Qed.

(* --- converted values contain no comma *)
Lemma digit_not_comma : forall c, is_digit c = true -> (c =? COMMA) = false.
Proof.
  intros c H. destruct (c =? COMMA) eqn:E; [|reflexivity].
  apply N.eqb_eq in E. subst c. vm_compute in H. discriminate H.
Qed.

Lemma digits_no_comma : forall s, forallb is_digit s = true -> contains_char COMMA s = false.
Proof.
  induction s as [|c s IH]; intros H; [reflexivity|].
  cbn [forallb] in H. apply andb_true_iff in H as [H1 H2].
  cbn [contains_char]. rewrite (digit_not_comma c H1), (IH H2). reflexivity.
Qed.

Lemma datetime_no_comma : forall v, is_datetime_str v = true -> contains_char COMMA v = false.
Proof.
  intros v H. unfold is_datetime_str in H. apply andb_true_iff in H as [H1 H2].
  rewrite <- (firstn_skipn 8 v), contains_char_app, (digits_no_comma _ H1). cbn [orb].
  revert H2. destruct (skipn 8 v) as [|t r]; intros H2; [discriminate H2|].
  apply andb_true_iff in H2 as [H2 H5]. apply andb_true_iff in H2 as [H2 H4]. apply andb_true_iff in H2 as [H2 H3].
  apply N.eqb_eq in H2. subst t. cbn [contains_char].
  rewrite <- (firstn_skipn 6 r), contains_char_app, (digits_no_comma _ H3). cbn [orb].
  revert H5. destruct (skipn 6 r) as [|z [|z2 r2]]; intros H5; [reflexivity| |discriminate H5].
  apply N.eqb_eq in H5. subst z. reflexivity.
Qed.

Lemma multidate_ok_no_comma : forall t v, multidate_ok t v = true -> contains_char COMMA v = false.
Proof.
  intros t v H. destruct t; cbn [multidate_ok] in H.
  - unfold is_date_str in H. apply andb_true_iff in H as [_ H]. apply digits_no_comma. exact H.
  - apply datetime_no_comma. exact H.
  - discriminate H.
Qed.

Lemma fix_dates_line_idem : forall ref rt l l',
  dtstart_type ref = rt -> rt <> TOther -> dtstart_line_consistent ref = true ->
  fix_dates_line ref rt l = Some l' -> fix_dates_line ref rt l' = Some l'.
Proof.
  intros ref rt l l' Hrt Hno Hc H.
  rewrite fix_dates_line_unfold in H.
  destruct (nonempty (cl_value l)) eqn:Hne.
  2:{ inversion H; subst l'. rewrite fix_dates_line_unfold, Hne. reflexivity. }
  destruct (forallb (multidate_ok (value_param_type l)) (split_on COMMA (cl_value l))) eqn:Hok;
    cbn [negb] in H; [|discriminate H].
  destruct (vtype_eqb (value_param_type l) rt) eqn:Ht.
  { inversion H; subst l'. rewrite fix_dates_line_unfold, Hne, Hok, Ht. reflexivity. }
  (* the converted line *)
  pose proof (conv_vals_ok ref _ rt _ Hrt Hno Ht Hok) as Hvals.
  set (vals' := conv_vals ref rt (split_on COMMA (cl_value l))) in *.
  assert (Hsplit : split_on COMMA (join [COMMA] vals') = vals').
  { apply split_on_join.
    - unfold vals', conv_vals. pose proof (split_on_nonnil COMMA (cl_value l)) as Hnn.
      destruct (split_on COMMA (cl_value l)); [contradiction|discriminate].
    - apply Forall_forall. intros w Hw. rewrite forallb_forall in Hvals.
      apply (multidate_ok_no_comma rt). apply Hvals. exact Hw. }
  inversion H as [Hl']. clear H.
  rewrite fix_dates_line_unfold. cbn [cl_value cl_params cl_group cl_name].
  destruct (nonempty (join [COMMA] vals')); [|reflexivity].
  rewrite (conv_type ref rt _ _ _ _ Hrt Hno Hc), Hsplit, Hvals. cbn [negb].
  rewrite vtype_eqb_refl. reflexivity.
Qed.

Lemma fix_dates_children_idem : forall ref rt ch ch',
  dtstart_type ref = rt -> rt <> TOther -> dtstart_line_consistent ref = true ->
  fix_dates_children ref rt ch = Some ch' -> fix_dates_children ref rt ch' = Some ch'.
Proof.
  intros ref rt ch ch' Hrt Hno Hc. revert ch'. induction ch as [|x r IH]; intros ch' H.
  - cbn in H. inversion H. reflexivity.
  - rewrite fix_dates_children_cons in H.
    destruct (fix_dates_children ref rt r) as [r'|] eqn:Er; [|discriminate H].
    pose proof (IH r' eq_refl) as IHr.
    destruct x as [l|m s].
    + destruct (eqs (cl_name l) s_EXDATE || eqs (cl_name l) s_RDATE) eqn:En.
      * destruct (fix_dates_line ref rt l) as [l'|] eqn:El; [|discriminate H].
        inversion H. rewrite fix_dates_children_cons, IHr.
        rewrite (fix_dates_line_name ref rt l l' El), En.
        rewrite (fix_dates_line_idem ref rt l l' Hrt Hno Hc El). reflexivity.
      * inversion H. rewrite fix_dates_children_cons, IHr, En. reflexivity.
    + inversion H. rewrite fix_dates_children_cons, IHr. reflexivity.
Qed.

(* lines whose name is neither EXDATE nor RDATE are not touched *)
Lemma lines_named_fix_dates_children : forall ref rt n ch ch',
  eqs n s_EXDATE = false -> eqs n s_RDATE = false ->
  fix_dates_children ref rt ch = Some ch' -> lines_named n ch' = lines_named n ch.
Proof.
  intros ref rt n ch ch' He Hr. revert ch'. induction ch as [|x r IH]; intros ch' H.
  - cbn in H. inversion H. reflexivity.
  - rewrite fix_dates_children_cons in H.
    destruct (fix_dates_children ref rt r) as [r'|] eqn:Er; [|discriminate H].
    pose proof (IH r' eq_refl) as IHr.
    destruct x as [l|m s].
    + destruct (eqs (cl_name l) s_EXDATE || eqs (cl_name l) s_RDATE) eqn:En.
      * destruct (fix_dates_line ref rt l) as [l'|] eqn:El; [|discriminate H].
        assert (Hln : eqs (cl_name l) n = false).
        { apply orb_true_iff in En. destruct En as [E|E]; apply eqs_eq in E; rewrite E, eqs_sym; assumption. }
        inversion H. rewrite !lines_named_cons_L, IHr, (fix_dates_line_name ref rt l l' El), Hln. reflexivity.
      * inversion H. rewrite !lines_named_cons_L, IHr. reflexivity.
    + inversion H. rewrite !lines_named_cons_C. exact IHr.
Qed.

Lemma lines_named_fix_dates : forall n ch ch', eqs n s_EXDATE = false -> eqs n s_RDATE = false ->
  fix_dates ch = Some ch' -> lines_named n ch' = lines_named n ch.
Proof.
  intros n ch ch' He Hr H. unfold fix_dates in H.
  destruct (lines_named s_DTSTART ch) as [|ref rest]; [inversion H; reflexivity|].
  destruct (dtstart_type ref); [| |discriminate H];
    apply (lines_named_fix_dates_children _ _ n ch ch' He Hr H).
Qed.

Lemma fix_dates_idem : forall ch ch', comp_dtstart_consistent ch = true ->
  fix_dates ch = Some ch' -> fix_dates ch' = Some ch'.
Proof.
  intros ch ch' Hc H.
  pose proof (lines_named_fix_dates s_DTSTART ch ch' eq_refl eq_refl H) as Hd.
  unfold fix_dates in *. unfold comp_dtstart_consistent in Hc. rewrite Hd.
  destruct (lines_named s_DTSTART ch) as [|ref rest]; [inversion H; reflexivity|].
  destruct (dtstart_type ref) eqn:Et; [| |discriminate H].
  - apply (fix_dates_children_idem ref TDate ch ch' Et); [discriminate|exact Hc|exact H].
  - apply (fix_dates_children_idem ref TDateTime ch ch' Et); [discriminate|exact Hc|exact H].
Qed.

(* the side condition cannot be dropped *)
Example fix_dates_idem_refuted_without_condition : exists ch ch',
  comp_dtstart_consistent ch = false /\ fix_dates ch = Some ch' /\ fix_dates ch' = None.
Proof.
  exists [L (mkCl None s_DTSTART [(s_VALUE, [s_DATETIME])] v_20200102); L (mkCl None s_EXDATE [] v_20200103T)].
  eexists. split; [vm_compute; reflexivity|]. split; [vm_compute; reflexivity|]. vm_compute. reflexivity.
Qed.

(* ... and it is minimal as a condition on the DTSTART line: every DTSTART line that violates it has a
   component which the first pass accepts and whose result the second pass refuses *)
Lemma fix_dates_children_two : forall ref rt l,
  eqs (cl_name ref) s_EXDATE || eqs (cl_name ref) s_RDATE = false -> eqs (cl_name l) s_EXDATE = true ->
  fix_dates_children ref rt [L ref; L l] =
  match fix_dates_line ref rt l with Some l' => Some [L ref; L l'] | None => None end.
Proof.
  intros ref rt l Hr Hl. cbn [fix_dates_children]. rewrite Hr, Hl. cbn [orb].
  destruct (fix_dates_line ref rt l); reflexivity.
Qed.

Lemma lines_named_two : forall n ref l, eqs (cl_name ref) n = true -> eqs (cl_name l) n = false ->
  lines_named n [L ref; L l] = [ref].
Proof. intros n ref l H1 H2. rewrite !lines_named_cons_L, H1, H2. reflexivity. Qed.

Lemma dtstart_line_inconsistent_breaks : forall ref,
  eqs (cl_name ref) s_DTSTART = true -> dtstart_line_consistent ref = false ->
  exists ch ch', lines_named s_DTSTART ch = [ref] /\ fix_dates ch = Some ch' /\ fix_dates ch' = None.
Proof.
  intros ref Hn Hc. unfold dtstart_line_consistent in Hc.
  destruct (param s_VALUE ref) as [rv|] eqn:Ep; [|discriminate Hc].
  apply negb_false_iff in Hc. apply andb_true_iff in Hc as [Hv Ht].
  assert (Hvt : value_param_type ref = TDateTime)
    by (destruct (value_param_type ref); try discriminate Hv; reflexivity).
  assert (Hdt : dtstart_type ref = TDate)
    by (destruct (dtstart_type ref); try discriminate Ht; reflexivity).
  assert (Hnd : eqs (cl_name ref) s_EXDATE || eqs (cl_name ref) s_RDATE = false).
  { apply eqs_eq in Hn. rewrite Hn. reflexivity. }
  assert (H1 : fix_dates_line ref TDate (mkCl None s_EXDATE [] v_20200103T)
               = Some (mkCl None s_EXDATE [(s_VALUE, rv)] v_20200103)).
  { rewrite fix_dates_line_unfold. unfold conv_params. rewrite Ep. reflexivity. }
  assert (Hvt' : value_param_type (mkCl None s_EXDATE [(s_VALUE, rv)] v_20200103) = TDateTime).
  { rewrite <- Hvt. rewrite (vpt_lookup ref). rewrite param_lookup in Ep. rewrite Ep. reflexivity. }
  assert (H2 : fix_dates_line ref TDate (mkCl None s_EXDATE [(s_VALUE, rv)] v_20200103) = None).
  { rewrite fix_dates_line_unfold, Hvt'. reflexivity. }
  set (ex := mkCl None s_EXDATE [] v_20200103T) in *.
  set (ex' := mkCl None s_EXDATE [(s_VALUE, rv)] v_20200103) in *.
  assert (L1 : lines_named s_DTSTART [L ref; L ex] = [ref]) by (apply lines_named_two; [exact Hn|reflexivity]).
  assert (L2 : lines_named s_DTSTART [L ref; L ex'] = [ref]) by (apply lines_named_two; [exact Hn|reflexivity]).
  exists [L ref; L ex], [L ref; L ex'].
  split; [exact L1|]. split.
  - unfold fix_dates. rewrite L1, Hdt.
    rewrite (fix_dates_children_two ref TDate ex Hnd eq_refl), H1. reflexivity.
  - unfold fix_dates. rewrite L2, Hdt.
    rewrite (fix_dates_children_two ref TDate ex' Hnd eq_refl), H2. reflexivity.
Qed.

(* ================================================================== whole objects *)
Lemma sanitize_children_cons : forall x r, sanitize_children (x :: r) =
  match sanitize_children r with
  | None => None
  | Some r' =>
      match x with
      | C n sub => if is_main_component n
                   then match fix_dates (fix_zero_duration sub) with
                        | Some sub' => Some (C n sub' :: r')
                        | None => None
                        end
                   else Some (x :: r')
      | L _ => Some (x :: r')
      end
  end.
Proof. reflexivity. Qed.

Lemma zero_duration_applies_fix_dates : forall a b, fix_dates a = Some b ->
  zero_duration_applies b = zero_duration_applies a.
Proof.
  intros a b H. unfold zero_duration_applies.
  rewrite (lines_named_fix_dates s_DTEND a b eq_refl eq_refl H).
  rewrite (lines_named_fix_dates s_DURATION a b eq_refl eq_refl H). reflexivity.
Qed.

Lemma comp_dtstart_consistent_fixed : forall ch,
  comp_dtstart_consistent (fix_zero_duration ch) = comp_dtstart_consistent ch.
Proof.
  intros ch. unfold comp_dtstart_consistent, fix_zero_duration.
  destruct (zero_duration_applies ch); [|reflexivity].
  rewrite (lines_named_drop_other s_DTSTART s_DURATION ch eq_refl). reflexivity.
Qed.

(* one main component: the two clean-ups applied to their own result change nothing *)
Lemma component_idem : forall sub sub', comp_dtstart_consistent sub = true ->
  fix_dates (fix_zero_duration sub) = Some sub' -> fix_dates (fix_zero_duration sub') = Some sub'.
Proof.
  intros sub sub' Hc H.
  assert (Hz : zero_duration_applies sub' = false).
  { rewrite (zero_duration_applies_fix_dates _ _ H). apply zero_duration_applies_fixed. }
  rewrite (fix_zero_duration_only sub' Hz).
  apply (fix_dates_idem (fix_zero_duration sub) sub'); [|exact H].
  rewrite comp_dtstart_consistent_fixed. exact Hc.
Qed.

Lemma sanitize_children_idem : forall ch ch', children_dtstart_consistent ch = true ->
  sanitize_children ch = Some ch' -> sanitize_children ch' = Some ch'.
Proof.
  induction ch as [|x r IH]; intros ch' Hc H.
  - cbn in H. inversion H. reflexivity.
  - unfold children_dtstart_consistent in Hc. cbn [forallb] in Hc. apply andb_true_iff in Hc as [Hx Hr].
    rewrite sanitize_children_cons in H.
    destruct (sanitize_children r) as [r'|] eqn:Er; [|discriminate H].
    pose proof (IH r' Hr eq_refl) as IHr.
    destruct x as [l|n sub].
    + inversion H. rewrite sanitize_children_cons, IHr. reflexivity.
    + destruct (is_main_component n) eqn:Em.
      * cbn [negb orb] in Hx.
        destruct (fix_dates (fix_zero_duration sub)) as [sub'|] eqn:Ef; [|discriminate H].
        inversion H. rewrite sanitize_children_cons, IHr, Em.
        rewrite (component_idem sub sub' Hx Ef). reflexivity.
      * inversion H. rewrite sanitize_children_cons, IHr, Em. reflexivity.
Qed.

Lemma sanitize_unfold : forall x, sanitize x =
  match x with
  | C n ch => if eqs n s_VCALENDAR
              then match sanitize_children ch with Some ch' => Some (C n ch') | None => None end
              else Some x
  | L _ => Some x
  end.
Proof. reflexivity. Qed.

Theorem sanitize_idem : forall x y, dtstart_consistent x = true -> sanitize x = Some y -> sanitize y = Some y.
Proof.
  intros x y Hc H. rewrite sanitize_unfold in H. destruct x as [l|n ch].
  - inversion H. reflexivity.
  - unfold dtstart_consistent in Hc. destruct (eqs n s_VCALENDAR) eqn:En.
    + cbn [negb orb] in Hc. destruct (sanitize_children ch) as [ch'|] eqn:Es; [|discriminate H].
      inversion H. rewrite sanitize_unfold, En, (sanitize_children_idem ch ch' Hc Es). reflexivity.
    + inversion H. rewrite sanitize_unfold, En. reflexivity.
Qed.

Lemma sanitize_children_same : forall ch ch',
  forallb (fun y => match y with
                    | C m sub => negb (is_main_component m) || (negb (zero_duration_applies sub) && dates_clean sub)
                    | L _ => true
                    end) ch = true ->
  sanitize_children ch = Some ch' -> ch' = ch.
Proof.
  induction ch as [|x r IH]; intros ch' Hc H.
  - cbn in H. inversion H. reflexivity.
  - cbn [forallb] in Hc. apply andb_true_iff in Hc as [Hx Hr].
    rewrite sanitize_children_cons in H.
    destruct (sanitize_children r) as [r'|] eqn:Er; [|discriminate H].
    pose proof (IH r' Hr eq_refl) as IHr. subst r'.
    destruct x as [l|n sub]; [inversion H; reflexivity|].
    destruct (is_main_component n) eqn:Em; [|inversion H; reflexivity].
    cbn [negb orb] in Hx. apply andb_true_iff in Hx as [Hz Hd]. apply negb_true_iff in Hz.
    rewrite (fix_zero_duration_only sub Hz) in H.
    destruct (fix_dates sub) as [sub'|] eqn:Ef; [|discriminate H].
    inversion H. rewrite (fix_dates_same sub sub' Hd Ef). reflexivity.
Qed.

Theorem sanitize_only_documented : forall x y, sanitize x = Some y -> nothing_to_clean x = true -> y = x.
Proof.
  intros x y H Hn. rewrite sanitize_unfold in H. destruct x as [l|n ch].
  - inversion H. reflexivity.
  - unfold nothing_to_clean in Hn. fold s_VCALENDAR in Hn. destruct (eqs n s_VCALENDAR) eqn:En.
    + cbn [negb orb] in Hn. destruct (sanitize_children ch) as [ch'|] eqn:Es; [|discriminate H].
      inversion H. rewrite (sanitize_children_same ch ch' Hn Es). reflexivity.
    + inversion H. reflexivity.
Qed.

(* ================================================================== non-vacuity *)
Example sanitize_changes_something : exists x y, sanitize x = Some y /\ y <> x.
Proof.
  exists (C s_VCALENDAR [C s_VEVENT [L (mkCl None s_DTSTART [] v_20200102T); L (mkCl None s_DTEND [] v_20200102T);
                                     L (mkCl None s_DURATION [] v_PT0S)]]).
  eexists. split; [vm_compute; reflexivity|]. intros E. discriminate E.
Qed.

Example sanitize_accepts_clean : exists x,
  nothing_to_clean x = true /\ sanitize x = Some x /\ x <> L (mkCl None [] [] []).
Proof.
  exists (C s_VCALENDAR [C s_VEVENT [L (mkCl None s_DTSTART [] v_20200102T); L (mkCl None s_EXDATE [] v_20200103T)]]).
  split; [vm_compute; reflexivity|]. split; [vm_compute; reflexivity|]. intros E. discriminate E.
Qed.

(* the side condition of sanitize_idem holds on ordinary objects and cannot be dropped *)
Example dtstart_consistent_nonvacuous : exists x y,
  dtstart_consistent x = true /\ sanitize x = Some y /\ y <> x /\ sanitize y = Some y.
Proof.
  (* DTSTART is a date, EXDATE a date-time: converted *)
  exists (C s_VCALENDAR [C s_VEVENT [L (mkCl None s_DTSTART [(s_VALUE, [s_DATE])] v_20200102);
                                     L (mkCl None s_EXDATE [] v_20200103T)]]).
  eexists. split; [vm_compute; reflexivity|]. split; [vm_compute; reflexivity|].
  split; [intros E; discriminate E|]. vm_compute. reflexivity.
Qed.

Example sanitize_idem_refuted_without_condition : exists x y,
  dtstart_consistent x = false /\ sanitize x = Some y /\ sanitize y = None.
Proof.
  exists (C s_VCALENDAR [C s_VEVENT [L (mkCl None s_DTSTART [(s_VALUE, [s_DATETIME])] v_20200102);
                                     L (mkCl None s_EXDATE [] v_20200103T)]]).
  eexists. split; [vm_compute; reflexivity|]. split; [vm_compute; reflexivity|]. vm_compute. reflexivity.
Qed.

Print Assumptions sanitize_idem.
Print Assumptions sanitize_only_documented.
Print Assumptions fix_dates_idem.
