(* C08 -- races of any number of conditional writers on one resource, over whole request histories
   (the dispatcher [handle], including the gate's home creation, not only the bare handlers).

   [stale s p o0]: the resource at p is not an item whose content (= ETag) is o0.
   Writers: PUT / DELETE of p carrying If-Match: <ETag of o0>;  creators: PUT of p carrying If-None-Match: *.
   A response is "changing" when it is a success that leaves p with an ETag other than o0's (a PUT storing other
   content, a whole-collection replacement, or a DELETE).  A success that stores o0 again changes nothing a client
   could lose, and is not counted. *)
From Coq Require Import List NArith Bool Lia.
Import ListNotations.
Require Import RV.Lib.PyStr RV.Lib.Item RV.Model.Store RV.Model.Access RV.Model.Handlers
               RV.Proofs.StoreLemmas RV.Proofs.HandlersInv RV.Proofs.HandlersStore.
Open Scope N_scope.

Definition stale (s : store) (p : path) (o0 : obj) : Prop := forall pc, resolve s p <> NItem pc o0.

Lemma stale_bool : forall s p o0,
  stale s p o0 <-> exists_node (resolve s p) && etag_eqb_current (resolve s p) (EtItem o0) = false.
Proof.
  intros s p o0. unfold stale. destruct (resolve s p) as [c|pc o|] eqn:E; cbn.
  - split; [reflexivity|intros _ pc; discriminate].
  - split.
    + intros H. apply not_true_iff_false. intros Ht. apply obj_eqb_eq in Ht. subst o. exact (H pc eq_refl).
    + intros H pc' Heq. inversion Heq; subst. assert (Ht : obj_eqb o0 o0 = true) by (apply obj_eqb_eq; reflexivity).
      congruence.
  - split; [reflexivity|intros _ pc; discriminate].
Qed.

Definition writer (p : path) (o0 : obj) (r : request) : Prop :=
  match r with
  | RPut q _ _ (CTag (EtItem o)) _ => q = p /\ o = o0
  | RDelete q (CTag (EtItem o)) => q = p /\ o = o0
  | _ => False
  end.

Definition creator (p : path) (r : request) : Prop :=
  match r with
  | RPut q _ _ _ true => q = p
  | _ => False
  end.

Definition changing (o0 : obj) (r : response) : bool :=
  negb (is_error (fst r))
  && match snd r with PEtag (EtItem o1) => negb (obj_eqb o1 o0) | _ => true end.

Definition succeeded (r : response) : bool := negb (is_error (fst r)).

Fixpoint count {A} (f : A -> bool) (l : list A) : nat :=
  match l with [] => 0%nat | x :: r => ((if f x then 1 else 0) + count f r)%nat end.

(* ---- the gate's home creation neither makes a stale ETag current nor removes an existing resource ---- *)
Lemma resolve_home_other : forall s n p,
  lookup s [n] = None -> p <> [n] -> parent p <> [n] ->
  resolve (set_coll s [n] (mkColl TNone [] [])) p = resolve s p.
Proof.
  intros s n p Hn Hp Hpp. unfold resolve.
  rewrite (lookup_set_other s [n] _ p) by congruence.
  destruct (lookup s p); [reflexivity|]. destruct p; [reflexivity|].
  rewrite (lookup_set_other s [n] _ (parent (n0 :: p))) by congruence. reflexivity.
Qed.

Lemma stale_home : forall pol s u p o0, stale s p o0 -> stale (ensure_home pol s u) p o0.
Proof.
  intros pol s u p o0 Hst. destruct (ensure_home_only_home pol s u) as [->|(n & _ & Hn & ->)]; [exact Hst|].
  intros pc Hres. destruct (list_eq_dec N.eq_dec p [n]) as [->|Hp].
  - unfold resolve in Hres. rewrite lookup_set_same in Hres. discriminate.
  - destruct (list_eq_dec N.eq_dec (parent p) [n]) as [Hpp|Hpp].
    + unfold resolve in Hres. rewrite (lookup_set_other s [n] _ p) in Hres by congruence.
      destruct (lookup s p); [discriminate|]. destruct p; [discriminate|].
      rewrite Hpp, lookup_set_same in Hres. cbn in Hres. discriminate.
    + rewrite resolve_home_other in Hres by assumption. exact (Hst pc Hres).
Qed.

Lemma exists_home : forall pol s u p,
  exists_node (resolve s p) = true -> exists_node (resolve (ensure_home pol s u) p) = true.
Proof.
  intros pol s u p He. destruct (ensure_home_only_home pol s u) as [->|(n & _ & Hn & ->)]; [exact He|].
  destruct (list_eq_dec N.eq_dec p [n]) as [->|Hp].
  - unfold resolve. rewrite lookup_set_same. reflexivity.
  - destruct (list_eq_dec N.eq_dec (parent p) [n]) as [Hpp|Hpp].
    + unfold resolve in *. rewrite (lookup_set_other s [n] _ p) by congruence.
      destruct (lookup s p); [reflexivity|]. destruct p; [discriminate|].
      rewrite Hpp, Hn in He. discriminate.
    + rewrite resolve_home_other by assumption. exact He.
Qed.

(* ---- single steps ---- *)
Lemma delete_if_match_fails : forall cfg pol s p e st pl s',
  do_delete cfg pol s p (CTag e) = (s', (st, pl)) ->
  exists_node (resolve s p) && etag_eqb_current (resolve s p) e = false ->
  s' = s /\ is_error st = true.
Proof.
  intros cfg pol s p e st pl s' H Hc. unfold do_delete in H.
  destruct (negb (check pol p lw NoItem)); [inversion H; subst; split; reflexivity|].
  destruct (resolve s p) as [c|pc o|] eqn:Er; cbn [exists_node andb] in Hc.
  - destruct (negb (check pol p lw (kind_of (NColl c)))); [inversion H; subst; split; reflexivity|].
    rewrite Hc in H. cbn [negb] in H. inversion H; subst; split; reflexivity.
  - destruct (negb (check pol p lw (kind_of (NItem pc o)))); [inversion H; subst; split; reflexivity|].
    rewrite Hc in H. cbn [negb] in H. inversion H; subst; split; reflexivity.
  - inversion H; subst; split; reflexivity.
Qed.

Lemma put_success_stale_or_same : forall cfg pol s p ct b im inm s' r o0,
  store_inv s ->
  do_put cfg pol s p ct b im inm = (s', r) -> changing o0 r = true -> stale s' p o0.
Proof.
  intros cfg pol s p ct b im inm s' r o0 Hs H Hch. pose proof H as H0. apply do_put_cases in H.
  destruct H as [[_ He]|[(pc & tg & objs & _ & _ & _ & _ & -> & -> & _)|(pc & o & _ & _ & _ & _ & _ & _ & -> & _)]].
  - unfold changing in Hch. rewrite He in Hch. discriminate.
  - intros pc' Hres. unfold resolve in Hres. rewrite lookup_set_same in Hres. discriminate.
  - destruct (put_item_effect _ _ _ _ _ _ _ _ _ _ Hs H0) as (pc' & _ & Hres & _ & _).
    intros pc2 Heq. rewrite Hres in Heq. inversion Heq; subst.
    unfold changing in Hch. cbn in Hch.
    assert (Ht : obj_eqb o0 o0 = true) by (apply obj_eqb_eq; reflexivity). rewrite Ht in Hch. discriminate.
Qed.

Lemma put_success_exists : forall cfg pol s p ct b im inm s' r,
  store_inv s ->
  do_put cfg pol s p ct b im inm = (s', r) -> succeeded r = true -> exists_node (resolve s' p) = true.
Proof.
  intros cfg pol s p ct b im inm s' r Hs H Hch. pose proof H as H0. apply do_put_cases in H.
  destruct H as [[_ He]|[(pc & tg & objs & _ & _ & _ & _ & -> & -> & _)|(pc & o & _ & _ & _ & _ & _ & _ & -> & _)]].
  - unfold succeeded in Hch. rewrite He in Hch. discriminate.
  - unfold resolve. rewrite lookup_set_same. reflexivity.
  - destruct (put_item_effect _ _ _ _ _ _ _ _ _ _ Hs H0) as (pc' & _ & Hres & _ & _). rewrite Hres. reflexivity.
Qed.

Lemma delete_item_success_stale : forall cfg pol s p im s' r o0 pc0 o,
  resolve s p = NItem pc0 o ->
  do_delete cfg pol s p im = (s', r) -> is_error (fst r) = false -> stale s' p o0.
Proof.
  intros cfg pol s p im s' r o0 pc0 o Hit H He.
  assert (Hr : r = (S200, PNone)).
  { unfold do_delete in H.
    repeat (match type of H with context [match ?x with _ => _ end] => destruct x eqn:? end;
            try (inversion H; subst; cbn in He; try discriminate; reflexivity)). }
  subst r. destruct (delete_effect _ _ _ _ _ _ H) as [(c & Hres & _)|(pc & o' & Hres & Hpar & Hnone & _ & Hother)].
  - rewrite Hit in Hres. discriminate.
  - intros pc' Hr'. unfold resolve in Hr'.
    destruct (lookup s' p) eqn:El; [discriminate|]. destruct p as [|x p']; [discriminate|].
    rewrite Hpar in Hr'. cbn [c_items] in Hr'. rewrite Hnone in Hr'. discriminate.
Qed.

Lemma put_if_none_match_fails : forall cfg pol s p ct b im st pl s',
  do_put cfg pol s p ct b im true = (s', (st, pl)) ->
  exists_node (resolve s p) = true ->
  s' = s /\ is_error st = true.
Proof.
  intros cfg pol s p ct b im st pl s' H Hc. unfold do_put in H. fold (exists_node (resolve s p)) in H.
  rewrite Hc in H. cbn [andb] in H.
  repeat (match type of H with context [match ?x with _ => _ end] => destruct x eqn:? end;
          try (inversion H; subst; split; reflexivity)); try congruence.
Qed.

Lemma ensure_home_idem : forall pol s u, ensure_home pol (ensure_home pol s u) u = ensure_home pol s u.
Proof.
  intros pol s u. destruct (ensure_home_only_home pol s u) as [H|(n & -> & Hn & H)].
  - rewrite H. exact H.
  - rewrite H. unfold ensure_home, resolve. rewrite lookup_set_same. reflexivity.
Qed.

Section Race.
  Variables (cfg : config) (pol : policy) (user : option name) (p : path) (o0 : obj).

  Let errs (l : list response) : Prop := Forall (fun resp => is_error (fst resp) = true) l.

  Lemma writer_step_stale : forall s r,
    writer p o0 r -> stale (ensure_home pol s user) p o0 ->
    fst (handle cfg pol user s r) = ensure_home pol s user
    /\ is_error (fst (snd (handle cfg pol user s r))) = true.
  Proof.
    intros s r Hw Hst. apply stale_bool in Hst. unfold handle.
    destruct r as [q ct b im inm|q im| | | | | | | |]; try contradiction.
    - destruct im as [| |[o|c|]]; try contradiction. destruct Hw as [-> ->].
      destruct (do_put cfg pol (ensure_home pol s user) p ct b (CTag (EtItem o0)) inm) as [s2 [st pl]] eqn:E2.
      destruct (put_if_match_fails _ _ _ _ _ _ _ _ _ _ _ E2 Hst) as [-> He]. split; [reflexivity|exact He].
    - destruct im as [| |[o|c|]]; try contradiction. destruct Hw as [-> ->].
      destruct (do_delete cfg pol (ensure_home pol s user) p (CTag (EtItem o0))) as [s2 [st pl]] eqn:E2.
      destruct (delete_if_match_fails _ _ _ _ _ _ _ _ E2 Hst) as [-> He]. split; [reflexivity|exact He].
  Qed.

  Lemma writer_step_changing : forall s r,
    store_inv s -> writer p o0 r ->
    changing o0 (snd (handle cfg pol user s r)) = true -> stale (fst (handle cfg pol user s r)) p o0.
  Proof.
    intros s r Hs Hw Hch. pose proof (ensure_home_inv pol s user Hs) as Hh. unfold handle in *.
    destruct r as [q ct b im inm|q im| | | | | | | |]; try contradiction.
    - destruct im as [| |[o|c|]]; try contradiction. destruct Hw as [-> ->].
      destruct (do_put cfg pol (ensure_home pol s user) p ct b (CTag (EtItem o0)) inm) as [s2 r2] eqn:E2.
      cbn [fst snd] in *. exact (put_success_stale_or_same _ _ _ _ _ _ _ _ _ _ _ Hh E2 Hch).
    - destruct im as [| |[o|c|]]; try contradiction. destruct Hw as [-> ->].
      destruct (do_delete cfg pol (ensure_home pol s user) p (CTag (EtItem o0))) as [s2 [st pl]] eqn:E2.
      cbn [fst snd] in *. unfold changing in Hch. cbn [fst snd] in Hch. apply andb_true_iff in Hch. destruct Hch as [Hne _].
      apply negb_true_iff in Hne.
      destruct (resolve (ensure_home pol s user) p) as [c|pc o|] eqn:Er.
      + assert (Hc : exists_node (resolve (ensure_home pol s user) p)
                     && etag_eqb_current (resolve (ensure_home pol s user) p) (EtItem o0) = false)
          by (rewrite Er; reflexivity).
        destruct (delete_if_match_fails _ _ _ _ _ _ _ _ E2 Hc) as [_ He]. congruence.
      + exact (delete_item_success_stale _ _ _ _ _ _ _ o0 _ _ Er E2 Hne).
      + assert (Hc : exists_node (resolve (ensure_home pol s user) p)
                     && etag_eqb_current (resolve (ensure_home pol s user) p) (EtItem o0) = false)
          by (rewrite Er; reflexivity).
        destruct (delete_if_match_fails _ _ _ _ _ _ _ _ E2 Hc) as [_ He]. congruence.
  Qed.

  Lemma changing_not_error : forall r, is_error (fst r) = true -> changing o0 r = false.
  Proof. intros r H. unfold changing. rewrite H. reflexivity. Qed.

  (* Once the ETag the writers hold is stale, every one of them is refused and the count of changes is zero. *)
  Lemma race_stale : forall rs s, store_inv s -> Forall (writer p o0) rs -> stale s p o0 ->
    errs (snd (run_history cfg pol user s rs))
    /\ count (changing o0) (snd (run_history cfg pol user s rs)) = 0%nat.
  Proof.
    induction rs as [|r rs IH]; intros s Hs Hw Hst; cbn [run_history].
    - split; [constructor|reflexivity].
    - inversion Hw as [|? ? Hr Hrs]; subst.
      pose proof (writer_step_stale s r Hr (stale_home pol s user p o0 Hst)) as [Hfst Herr].
      pose proof (handle_inv cfg pol user s r Hs) as Hinv.
      destruct (handle cfg pol user s r) as [s1 out] eqn:E1. cbn [fst snd] in *.
      assert (Hst1 : stale s1 p o0) by (rewrite Hfst; apply stale_home; exact Hst).
      destruct (IH s1 Hinv Hrs Hst1) as [IHe IHc].
      destruct (run_history cfg pol user s1 rs) as [s2 outs] eqn:E2. cbn [fst snd] in *.
      split; [constructor; assumption|]. cbn [count]. rewrite (changing_not_error out Herr), IHc. reflexivity.
  Qed.

  (* Any number of writers racing from the same ETag, in any order: at most one of them changes the resource. *)
  Theorem race_n : forall rs s, store_inv s -> Forall (writer p o0) rs ->
    (count (changing o0) (snd (run_history cfg pol user s rs)) <= 1)%nat.
  Proof.
    induction rs as [|r rs IH]; intros s Hs Hw; cbn [run_history]; [cbn; lia|].
    inversion Hw as [|? ? Hr Hrs]; subst.
    pose proof (handle_inv cfg pol user s r Hs) as Hinv.
    pose proof (writer_step_changing s r Hs Hr) as Hchg.
    destruct (handle cfg pol user s r) as [s1 out] eqn:E1. cbn [fst snd] in *.
    pose proof (IH s1 Hinv Hrs) as IH1.
    destruct (changing o0 out) eqn:Ec.
    - destruct (race_stale rs s1 Hinv Hrs (Hchg eq_refl)) as [_ H0].
      destruct (run_history cfg pol user s1 rs) as [s2 outs]. cbn [fst snd count] in *. rewrite Ec, H0. lia.
    - destruct (run_history cfg pol user s1 rs) as [s2 outs]. cbn [fst snd count] in *. rewrite Ec. lia.
  Qed.

  (* ... and when the first one does, every later one is refused (412 or another error) and changes nothing. *)
  Theorem race_first_wins : forall r rs s, store_inv s -> Forall (writer p o0) (r :: rs) ->
    changing o0 (snd (handle cfg pol user s r)) = true ->
    errs (snd (run_history cfg pol user (fst (handle cfg pol user s r)) rs))
    /\ fst (run_history cfg pol user (fst (handle cfg pol user s r)) rs)
       = match rs with [] => fst (handle cfg pol user s r) | _ => ensure_home pol (fst (handle cfg pol user s r)) user end.
  Proof.
    intros r rs s Hs Hw Hch. inversion Hw as [|? ? Hr Hrs]; subst.
    pose proof (handle_inv cfg pol user s r Hs) as Hinv.
    pose proof (writer_step_changing s r Hs Hr Hch) as Hst.
    split; [apply race_stale; assumption|].
    generalize dependent (fst (handle cfg pol user s r)). clear Hch Hw Hr.
    induction rs as [|r1 rs IH]; intros s1 Hinv Hst; [reflexivity|].
    inversion Hrs as [|? ? Hr1 Hrs1]; subst. cbn [run_history].
    pose proof (writer_step_stale s1 r1 Hr1 (stale_home pol s1 user p o0 Hst)) as [Hfst _].
    pose proof (handle_inv cfg pol user s1 r1 Hinv) as Hinv1.
    destruct (handle cfg pol user s1 r1) as [s2 out] eqn:E1. cbn [fst snd] in *. subst s2.
    pose proof (IH Hrs1 (ensure_home pol s1 user) Hinv1 (stale_home pol s1 user p o0 Hst)) as IH1.
    destruct (run_history cfg pol user (ensure_home pol s1 user) rs) as [s3 outs]. cbn [fst] in *.
    rewrite IH1. destruct rs; [reflexivity|]. apply ensure_home_idem.
  Qed.
End Race.

(* ---- any number of creators (PUT with If-None-Match: * ) of one name: at most one succeeds ---- *)
Section Create.
  Variables (cfg : config) (pol : policy) (user : option name) (p : path).

  Let errs (l : list response) : Prop := Forall (fun resp => is_error (fst resp) = true) l.

  Lemma creator_step_exists : forall s r,
    creator p r -> exists_node (resolve (ensure_home pol s user) p) = true ->
    fst (handle cfg pol user s r) = ensure_home pol s user
    /\ is_error (fst (snd (handle cfg pol user s r))) = true.
  Proof.
    intros s r Hw Hex. unfold handle.
    destruct r as [q ct b im inm| | | | | | | | |]; try contradiction.
    destruct inm; [|contradiction]. cbn in Hw. subst q.
    destruct (do_put cfg pol (ensure_home pol s user) p ct b im true) as [s2 [st pl]] eqn:E2.
    destruct (put_if_none_match_fails _ _ _ _ _ _ _ _ _ _ E2 Hex) as [-> He]. split; [reflexivity|exact He].
  Qed.

  Lemma creator_step_success : forall s r,
    store_inv s -> creator p r ->
    succeeded (snd (handle cfg pol user s r)) = true -> exists_node (resolve (fst (handle cfg pol user s r)) p) = true.
  Proof.
    intros s r Hs Hw Hch. pose proof (ensure_home_inv pol s user Hs) as Hh. unfold handle in *.
    destruct r as [q ct b im inm| | | | | | | | |]; try contradiction.
    destruct inm; [|contradiction]. cbn in Hw. subst q.
    destruct (do_put cfg pol (ensure_home pol s user) p ct b im true) as [s2 r2] eqn:E2.
    cbn [fst snd] in *. exact (put_success_exists _ _ _ _ _ _ _ _ _ _ Hh E2 Hch).
  Qed.

  Lemma create_exists : forall rs s, store_inv s -> Forall (creator p) rs -> exists_node (resolve s p) = true ->
    errs (snd (run_history cfg pol user s rs))
    /\ count succeeded (snd (run_history cfg pol user s rs)) = 0%nat.
  Proof.
    induction rs as [|r rs IH]; intros s Hs Hw Hex; cbn [run_history].
    - split; [constructor|reflexivity].
    - inversion Hw as [|? ? Hr Hrs]; subst.
      pose proof (creator_step_exists s r Hr (exists_home pol s user p Hex)) as [Hfst Herr].
      pose proof (handle_inv cfg pol user s r Hs) as Hinv.
      destruct (handle cfg pol user s r) as [s1 out] eqn:E1. cbn [fst snd] in *.
      assert (Hex1 : exists_node (resolve s1 p) = true) by (rewrite Hfst; apply exists_home; exact Hex).
      destruct (IH s1 Hinv Hrs Hex1) as [IHe IHc].
      destruct (run_history cfg pol user s1 rs) as [s2 outs] eqn:E2. cbn [fst snd] in *.
      split; [constructor; assumption|]. cbn [count]. unfold succeeded at 1. rewrite Herr, IHc. reflexivity.
  Qed.

  Theorem create_race_n : forall rs s, store_inv s -> Forall (creator p) rs ->
    (count succeeded (snd (run_history cfg pol user s rs)) <= 1)%nat.
  Proof.
    induction rs as [|r rs IH]; intros s Hs Hw; cbn [run_history]; [cbn; lia|].
    inversion Hw as [|? ? Hr Hrs]; subst.
    pose proof (handle_inv cfg pol user s r Hs) as Hinv.
    pose proof (creator_step_success s r Hs Hr) as Hchg.
    destruct (handle cfg pol user s r) as [s1 out] eqn:E1. cbn [fst snd] in *.
    pose proof (IH s1 Hinv Hrs) as IH1.
    destruct (succeeded out) eqn:Ec.
    - destruct (create_exists rs s1 Hinv Hrs (Hchg eq_refl)) as [_ H0].
      destruct (run_history cfg pol user s1 rs) as [s2 outs]. cbn [fst snd count] in *. rewrite Ec, H0. lia.
    - destruct (run_history cfg pol user s1 rs) as [s2 outs]. cbn [fst snd count] in *. rewrite Ec. lia.
  Qed.
End Create.
