(* C12: the executable check equals the predicate; the hypotheses of the theorems are satisfiable;
   the predicate rejects the classic ordering mistakes. *)
From Coq Require Import List NArith Bool Lia PeanoNat.
Import ListNotations.
Require Import RV.Lib.Prog RV.Model.Fs RV.Model.StorageOps RV.Proofs.FsLemmas RV.Proofs.C12Units RV.Proofs.C12Final.
Open Scope N_scope.

Lemma durableb_spec : forall t, durableb t = true <-> durable t.
Proof.
  intro t. unfold durableb, durable, clean. split.
  - intro H. apply andb_true_iff in H. destruct H as [H1 H2]. apply negb_true_iff in H1. split; [exact H1|].
    intros d Hd. rewrite forallb_forall in H2. specialize (H2 d Hd). apply negb_true_iff in H2. exact H2.
  - intros [H1 H2]. apply andb_true_iff. split; [rewrite H1; reflexivity|].
    apply forallb_forall. intros d Hd. rewrite (H2 d Hd). reflexivity.
Qed.

(* a small store: /u/cal with one item, warm caches absent *)
Definition ex_u : path := [Root; Safe 2].
Definition ex_cal : path := [Root; Safe 2; Safe 3].
Definition ex_fs : fs := init_fs [([], D); ([Root], D); (ex_u, D); (ex_cal, D); (ex_cal ++ [Props], F 7); (ex_cal ++ [Safe 4], F 8)].
Definition ex_lay : layout := {| l_item := false; l_hist := false |}.

Definition ex_run (u : unit_op) := machine_run no_fault (unit_prog ex_lay u) (start ex_fs).

Example ex_upload_ok : snd (ex_run (UUpload ex_cal (Safe 5) 9 [])) = ONorm
  /\ durableb (done (c_tr (fst (ex_run (UUpload ex_cal (Safe 5) 9 []))))) = true
  /\ List.length (c_tr (fst (ex_run (UUpload ex_cal (Safe 5) 9 [])))) = 27%nat.
Proof. vm_compute. repeat split. Qed.

Example ex_upload_wf : unit_wf (UUpload ex_cal (Safe 5) 9 []) /\ dirs_exist (unit_dirs (UUpload ex_cal (Safe 5) 9 [])) ex_fs.
Proof. split; [split; reflexivity|]. intros c [<- | []]. reflexivity. Qed.

Example ex_create_ok :
  let r := ex_run (UCreate (ex_u ++ [Safe 6]) (Some [(Safe 10, 11); (Safe 12, 13)]) 14) in
  snd r = ONorm /\ durableb (done (c_tr (fst r))) = true /\ look (c_st (fst r)) (ex_u ++ [Safe 6; Safe 12]) = Some (F 13).
Proof. vm_compute. repeat split. Qed.

Example ex_replace_ok :
  let r := ex_run (UCreate ex_cal (Some [(Safe 10, 11)]) 14) in
  snd r = ONorm /\ durableb (done (c_tr (fst r))) = true
  /\ look (c_st (fst r)) (ex_cal ++ [Safe 4]) = None /\ look (c_st (fst r)) (ex_cal ++ [Safe 10]) = Some (F 11).
Proof. vm_compute. repeat split. Qed.

(* the predicate bites: rename before the file fsync; no directory fsync; write in place; staging directory not synced *)
Definition ex_t : path := ex_cal ++ [Tmp 0].
Example bad_no_file_fsync :
  durableb [Mkdir ex_t; Create (ex_t ++ [Safe 5]); Write (ex_t ++ [Safe 5]) 9; Rename (ex_t ++ [Safe 5]) (ex_cal ++ [Safe 5]);
            Rmtree ex_t; FsyncD ex_cal] = false.
Proof. reflexivity. Qed.
Example bad_fsync_after_rename :
  durableb [Mkdir ex_t; Create (ex_t ++ [Safe 5]); Write (ex_t ++ [Safe 5]) 9; Rename (ex_t ++ [Safe 5]) (ex_cal ++ [Safe 5]);
            FsyncF (ex_cal ++ [Safe 5]); Rmtree ex_t; FsyncD ex_cal] = false.
Proof. reflexivity. Qed.
Example bad_no_dir_fsync :
  durableb [Mkdir ex_t; Create (ex_t ++ [Safe 5]); Write (ex_t ++ [Safe 5]) 9; FsyncF (ex_t ++ [Safe 5]);
            Rename (ex_t ++ [Safe 5]) (ex_cal ++ [Safe 5]); Rmtree ex_t] = false.
Proof. reflexivity. Qed.
Example good_atomic_write :
  durableb [Mkdir ex_t; Create (ex_t ++ [Safe 5]); Write (ex_t ++ [Safe 5]) 9; FsyncF (ex_t ++ [Safe 5]);
            Rename (ex_t ++ [Safe 5]) (ex_cal ++ [Safe 5]); Rmtree ex_t; FsyncD ex_cal] = true.
Proof. reflexivity. Qed.
Example bad_write_in_place : durableb [Write (ex_cal ++ [Safe 4]) 9; FsyncF (ex_cal ++ [Safe 4])] = false.
Proof. reflexivity. Qed.
Example bad_unlink_no_fsync : durableb [Unlink (ex_cal ++ [Safe 4])] = false.
Proof. reflexivity. Qed.
Example bad_staging_dir_not_synced :
  let tc := ex_u ++ [Tmp 0; Safe 0] in
  durableb [Mkdir (ex_u ++ [Tmp 0]); Mkdir tc; Create (tc ++ [Safe 5]); Write (tc ++ [Safe 5]) 9; FsyncF (tc ++ [Safe 5]);
            Rename tc (ex_u ++ [Safe 6]); FsyncD ex_u; Rmtree (ex_u ++ [Tmp 0])] = false.
Proof. reflexivity. Qed.
Example cache_exempt :
  durableb [Mkdir (ex_cal ++ [Cache]); Create (ex_cal ++ [Cache; Safe 5]); Write (ex_cal ++ [Cache; Safe 5]) 9;
            Rename (ex_cal ++ [Cache; Safe 5]) (ex_cal ++ [Cache; Safe 6])] = true.
Proof. reflexivity. Qed.

(* the directory fsync of the PUT (7th system call) or the file fsync (4th) fails: the upload raises ValueError *)
Example ex_upload_fsync_fails :
  snd (machine_run (fail_at 6 EIO) (unit_prog ex_lay (UUpload ex_cal (Safe 5) 9 [])) (start ex_fs)) = OExn EVal
  /\ snd (machine_run (fail_at 3 ENOSPC) (unit_prog ex_lay (UUpload ex_cal (Safe 5) 9 [])) (start ex_fs)) = OExn EVal
  /\ nth 6 (c_tr (fst (ex_run (UUpload ex_cal (Safe 5) 9 [])))) (Mkdir [], false) = (FsyncD ex_cal, true).
Proof. vm_compute. repeat split. Qed.

(* ------------------------------------------------------------------ a directory fsync counts for the directory it REACHES *)
(* The monitor works on paths: `FsyncD d` is the fsync of the directory that is linked at d WHEN THE CALL IS MADE (the
   projection resolves the descriptor at the time of the call, not at the time it was opened).  A descriptor of a
   directory that has been replaced or removed meanwhile names another path (below a temp directory) or none at all;
   syncing it discharges nothing at the old path: *)
Lemma mon_run_snoc : forall t st, mon_run (t ++ [st]) = dstep st (mon_run t).
Proof. intros t st. unfold mon_run. rewrite fold_left_app. reflexivity. Qed.

Lemma fsync_elsewhere_keeps : forall t q d, In (DE q) (m_dirty (mon_run t)) -> parent q <> d ->
  In (DE q) (m_dirty (mon_run (t ++ [FsyncD d]))).
Proof.
  intros t q d Hin Hne. rewrite mon_run_snoc. cbn. apply filter_In. split; [exact Hin|].
  apply negb_true_iff. apply path_eqb_neq. exact Hne.
Qed.

Lemma c12_dir_fsync_elsewhere : forall t q d, is_data q = true -> In (DE q) (m_dirty (mon_run t)) -> parent q <> d ->
  ~ durable (t ++ [FsyncD d]).
Proof.
  intros t q d Hq Hin Hne [_ Hc]. specialize (Hc (DE q) (fsync_elsewhere_keeps t q d Hin Hne)). cbn in Hc. congruence.
Qed.

(* several such fsyncs do not help either *)
Lemma c12_dir_fsyncs_elsewhere : forall ds t q, is_data q = true -> In (DE q) (m_dirty (mon_run t)) ->
  (forall d, In d ds -> parent q <> d) -> ~ durable (t ++ map FsyncD ds).
Proof.
  induction ds as [|d ds IH]; intros t q Hq Hin Hall.
  - cbn. rewrite app_nil_r. intros [_ Hc]. specialize (Hc (DE q) Hin). cbn in Hc. congruence.
  - cbn. replace (t ++ FsyncD d :: map FsyncD ds) with ((t ++ [FsyncD d]) ++ map FsyncD ds) by (rewrite <- app_assoc; reflexivity).
    apply (IH _ q Hq).
    + apply fsync_elsewhere_keeps; [exact Hin | apply Hall; left; reflexivity].
    + intros d' Hd'. apply Hall. right. exact Hd'.
Qed.

(* the collection ex_cal is replaced (staged under ex_u/Tmp 0, exchanged, old one removed); a later PUT of an item whose
   directory fsync goes to the OLD directory (now gone: some name outside the visible tree) is not durable, the same PUT
   with the fsync of the directory linked at ex_cal is *)
Definition ex_replace_then_put (d : path) : list step :=
  let tc := ex_u ++ [Tmp 0; Safe 0] in
  [Mkdir (ex_u ++ [Tmp 0]); Mkdir tc; Create (tc ++ [Props]); Write (tc ++ [Props]) 7; FsyncF (tc ++ [Props]); FsyncD tc;
   FsyncD (ex_u ++ [Tmp 0]); Exchange tc ex_cal; FsyncD ex_u; Rmtree (ex_u ++ [Tmp 0]);
   Mkdir (ex_cal ++ [Tmp 1]); Create (ex_cal ++ [Tmp 1; Safe 5]); Write (ex_cal ++ [Tmp 1; Safe 5]) 9; FsyncF (ex_cal ++ [Tmp 1; Safe 5]);
   Rename (ex_cal ++ [Tmp 1; Safe 5]) (ex_cal ++ [Safe 5]); Rmtree (ex_cal ++ [Tmp 1]); FsyncD d].
Example bad_fsync_of_replaced_directory :
  durableb (ex_replace_then_put (ex_u ++ [Tmp 0; Other 0])) = false /\ durableb (ex_replace_then_put ex_cal) = true.
Proof. split; reflexivity. Qed.
