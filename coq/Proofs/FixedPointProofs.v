(* C14 -- the stored text of an object in normal form is a fixed point of the whole upload pipeline (put_model). *)
From Coq Require Import List NArith Bool Lia.
Import ListNotations.
Require Import RV.Lib.PyStr RV.Proofs.PyStrLemmas RV.Model.ContentLine RV.Model.Vobj RV.Model.C14Spec.
Require RV.Proofs.LinesProofs RV.Proofs.QpProofs RV.Proofs.TreeProofs RV.Proofs.C14Final.
Open Scope N_scope.

(* vobject never folds the PHOTO line of a vCard: such lines are outside this theorem *)
Fixpoint folds_normally (comp : pystr) (x : node) : Prop :=
  match x with
  | L l => fold_line_in comp l = fold_line (print_cl l)
  | C n ch => (fix all (l : list node) : Prop := match l with [] => True | y :: r => folds_normally n y /\ all r end) ch
  end.

Lemma folds_normally_C : forall comp n ch, folds_normally comp (C n ch) <-> Forall (folds_normally n) ch.
Proof.
  intros comp n ch. cbn [folds_normally]. induction ch as [|y r IH]; [split; [constructor|trivial]|].
  split.
  - intros [H1 H2]. constructor; [exact H1|apply IH; exact H2].
  - intros H. inversion H; subst. split; [assumption|apply IH; assumption].
Qed.

Lemma print_lines_app : forall a b, print_lines (a ++ b) = print_lines a ++ print_lines b.
Proof. intros a b. unfold print_lines. rewrite map_app, concat_app. reflexivity. Qed.

Lemma print_node_flatten : forall x comp, folds_normally comp x -> print_node comp x = print_lines (flatten x).
Proof.
  induction x as [l | n ch IH] using TreeProofs.node_ind'; intros comp H.
  - cbn in *. unfold print_lines. cbn. rewrite app_nil_r. exact H.
  - apply folds_normally_C in H. rewrite TreeProofs.flatten_C.
    change (begin_line n :: flatten_all ch ++ [end_line n]) with ([begin_line n] ++ flatten_all ch ++ [end_line n]).
    rewrite !print_lines_app. cbn [print_node].
    assert (E : forall l, Forall (fun x => forall comp, folds_normally comp x -> print_node comp x = print_lines (flatten x)) l ->
                          Forall (folds_normally n) l ->
                          (fix pl (l : list node) : pystr := match l with [] => [] | y :: r => print_node n y ++ pl r end) l
                          = print_lines (flatten_all l)).
    { induction l as [|y r IHr]; intros HI HF; [reflexivity|].
      inversion HI; subst. inversion HF; subst. unfold flatten_all. cbn [map List.concat].
      rewrite print_lines_app. f_equal; [auto|]. apply IHr; assumption. }
    rewrite (E ch IH H).
    assert (S1 : forall l, print_lines [l] = fold_line (print_cl l)) by (intros l; unfold print_lines; cbn; apply app_nil_r).
    rewrite !S1. reflexivity.
Qed.

(* An object in normal form: what each stage of the pipeline leaves unchanged. *)
Record normal_form (y : node) : Prop := {
  nf_component : exists n ch, y = C n ch /\ TreeProofs.wf_node y;        (* one top-level component, upper-case names *)
  nf_lines : Forall wf_cl (flatten y);                                      (* sorted distinct parameters, no line breaks *)
  nf_values : canon_values [] y = y;                                        (* every value is in the form its codec writes *)
  nf_clean : sanitize y = Some y;                                           (* no clean-up applies *)
  nf_order : canon_node y = y;                                              (* children in vobject's order *)
  nf_fold : folds_normally [] y                                             (* no vCard PHOTO line *)
}.

Theorem put_model_fixed_point : forall y,
  normal_form y ->
  let s := print_node [] y in
  read_cleanup s = s ->                                                     (* no control character, no data: prefix left *)
  Forall (fun l => mentions_qp (print_cl l) = false) (flatten y) ->         (* not vCard 2.1 quoted-printable *)
  no_ws_only_lines s ->                                                     (* outside the known class C14:fold-ws *)
  put_model s = Some s.
Proof.
  intros y NF s Hclean Hqp Hws. destruct NF as [[n [ch [Ey Hwf]]] Hl Hv Hc Ho Hf].
  assert (Es : s = print_lines (flatten y)) by (apply print_node_flatten; exact Hf).
  unfold put_model. rewrite Hclean. rewrite Es.
  rewrite C14Final.lines_roundtrip_qp; [| exact Hl | exact Hqp | rewrite <- Es; exact Hws].
  assert (Eb : build (flatten y) = Some [y]).
  { replace (flatten y) with (flatten_all [y]) by (unfold flatten_all; cbn; apply app_nil_r).
    apply TreeProofs.build_flatten. constructor; [|constructor]. exists n, ch. split; assumption. }
  rewrite Eb, Hv, Hc, Ho. rewrite <- Es. reflexivity.
Qed.

(* same bytes => same SHA-256 ETag; and the recomputation after a cache loss serves the stored text *)
Corollary reload_serves_stored : forall y,
  normal_form y -> let s := print_node [] y in
  read_cleanup s = s -> Forall (fun l => mentions_qp (print_cl l) = false) (flatten y) -> no_ws_only_lines s ->
  C14Final.served_text (C14Final.mkStored s None) = Some s.
Proof. intros y NF s H1 H2 H3. apply C14Final.served_after_cache_loss. apply put_model_fixed_point; assumption. Qed.

(* non-vacuity: a VCALENDAR with a VEVENT (quoted parameter, escaped text) is in normal form and meets every
   hypothesis of the theorem *)
Module FixedPointExample.
  Import Coq.Strings.String.
  Definition ln (n : string) (ps : list (pystr * list pystr)) (v : string) : node := L (mkCl None (str n) ps (str v)).
  Definition ex : node :=
    C (str "VCALENDAR")
      [ln "VERSION" [] "2.0"; ln "PRODID" [] "-//x//EN";
       C (str "VEVENT")
         [ln "UID" [] "u1"; ln "DTSTART" [] "20200102T100000Z";
          ln "ATTENDEE" [(str "CN", [str "Doe, John"]); (str "ROLE", [str "CHAIR"])] "mailto:jd@example.org";
          ln "DTSTAMP" [] "20200101T000000Z"; ln "SUMMARY" [] "a\, b\; c\\d\ne"]].
End FixedPointExample.

Example put_model_fixed_point_example :
  normal_form FixedPointExample.ex /\
  read_cleanup (print_node [] FixedPointExample.ex) = print_node [] FixedPointExample.ex /\
  Forall (fun l => mentions_qp (print_cl l) = false) (flatten FixedPointExample.ex) /\
  no_ws_only_lines (print_node [] FixedPointExample.ex).
Proof.
  split; [|split; [vm_compute; reflexivity|split]].
  - constructor.
    + eexists _, _. split; [reflexivity|]. repeat (constructor; try reflexivity).
    + vm_compute flatten. repeat (apply Forall_cons; [unfold wf_cl; cbn [cl_group cl_name cl_params cl_value];
        repeat split; try discriminate; try reflexivity; repeat (constructor; try reflexivity; try discriminate)|]).
      constructor.
    + vm_compute. reflexivity.
    + vm_compute. reflexivity.
    + vm_compute. reflexivity.
    + cbn. repeat split; reflexivity.
  - vm_compute flatten. repeat (constructor; [vm_compute; reflexivity|]). constructor.
  - unfold no_ws_only_lines. vm_compute phys_lines. repeat (constructor; [reflexivity|]). constructor.
Qed.
