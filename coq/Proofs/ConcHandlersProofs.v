(* C09 -- the handlers of Model/Handlers.v satisfy the hypotheses of the concurrency theorems;
   the unchanged gate is refuted; the repaired gate is serialisable. *)
From Coq Require Import List NArith Bool Lia Permutation.
Import ListNotations.
Require Import RV.Model.Conc RV.Proofs.ConcProofs.
Require Import RV.Lib.PyStr RV.Lib.Item RV.Model.Store RV.Model.Access RV.Model.Handlers RV.Model.HandlersCanon
               RV.Proofs.StoreLemmas RV.Proofs.HandlersInv RV.Model.ConcHandlers.
Open Scope N_scope.

Definition oid (s : store) : store := s.          (* the whole ideal store is observable: obs = identity *)

(* ------------------------------------------------------------------ the handler's section *)
Lemma hbody_reader cfg pol s r : hmode r = Rd -> fst (hbody cfg pol s r) = s.
Proof. destruct r; simpl; intro H; try discriminate; reflexivity. Qed.

Lemma hsec_wf cfg pol r : wf oid None (hsec cfg pol r).
Proof.
  unfold hsec. simpl. split; [reflexivity|]. split; [|split].
  - exists (hmode r). split; [reflexivity|]. intros Hm s. unfold oid. apply hbody_reader. exact Hm.
  - unfold oid. intros s s' ->. split; reflexivity.
  - intros s. split; [discriminate|]. simpl. reflexivity.
Qed.

Lemma hsec_one cfg pol r : one_section (hsec cfg pol r).
Proof.
  unfold one_section, hsec. eexists. eexists. split; [reflexivity|].
  intros s. simpl. eexists. reflexivity.
Qed.

Lemma run_prog_hsec cfg pol r s : run_prog (hsec cfg pol r) s = hbody cfg pol s r.
Proof. unfold hsec. simpl. destruct (hbody cfg pol s r). reflexivity. Qed.

(* the specification with no predefined collections is the sequential model of C01 *)
Lemma create_plain_absent s u : resolve s [u] = NNothing -> create_plain s [u] = set_coll s [u] (mkColl TNone [] []).
Proof. intro H. unfold create_plain. rewrite (resolve_nothing_lookup _ _ H). reflexivity. Qed.

Lemma prov_spec_nil pol user s : prov_spec [] pol user s = ensure_home pol s user.
Proof.
  unfold prov_spec, ensure_home. destruct user as [u|]; [|reflexivity].
  unfold may_create, provision, home_absent, provision_unchecked. simpl.
  destruct (resolve s [u]) eqn:E.
  - destruct (has lW (pol [u])); reflexivity.
  - destruct (has lW (pol [u])); reflexivity.
  - destruct (has lW (pol [u])); [|reflexivity]. apply create_plain_absent. exact E.
Qed.

Theorem handle_pre_nil cfg pol user s r : handle_pre [] cfg pol user s r = handle cfg pol user s r.
Proof. unfold handle_pre. rewrite prov_spec_nil. destruct r; reflexivity. Qed.

(* ------------------------------------------------------------------ store invariant *)
Lemma hbody_inv cfg pol s r : store_inv s -> store_inv (fst (hbody cfg pol s r)).
Proof.
  intro Hs. destruct r; cbn [hbody fst];
    [apply do_put_inv|apply do_delete_inv|apply do_move_inv|apply do_mkcol_inv|apply do_mkcalendar_inv
     |apply do_proppatch_inv|..]; exact Hs.
Qed.

Lemma root_no_items s rc : store_inv s -> lookup s [] = Some rc -> forall k, assoc (c_items rc) k = None.
Proof.
  intros (_ & (rc' & Hr & Ht) & Hc & _) Hl k. rewrite Hl in Hr. inversion Hr; subst rc'.
  destruct (assoc (c_items rc) k) as [o|] eqn:E; [|reflexivity].
  apply assoc_In in E. destruct (Hc _ _ Hl) as (_ & _ & Hv). specialize (Hv _ _ E). rewrite Ht in Hv. destruct Hv.
Qed.

Lemma home_absent_lookup s u : store_inv s ->
  home_absent s u = match lookup s [u] with Some _ => false | None => true end.
Proof.
  intro Hs. unfold home_absent, resolve. destruct (lookup s [u]) eqn:E; [reflexivity|].
  cbn [parent removelast]. pose proof Hs as (_ & (rc & Hr & _) & _ & _). rewrite Hr.
  unfold last_name. cbn [last]. rewrite (root_no_items _ _ Hs Hr). reflexivity.
Qed.

Lemma path2_neq u n : path_eqb [u; n] [u] = false.
Proof. cbn. rewrite andb_false_r. reflexivity. Qed.
Lemma prefix2 u n : is_prefix [u; n] [u] = false.
Proof. cbn. rewrite andb_false_r. reflexivity. Qed.

Lemma create_predefined_inv pre : forall s u hc,
  store_inv s -> lookup s [u] = Some hc -> c_tag hc = TNone ->
  store_inv (create_predefined pre s u) /\ lookup (create_predefined pre s u) [u] = Some hc.
Proof.
  unfold create_predefined. induction pre as [|[[n t] pr] pre IH]; intros s u hc Hs Hl Ht; cbn [fold_left].
  - split; assumption.
  - cbn [fst snd]. apply IH; auto.
    + unfold create_with_props. apply (store_inv_replace s [u; n] _ hc); auto.
      * discriminate.
      * apply coll_inv_empty.
    + unfold create_with_props. rewrite lookup_set, path2_neq, lookup_del_subtree, prefix2. exact Hl.
Qed.

Lemma provision_unchecked_absent pre s u : store_inv s -> lookup s [u] = None ->
  store_inv (provision_unchecked pre s u) /\ exists hc, lookup (provision_unchecked pre s u) [u] = Some hc.
Proof.
  intros Hs Hl. unfold provision_unchecked, create_plain. rewrite Hl.
  pose proof Hs as (_ & (rc & Hr & Hrt) & _ & _).
  assert (Hs1 : store_inv (set_coll s [u] (mkColl TNone [] []))).
  { apply (store_inv_add s [u] _ rc); auto. discriminate. apply coll_inv_empty. }
  destruct (create_predefined_inv pre _ u (mkColl TNone [] []) Hs1 (lookup_set_same _ _ _) eq_refl) as [H1 H2].
  split; eauto.
Qed.

Lemma prov_spec_inv pre pol user s : store_inv s -> store_inv (prov_spec pre pol user s).
Proof.
  intro Hs. unfold prov_spec. destruct user as [u|]; [|exact Hs].
  destruct (may_create pol u); [|exact Hs]. unfold provision. rewrite (home_absent_lookup _ _ Hs).
  destruct (lookup s [u]) eqn:E; [exact Hs|]. apply provision_unchecked_absent; auto.
Qed.

Lemma prov_spec_present pre pol u s : store_inv s -> gate_absent pol u (prov_spec pre pol (Some u) s) = false.
Proof.
  intro Hs. unfold gate_absent, prov_spec. destruct (may_create pol u) eqn:Em; [|apply andb_false_r].
  rewrite andb_true_r. unfold provision. rewrite (home_absent_lookup _ _ Hs).
  destruct (lookup s [u]) eqn:E.
  - rewrite (home_absent_lookup _ _ Hs), E. reflexivity.
  - destruct (provision_unchecked_absent pre s u Hs E) as [Hs' [hc Hl]].
    rewrite (home_absent_lookup _ _ Hs'), Hl. reflexivity.
Qed.

Lemma prov_spec_noop pre pol u s : gate_absent pol u s = false -> prov_spec pre pol (Some u) s = s.
Proof.
  unfold gate_absent, prov_spec, provision. intro H. destruct (may_create pol u); [|reflexivity].
  rewrite andb_true_r in H. rewrite H. reflexivity.
Qed.

(* ------------------------------------------------------------------ requests that do not remove a home *)
(* the only requests that can make the collection [u] disappear: DELETE of the root or of [u] itself *)
Definition spares_home (u : name) (r : request) : Prop :=
  match r with RDelete p _ => p <> [] /\ p <> [u] | _ => True end.

Lemma prefix_of_single p u : is_prefix p [u] = true -> p = [] \/ p = [u].
Proof.
  destruct p as [|x [|y p]]; cbn; intro H; auto.
  - right. rewrite andb_true_r in H. apply N.eqb_eq in H. subst. reflexivity.
  - rewrite andb_false_r in H. discriminate.
Qed.

Definition present (s : store) (q : path) : Prop := lookup s q <> None.

Lemma present_set s p c q : present s q -> present (set_coll s p c) q.
Proof. unfold present. rewrite lookup_set. destruct (path_eqb p q); [discriminate|auto]. Qed.

Lemma present_replace s p c u : p <> [] -> present s [u] -> present (set_coll (del_subtree s p) p c) [u].
Proof.
  unfold present. intros Hne H. rewrite lookup_set. destruct (path_eqb p [u]) eqn:E; [discriminate|].
  rewrite lookup_del_subtree. destruct (is_prefix p [u]) eqn:Ep; [|exact H].
  destruct (prefix_of_single _ _ Ep) as [->| ->]; [contradiction|]. rewrite path_eqb_refl in E. discriminate.
Qed.

Lemma hbody_keeps_home cfg pol s r u :
  spares_home u r -> present s [u] -> present (fst (hbody cfg pol s r)) [u].
Proof.
  intros Hsp Hp. destruct r; cbn [hbody fst]; try exact Hp.
  - (* PUT *)
    destruct (do_put cfg pol s p ct b if_match if_none_match_star) as [s' r] eqn:E. cbn [fst].
    destruct (do_put_cases _ _ _ _ _ _ _ _ _ _ E) as [[-> _]|[(pc & tg & objs & Hroot & _ & _ & _ & -> & _)|(pc & o & H)]].
    + exact Hp.
    + apply present_replace; auto. intros ->. discriminate.
    + destruct H as (_ & _ & _ & _ & _ & -> & _). apply present_set. exact Hp.
  - (* DELETE *)
    destruct Hsp as [Hn1 Hn2]. unfold do_delete.
    repeat (brk; cbn [fst]; try exact Hp).
    + destruct p; [contradiction|discriminate].
    + unfold present. rewrite lookup_del_subtree. destruct (is_prefix p [u]) eqn:Ep; [|exact Hp].
      destruct (prefix_of_single _ _ Ep); contradiction.
    + apply present_set. exact Hp.
  - (* MOVE *)
    destruct (do_move pol s p (negb dest_ok) false to overwrite) as [s' r] eqn:E. cbn [fst].
    destruct (do_move_cases _ _ _ _ _ _ _ _ _ E) as [[-> _]|(fc & o & toc & tc & _ & _ & _ & _ & _ & _ & -> & _)].
    + exact Hp.
    + apply present_set. apply present_set. exact Hp.
  - unfold do_mkcol. repeat (brk; cbn [fst]; try exact Hp); apply present_set; exact Hp.
  - unfold do_mkcalendar. repeat (brk; cbn [fst]; try exact Hp); apply present_set; exact Hp.
  - unfold do_proppatch. repeat (brk; cbn [fst]; try exact Hp); apply present_set; exact Hp.
Qed.

(* ------------------------------------------------------------------ the gate theorem for batches of handlers *)
Lemma fold_left_ext {A B} (f g : A -> B -> A) l a : (forall x y, f x y = g x y) -> fold_left f l a = fold_left g l a.
Proof. intro H. revert a. induction l; intros; simpl; auto. rewrite H. auto. Qed.

Lemma spec_serial_handle pre cfg reqs order s0 :
  spec_serial (map (breq_greq pre cfg) reqs) order s0 = serial_handle pre cfg reqs order s0.
Proof.
  unfold spec_serial, serial_handle. apply fold_left_ext. intros acc i.
  unfold spec_step, serial_handle_step. rewrite nth_error_map.
  destruct (nth_error reqs i) as [[[u pol] r]|]; [|reflexivity]. cbn [option_map].
  unfold breq_greq, req_greq. cbn [g_H g_P fst snd]. rewrite run_prog_hsec. reflexivity.
Qed.

Lemma Forall2_map_same {A B C} (Rl : B -> C -> Prop) (f : A -> B) (g : A -> C) l :
  (forall x, In x l -> Rl (f x) (g x)) -> Forall2 Rl (map f l) (map g l).
Proof. induction l; simpl; intro H; constructor; auto. Qed.

Lemma batch_shapes pre cfg reqs :
  Forall2 (fun p q => norm p = gprog q \/ (norm p = norm (g_H q) /\ forall s, g_absent q s = false))
          (map (breq_prog true pre cfg) reqs) (map (breq_greq pre cfg) reqs).
Proof.
  apply Forall2_map_same. intros [[[u|] pol] r] _.
  - left. reflexivity.
  - right. split; reflexivity.
Qed.

Lemma gate_absent_stable cfg pol' pol u s r :
  store_inv s -> spares_home u r -> gate_absent pol u s = false ->
  gate_absent pol u (fst (hbody cfg pol' s r)) = false.
Proof.
  intros Hs Hsp Hab. unfold gate_absent in *. destruct (may_create pol u); [|apply andb_false_r].
  rewrite andb_true_r in *. pose proof (hbody_inv cfg pol' s r Hs) as Hs'.
  rewrite (home_absent_lookup _ _ Hs) in Hab. rewrite (home_absent_lookup _ _ Hs').
  pose proof (hbody_keeps_home cfg pol' s r u Hsp) as Hk. unfold present in Hk.
  destruct (lookup s [u]) eqn:E; [|discriminate].
  destruct (lookup (fst (hbody cfg pol' s r)) [u]); [reflexivity|]. exfalso. apply Hk; [discriminate|reflexivity].
Qed.

Ltac in_batch H := apply in_map_iff in H; destruct H as [[[? ?] ?] [<- H]].

(* THEOREM (single principal).  Any number of concurrent requests of ONE user -- including the very first
   ones, with predefined collections configured -- through the REPAIRED gate: equivalent to running the
   specification [handle_pre] one request at a time, in an order that respects real time. *)
Theorem fixed_gate_single_principal pre cfg u pol (rq : list request) s0 sch c' rs :
  let reqs := map (fun r => (Some u, pol, r)) rq in
  store_inv s0 ->
  (forall r, In r rq -> spares_home u r) ->
  exec sch (init s0 (map (breq_prog true pre cfg) reqs)) = Some c' -> finished c' rs ->
  exists order,
    Permutation order (seq 0 (length rq)) /\
    subseq order sch /\
    (forall a b, In a order -> In b order -> a <> b -> precedes sch a b -> before a b order) /\
    fst (serial_handle pre cfg reqs order s0) = fst c' /\
    map fst (snd (serial_handle pre cfg reqs order s0)) = order /\
    (forall i r, In (i, r) (snd (serial_handle pre cfg reqs order s0)) -> nth_error rs i = Some r).
Proof.
  intros reqs Hs0 Hsp He Hfin.
  assert (Hq : forall q, In q (map (breq_greq pre cfg) reqs) ->
                         exists r, In r rq /\ q = req_greq pre cfg (Some u) pol r).
  { intros q Hq. apply in_map_iff in Hq. destruct Hq as [b [<- Hb]]. unfold reqs in Hb.
    apply in_map_iff in Hb. destruct Hb as [r [<- Hr]]. exists r. split; auto. }
  destruct (gate_serializable store response store oid (map (breq_greq pre cfg) reqs)
              (map (breq_prog true pre cfg) reqs) s0 store_inv) with (sch := sch) (c' := c') (rs := rs)
    as [order H]; auto.
  - apply batch_shapes.
  - intros q Hi. destruct (Hq q Hi) as [r [_ ->]]. apply hsec_wf.
  - intros q Hi. destruct (Hq q Hi) as [r [_ ->]]. apply hsec_one.
  - unfold oid. intros q s s' _ ->. reflexivity.
  - unfold oid. intros q s s' _ ->. reflexivity.
  - unfold oid. intros q s Hi. destruct (Hq q Hi) as [r [_ ->]]. reflexivity.
  - unfold oid. intros s s' ->. auto.
  - intros q s Hi Hs. destruct (Hq q Hi) as [r [_ ->]]. apply prov_spec_inv. auto.
  - intros q s Hi Hs. destruct (Hq q Hi) as [r [_ ->]]. cbn [req_greq g_H]. rewrite run_prog_hsec. apply hbody_inv. auto.
  - intros q q' s Hi Hi' _. destruct (Hq q Hi) as [r [_ ->]]. destruct (Hq q' Hi') as [r' [_ ->]]. reflexivity.
  - intros q q' s Hi Hi' _ _. destruct (Hq q Hi) as [r [_ ->]]. destruct (Hq q' Hi') as [r' [_ ->]]. reflexivity.
  - intros q s Hi _ Hab. destruct (Hq q Hi) as [r [_ ->]]. unfold oid. cbn [req_greq g_P g_absent] in *.
    apply prov_spec_noop. auto.
  - intros q s Hi Hs. destruct (Hq q Hi) as [r [_ ->]]. cbn [req_greq g_P g_absent]. apply prov_spec_present. auto.
  - intros q q' s Hi Hi' Hs Hab. destruct (Hq q Hi) as [r [_ ->]]. destruct (Hq q' Hi') as [r' [Hr' ->]].
    cbn [req_greq g_H g_absent] in *. rewrite run_prog_hsec. apply gate_absent_stable; auto.
  - rewrite !map_length in H. rewrite spec_serial_handle in H. unfold oid in H. exists order.
    replace (length rq) with (length reqs) by (unfold reqs; apply map_length). exact H.
Qed.

(* THEOREM (stable homes).  Requests of any number of users (and anonymous ones) whose home collections
   exist (or who may not create one), none of which removes a home: the gate's check always finds the home,
   and the batch is equivalent to one-at-a-time execution of [handle_pre] in the order of the handlers'
   lock acquisitions. *)
Definition homes_ok (reqs : list breq) (s : store) : Prop :=
  store_inv s /\ forall b u, In b reqs -> fst (fst b) = Some u -> gate_absent (snd (fst b)) u s = false.

Theorem fixed_gate_stable_homes pre cfg (reqs : list breq) s0 sch c' rs :
  homes_ok reqs s0 ->
  (forall b b' u, In b reqs -> In b' reqs -> fst (fst b) = Some u -> spares_home u (snd b')) ->
  exec sch (init s0 (map (breq_prog true pre cfg) reqs)) = Some c' -> finished c' rs ->
  exists order,
    Permutation order (seq 0 (length reqs)) /\
    subseq order sch /\
    (forall a b, In a order -> In b order -> a <> b -> precedes sch a b -> before a b order) /\
    fst (serial_handle pre cfg reqs order s0) = fst c' /\
    map fst (snd (serial_handle pre cfg reqs order s0)) = order /\
    (forall i r, In (i, r) (snd (serial_handle pre cfg reqs order s0)) -> nth_error rs i = Some r).
Proof.
  intros H0 Hsp He Hfin.
  assert (Hq : forall q, In q (map (breq_greq pre cfg) reqs) -> exists b, In b reqs /\ q = breq_greq pre cfg b).
  { intros q Hq. apply in_map_iff in Hq. destruct Hq as [b [<- Hb]]. eauto. }
  assert (Habs : forall b s, In b reqs -> homes_ok reqs s -> g_absent (breq_greq pre cfg b) s = false).
  { intros [[[u|] pol] r] s Hb [_ Hh]; cbn; [|reflexivity]. apply (Hh _ _ Hb eq_refl). }
  assert (HP : forall b s, In b reqs -> homes_ok reqs s -> g_P (breq_greq pre cfg b) s = s).
  { intros [[[u|] pol] r] s Hb [_ Hh]; cbn; [|reflexivity]. apply prov_spec_noop. apply (Hh _ _ Hb eq_refl). }
  assert (HH : forall b s, In b reqs -> homes_ok reqs s -> homes_ok reqs (fst (run_prog (g_H (breq_greq pre cfg b)) s))).
  { intros [[ub polb] rb] s Hb [Hs Hh]. cbn [breq_greq req_greq g_H fst snd]. rewrite run_prog_hsec. split.
    - apply hbody_inv; auto.
    - intros b' u Hb' Hu. apply gate_absent_stable; auto.
      apply (Hsp b' (ub, polb, rb) u Hb' Hb Hu). }
  destruct (gate_serializable store response store oid (map (breq_greq pre cfg) reqs)
              (map (breq_prog true pre cfg) reqs) s0 (homes_ok reqs)) with (sch := sch) (c' := c') (rs := rs)
    as [order H]; auto.
  - apply batch_shapes.
  - intros q Hi. destruct (Hq q Hi) as [[[u pol] r] [_ ->]]. apply hsec_wf.
  - intros q Hi. destruct (Hq q Hi) as [[[u pol] r] [_ ->]]. apply hsec_one.
  - unfold oid. intros q s s' _ ->. reflexivity.
  - unfold oid. intros q s s' _ ->. reflexivity.
  - unfold oid. intros q s Hi. destruct (Hq q Hi) as [[[u pol] r] [_ ->]]. reflexivity.
  - unfold oid. intros s s' ->. auto.
  - intros q s Hi Hs. destruct (Hq q Hi) as [b [Hb ->]]. rewrite HP; auto.
  - intros q s Hi Hs. destruct (Hq q Hi) as [b [Hb ->]]. apply HH; auto.
  - intros q q' s Hi Hi' Hs. destruct (Hq q Hi) as [b [Hb ->]]. destruct (Hq q' Hi') as [b' [Hb' ->]].
    rewrite !Habs; auto.
  - intros q q' s Hi Hi' Hs Hab. destruct (Hq q Hi) as [b [Hb ->]]. rewrite Habs in Hab; auto. discriminate.
  - intros q s Hi Hs _. destruct (Hq q Hi) as [b [Hb ->]]. unfold oid. rewrite HP; auto.
  - intros q s Hi Hs. destruct (Hq q Hi) as [b [Hb ->]]. rewrite HP; auto.
  - intros q q' s Hi Hi' Hs _. destruct (Hq q Hi) as [b [Hb ->]]. destruct (Hq q' Hi') as [b' [Hb' ->]].
    apply Habs; auto.
  - rewrite !map_length in H. rewrite spec_serial_handle in H. unfold oid in H. exists order. exact H.
Qed.

(* ------------------------------------------------------------------ C09_serializable instantiated with [handle] *)
(* requests that do not pass the gate (no user): one critical section each, [handle] is the specification *)
Theorem handlers_serializable cfg (reqs : list (policy * request)) s0 sch c' rs :
  let progs := map (fun pr => hsec cfg (fst pr) (snd pr)) reqs in
  exec sch (init s0 progs) = Some c' -> finished c' rs ->
  let order := acq_order sch (init s0 progs) in
  Permutation order (seq 0 (length reqs)) /\
  subseq order sch /\
  (forall a b, In a order -> In b order -> a <> b -> precedes sch a b -> before a b order) /\
  fst (serial progs order s0) = fst c' /\
  map fst (snd (serial progs order s0)) = order /\
  (forall i r, In (i, r) (snd (serial progs order s0)) -> nth_error rs i = Some r) /\
  (forall i pr s, nth_error reqs i = Some pr ->
     run_prog (nth i progs (Ret (S500, PNone))) s = handle cfg (fst pr) None s (snd pr)).
Proof.
  intros progs He Hfin order.
  assert (Hwf : Forall (wf oid None) progs).
  { apply Forall_forall. intros p Hp. apply in_map_iff in Hp. destruct Hp as [pr [<- _]]. apply hsec_wf. }
  assert (Hone : Forall (one_section (St:=store) (Resp:=response)) progs).
  { apply Forall_forall. intros p Hp. apply in_map_iff in Hp. destruct Hp as [pr [<- _]]. apply hsec_one. }
  destruct (serializable store response store oid progs s0 sch c' rs Hwf Hone He Hfin) as (H1 & H2 & H3 & H4 & H5 & H6).
  unfold progs in H1. rewrite map_length in H1.
  repeat (split; [assumption|]).
  intros i pr s Hn. unfold progs.
  rewrite (nth_indep _ _ (hsec cfg (fst pr) (snd pr))).
  - rewrite (map_nth (fun pr => hsec cfg (fst pr) (snd pr)) reqs pr i). 
    rewrite (nth_error_nth _ _ _ Hn). rewrite run_prog_hsec. destruct pr as [pol r]. destruct r; reflexivity.
  - rewrite map_length. apply nth_error_Some. congruence.
Qed.

(* ------------------------------------------------------------------ the unchanged gate is refuted (DESIGN F8) *)
Definition rf_cfg : config := mkConfig true true.
Definition rf_pre : predef := [(20, TCal, [(1, 1)])].                        (* one predefined calendar "c0" *)
Definition rf_pol : policy := pol_of_table [([10], [82; 87]); ([10; 20], [114; 119])].   (* owner_only: RW, rw *)
Definition rf_event : obj := mkObj 0 CEvent 0.
Definition rf_reqs : list breq :=
  [ (Some 10, rf_pol, RPut [10; 20; 100] CTNone (BCal [rf_event]) CNone false);     (* A: PUT an event *)
    (Some 10, rf_pol, RPropfind [10] true) ].                                       (* B: a PROPFIND of the same user *)
(* B checks for the home (absent); A runs completely (creates the home, stores the event, answers 201);
   B takes the exclusive lock and creates home and predefined calendar again; B lists its home. *)
Definition rf_sched : list nat :=
  ([1;1;1;1] ++ [0;0;0;0; 0;0;0; 0;0;0;0] ++ [1;1;1; 1;1;1;1])%nat.

Theorem home_creation_refuted :
  let progs := map (breq_prog false rf_pre rf_cfg) rf_reqs in
  exists c' rs,
    exec rf_sched (init empty_store progs) = Some c' /\ finished c' rs /\
    (* A's write was acknowledged ... *)
    nth_error rs 0 = Some (S201, PEtag (EtItem rf_event)) /\
    (* ... and is gone at the end, although the only other request is a read *)
    resolve (fst c') [10; 20; 100] = NNothing /\
    (* no one-at-a-time execution explains it *)
    ~ exists order, Permutation order (seq 0 2) /\
        fst (serial_handle rf_pre rf_cfg rf_reqs order empty_store) = fst c' /\
        (forall i r, In (i, r) (snd (serial_handle rf_pre rf_cfg rf_reqs order empty_store)) -> nth_error rs i = Some r).
Proof.
  intro progs. eexists. eexists. split; [vm_compute; reflexivity|]. split.
  { unfold finished. cbn [snd]. instantiate (1 := [_; _]). cbn [map]. reflexivity. }
  split; [reflexivity|]. split; [vm_compute; reflexivity|].
  intros [order [Hp [Hst _]]]. cbn [seq] in Hp. apply Permutation_sym in Hp.
  apply Permutation_length_2_inv in Hp. destruct Hp as [-> | ->]; vm_compute in Hst; discriminate Hst.
Qed.

(* with the re-check the same schedule is harmless: the event survives *)
Example home_creation_repaired :
  let progs := map (breq_prog true rf_pre rf_cfg) rf_reqs in
  exists c', exec rf_sched (init empty_store progs) = Some c' /\
             exists pc, resolve (fst c') [10; 20; 100] = NItem pc rf_event.
Proof. intro progs. eexists. split; [vm_compute; reflexivity|]. eexists. vm_compute. reflexivity. Qed.

(* ------------------------------------------------------------------ gate and handler are separate transactions *)
(* Also with the repaired gate a request is not ONE transaction: the home check of B, then a DELETE of the home
   by another client of the same user, then B's handler.  B answers 409 although in both one-at-a-time
   orders it answers 201.  (No data is lost and no partial state is visible; the unit of atomicity is the
   critical section.) *)
Definition sp_pol : policy := pol_of_table [([10], [82; 87]); ([10; 21], [114; 119])].
Definition sp_store : store := set_coll empty_store [10] (mkColl TNone [] []).     (* the home of user 10 exists *)
Definition sp_reqs : list breq :=
  [ (Some 10, sp_pol, RDelete [10] CNone);               (* A: DELETE the home collection *)
    (Some 10, sp_pol, RMkcalendar [10; 21] XNone) ].      (* B: MKCALENDAR below it *)
Definition sp_sched : list nat := ([1;1;1;1] ++ [0;0;0;0; 0;0;0;0] ++ [1;1;1;1])%nat.

Theorem gate_handler_split_refuted :
  let progs := map (breq_prog true [] rf_cfg) sp_reqs in
  exists c' rs,
    store_inv sp_store /\
    exec sp_sched (init sp_store progs) = Some c' /\ finished c' rs /\
    nth_error rs 1 = Some (S409, PNone) /\
    ~ exists order, Permutation order (seq 0 2) /\
        (forall i r, In (i, r) (snd (serial_handle [] rf_cfg sp_reqs order sp_store)) -> nth_error rs i = Some r).
Proof.
  intro progs. eexists. eexists. split.
  { apply (store_inv_add empty_store [10] _ (mkColl TNone [] [])); try reflexivity.
    - apply empty_store_inv.
    - discriminate.
    - apply coll_inv_empty. }
  split; [vm_compute; reflexivity|]. split.
  { unfold finished. cbn [snd]. instantiate (1 := [_; _]). cbn [map]. reflexivity. }
  split; [reflexivity|].
  intros [order [Hp Hr]]. cbn [seq] in Hp. apply Permutation_sym in Hp.
  apply Permutation_length_2_inv in Hp. destruct Hp as [-> | ->].
  - specialize (Hr 1%nat (S201, PNone)). vm_compute in Hr. assert (E : Some (S409, PNone) = Some (S201, PNone)) by (apply Hr; right; left; reflexivity). discriminate E.
  - specialize (Hr 1%nat (S201, PNone)). vm_compute in Hr. assert (E : Some (S409, PNone) = Some (S201, PNone)) by (apply Hr; left; reflexivity). discriminate E.
Qed.

(* ------------------------------------------------------------------ the hypotheses are satisfiable *)
(* a state with a cache that readers write: the data is the first component *)
Definition ex_st := (nat * nat)%type.
Definition ex_reader : prog ex_st nat :=
  Tau (Acq Rd (Step (fun s => (fst s, S (snd s))) (fun s => Rel (Ret (fst s))))).       (* read, bump the cache *)
Definition ex_writer (v : nat) : prog ex_st nat :=
  Acq Wr (Step (fun s => (fst s + v, 0)%nat) (fun s => Rel (Tau (Ret (fst s))))).      (* add v, wipe the cache *)

Example serializable_hypotheses_hold :
  Forall (wf (fun s : ex_st => fst s) None) [ex_reader; ex_writer 5; ex_reader] /\
  Forall (one_section (St:=ex_st) (Resp:=nat)) [ex_reader; ex_writer 5; ex_reader] /\
  (* an admitted schedule in which the two readers overlap each other *)
  exists c', exec [0; 0; 2; 0; 2; 2; 0; 2; 1; 1; 1; 1]%nat (init (3, 0)%nat [ex_reader; ex_writer 5; ex_reader]) = Some c' /\
             finished c' [3; 3; 3]%nat.
Proof.
  split; [|split].
  - assert (Hr : wf (fun s : ex_st => fst s) None ex_reader).
    { cbn. split; [reflexivity|]. split; [eexists; split; [reflexivity|]; intros _ s; reflexivity|]. split.
      - intros [a b] [c d]; cbn; intros ->; split; reflexivity.
      - intros s. split; [discriminate|reflexivity]. }
    assert (Hw : forall v, wf (fun s : ex_st => fst s) None (ex_writer v)).
    { intro v. cbn. split; [reflexivity|]. split; [eexists; split; [reflexivity|]; discriminate|]. split.
      - intros [a b] [c d]; cbn; intros ->; split; reflexivity.
      - intros s. split; [discriminate|reflexivity]. }
    constructor; [exact Hr|]. constructor; [apply Hw|]. constructor; [exact Hr|]. constructor.
  - assert (H1 : one_section ex_reader) by (eexists; eexists; split; [reflexivity|]; intros s; eexists; reflexivity).
    assert (H2 : one_section (ex_writer 5)) by (eexists; eexists; split; [reflexivity|]; intros s; eexists; reflexivity).
    constructor; [exact H1|]. constructor; [exact H2|]. constructor; [exact H1|]. constructor.
  - eexists. split; [vm_compute; reflexivity|]. reflexivity.
Qed.

Example gate_hypotheses_hold :
  store_inv empty_store /\ (forall r, In r [RPut [10; 20; 100] CTNone (BCal [rf_event]) CNone false; RPropfind [10] true] -> spares_home 10 r) /\
  exists c', exec rf_sched (init empty_store (map (breq_prog true rf_pre rf_cfg) rf_reqs)) = Some c'.
Proof.
  split; [apply empty_store_inv|]. split.
  - intros r [<-|[<-|[]]]; exact I.
  - eexists. vm_compute. reflexivity.
Qed.

(* ------------------------------------------------------------------ the full request-level statement *)
(* "every batch of requests through the (repaired) gate is equivalent to some one-at-a-time execution":
   NOT true -- see gate_handler_split_refuted; true for the classes of fixed_gate_single_principal and
   fixed_gate_stable_homes. *)
Definition request_level_full : Prop :=
  forall pre cfg (reqs : list breq) s0 sch c' rs,
    store_inv s0 ->
    exec sch (init s0 (map (breq_prog true pre cfg) reqs)) = Some c' -> finished c' rs ->
    exists order, Permutation order (seq 0 (length reqs)) /\
                  fst (serial_handle pre cfg reqs order s0) = fst c' /\
                  (forall i r, In (i, r) (snd (serial_handle pre cfg reqs order s0)) -> nth_error rs i = Some r).

Theorem request_level_refuted : ~ request_level_full.
Proof.
  intro Hfull. destruct gate_handler_split_refuted as [c' [rs [Hinv [He [Hfin [_ Hno]]]]]].
  destruct (Hfull [] rf_cfg sp_reqs sp_store sp_sched c' rs Hinv He Hfin) as [order [Hp [_ Hr]]].
  apply Hno. exists order. split; auto.
Qed.

(* ------------------------------------------------------------------ why the defect needs predefined collections *)
(* With NO predefined collections the w section of the unchanged gate is create_collection(home) alone = makedirs,
   which does nothing when the home exists: the missing re-check is harmless and the unchanged gate is
   serialisable too (one user who may create the home, any number of requests, any initial store). *)
Lemma create_plain_is_provision pol u s :
  store_inv s -> may_create pol u = true -> provision_unchecked [] s u = prov_spec [] pol (Some u) s.
Proof.
  intros Hs Hm. unfold prov_spec, provision, provision_unchecked. rewrite Hm. cbn [create_predefined fold_left].
  rewrite (home_absent_lookup _ _ Hs). unfold create_plain. destruct (lookup s [u]); reflexivity.
Qed.

Definition unfixed_greq (cfg : config) (u : name) (pol : policy) (r : request) : greq store response :=
  mkG (gate_absent pol u) (fun s => provision_unchecked [] s u) (fun s => s) (hsec cfg pol r).

Lemma unfixed_spec_serial cfg u pol rq : may_create pol u = true -> forall order acc,
  store_inv (fst acc) ->
  fold_left (spec_step (map (unfixed_greq cfg u pol) rq)) order acc =
  fold_left (serial_handle_step [] cfg (map (fun r => (Some u, pol, r)) rq)) order acc /\
  store_inv (fst (fold_left (spec_step (map (unfixed_greq cfg u pol) rq)) order acc)).
Proof.
  intros Hm. induction order as [|i order IH]; intros acc Hs; cbn [fold_left]; [split; auto|].
  assert (E : spec_step (map (unfixed_greq cfg u pol) rq) acc i =
              serial_handle_step [] cfg (map (fun r => (Some u, pol, r)) rq) acc i).
  { unfold spec_step, serial_handle_step. rewrite !nth_error_map. destruct (nth_error rq i) as [r|]; [|reflexivity].
    cbn [option_map unfixed_greq g_H g_P fst snd]. rewrite run_prog_hsec. unfold handle_pre.
    rewrite (create_plain_is_provision pol u _ Hs Hm). reflexivity. }
  rewrite E. apply IH. unfold serial_handle_step. rewrite nth_error_map. destruct (nth_error rq i) as [r|]; [|exact Hs].
  cbn [option_map fst snd]. unfold handle_pre. apply hbody_inv. apply prov_spec_inv. exact Hs.
Qed.

Theorem unchanged_gate_without_predefined cfg u pol (rq : list request) s0 sch c' rs :
  let reqs := map (fun r => (Some u, pol, r)) rq in
  store_inv s0 -> may_create pol u = true ->
  (forall r, In r rq -> spares_home u r) ->
  exec sch (init s0 (map (breq_prog false [] cfg) reqs)) = Some c' -> finished c' rs ->
  exists order,
    Permutation order (seq 0 (length rq)) /\
    subseq order sch /\
    (forall a b, In a order -> In b order -> a <> b -> precedes sch a b -> before a b order) /\
    fst (serial_handle [] cfg reqs order s0) = fst c' /\
    map fst (snd (serial_handle [] cfg reqs order s0)) = order /\
    (forall i r, In (i, r) (snd (serial_handle [] cfg reqs order s0)) -> nth_error rs i = Some r).
Proof.
  intros reqs Hs0 Hm Hsp He Hfin.
  set (qs := map (unfixed_greq cfg u pol) rq).
  assert (Hq : forall q, In q qs -> exists r, In r rq /\ q = unfixed_greq cfg u pol r).
  { intros q Hq. apply in_map_iff in Hq. destruct Hq as [r [<- Hr]]. eauto. }
  assert (Hprogs : map (breq_prog false [] cfg) reqs = map (fun r => req_prog false [] cfg (Some u) pol r) rq).
  { unfold reqs. rewrite map_map. reflexivity. }
  rewrite Hprogs in He.
  assert (HP : forall s, store_inv s -> provision_unchecked [] s u = prov_spec [] pol (Some u) s)
    by (intros; apply create_plain_is_provision; auto).
  destruct (gate_serializable store response store oid qs
              (map (fun r => req_prog false [] cfg (Some u) pol r) rq) s0 store_inv) with (sch := sch) (c' := c') (rs := rs)
    as [order H]; auto.
  - unfold qs. apply Forall2_map_same. intros r _. left. reflexivity.
  - intros q Hi. destruct (Hq q Hi) as [r [_ ->]]. apply hsec_wf.
  - intros q Hi. destruct (Hq q Hi) as [r [_ ->]]. apply hsec_one.
  - unfold oid. intros q s s' _ ->. reflexivity.
  - unfold oid. intros q s s' _ ->. reflexivity.
  - unfold oid. intros q s Hi. destruct (Hq q Hi) as [r [_ ->]]. reflexivity.
  - unfold oid. intros s s' ->. auto.
  - intros q s Hi Hs. destruct (Hq q Hi) as [r [_ ->]]. cbn [unfixed_greq g_P]. rewrite HP by auto. apply prov_spec_inv. auto.
  - intros q s Hi Hs. destruct (Hq q Hi) as [r [_ ->]]. cbn [unfixed_greq g_H]. rewrite run_prog_hsec. apply hbody_inv. auto.
  - intros q q' s Hi Hi' _. destruct (Hq q Hi) as [r [_ ->]]. destruct (Hq q' Hi') as [r' [_ ->]]. reflexivity.
  - intros q q' s Hi Hi' _ _. destruct (Hq q Hi) as [r [_ ->]]. destruct (Hq q' Hi') as [r' [_ ->]]. reflexivity.
  - intros q s Hi Hs Hab. destruct (Hq q Hi) as [r [_ ->]]. unfold oid. cbn [unfixed_greq g_P g_absent] in *.
    rewrite HP by auto. apply prov_spec_noop. auto.
  - intros q s Hi Hs. destruct (Hq q Hi) as [r [_ ->]]. cbn [unfixed_greq g_P g_absent]. rewrite HP by auto.
    apply prov_spec_present. auto.
  - intros q q' s Hi Hi' Hs Hab. destruct (Hq q Hi) as [r [_ ->]]. destruct (Hq q' Hi') as [r' [Hr' ->]].
    cbn [unfixed_greq g_H g_absent] in *. rewrite run_prog_hsec. apply gate_absent_stable; auto.
  - rewrite map_length in H. unfold spec_serial in H.
    destruct (unfixed_spec_serial cfg u pol rq Hm order (s0, []) Hs0) as [E _]. fold qs in E. rewrite E in H.
    unfold oid in H. exists order. exact H.
Qed.
