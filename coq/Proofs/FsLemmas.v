(* Basic facts about Model/Fs.v: decidable equality of names and paths, prefixes, the classification
   of paths, the frame property of steps, preservation of the weak file-system invariant. *)
From Coq Require Import List NArith Bool Lia PeanoNat.
Import ListNotations.
Require Import RV.Model.Fs.
Open Scope N_scope.

(* ------------------------------------------------------------------ equality *)
Lemma name_eqb_eq : forall a b, name_eqb a b = true <-> a = b.
Proof.
  intros a b; split.
  - destruct a, b; cbn; intro H; try discriminate; try reflexivity;
      apply N.eqb_eq in H; subst; reflexivity.
  - intros ->. destruct b; cbn; try reflexivity; apply N.eqb_refl.
Qed.

Lemma name_eqb_refl : forall a, name_eqb a a = true.
Proof. intro a. apply name_eqb_eq. reflexivity. Qed.

Lemma path_eqb_eq : forall p q, path_eqb p q = true <-> p = q.
Proof.
  induction p as [|x p IH]; intros [|y q]; cbn; split; intro H; try discriminate; try reflexivity.
  - apply andb_true_iff in H. destruct H as [H1 H2]. apply name_eqb_eq in H1. apply IH in H2. subst. reflexivity.
  - inversion H; subst. rewrite name_eqb_refl. cbn. apply IH. reflexivity.
Qed.

Lemma path_eqb_refl : forall p, path_eqb p p = true.
Proof. intro p. apply path_eqb_eq. reflexivity. Qed.

Lemma path_eqb_neq : forall p q, path_eqb p q = false <-> p <> q.
Proof.
  intros p q. split.
  - intros H E. apply path_eqb_eq in E. congruence.
  - intro H. destruct (path_eqb p q) eqn:E; [apply path_eqb_eq in E; contradiction | reflexivity].
Qed.

Lemma path_eqb_sym : forall p q, path_eqb p q = path_eqb q p.
Proof.
  intros p q. destruct (path_eqb p q) eqn:E.
  - apply path_eqb_eq in E. subst. symmetry. apply path_eqb_refl.
  - symmetry. apply path_eqb_neq. apply path_eqb_neq in E. congruence.
Qed.

(* ------------------------------------------------------------------ prefixes *)
Lemma prefix_spec : forall a q, prefix a q = true <-> exists r, q = a ++ r.
Proof.
  induction a as [|x a IH]; intros q; cbn.
  - split; [intros _; exists q; reflexivity | reflexivity].
  - destruct q as [|y q].
    + split; [discriminate | intros [r H]; discriminate].
    + split.
      * intro H. apply andb_true_iff in H. destruct H as [H1 H2]. apply name_eqb_eq in H1. apply IH in H2.
        destruct H2 as [r ->]. subst. exists r. reflexivity.
      * intros [r H]. inversion H; subst. rewrite name_eqb_refl. cbn. apply IH. exists r. reflexivity.
Qed.

Lemma prefix_app : forall a r, prefix a (a ++ r) = true.
Proof. intros. apply prefix_spec. exists r. reflexivity. Qed.

Lemma prefix_refl : forall a, prefix a a = true.
Proof. intro a. apply prefix_spec. exists []. rewrite app_nil_r. reflexivity. Qed.

Lemma strip_app : forall a r, strip a (a ++ r) = r.
Proof. intros a r. unfold strip. induction a; cbn; auto. Qed.

Lemma prefix_strip : forall a q, prefix a q = true -> q = a ++ strip a q.
Proof. intros a q H. apply prefix_spec in H. destruct H as [r ->]. rewrite strip_app. reflexivity. Qed.

Lemma prefix_trans : forall a b c, prefix a b = true -> prefix b c = true -> prefix a c = true.
Proof.
  intros a b c H1 H2. apply prefix_spec in H1, H2. destruct H1 as [r1 ->], H2 as [r2 ->].
  rewrite <- app_assoc. apply prefix_app.
Qed.

Lemma prefix_false_app : forall a q r, prefix a (q ++ r) = false -> prefix a q = false.
Proof.
  intros a q r H. destruct (prefix a q) eqn:E; [|reflexivity].
  apply prefix_spec in E. destruct E as [r' ->]. rewrite <- app_assoc in H. rewrite prefix_app in H. discriminate.
Qed.

(* two prefixes of the same path are comparable *)
Lemma prefix_comparable : forall a b q, prefix a q = true -> prefix b q = true -> prefix a b = true \/ prefix b a = true.
Proof.
  induction a as [|x a IH]; intros b q Ha Hb.
  - left. reflexivity.
  - destruct b as [|y b]; [right; reflexivity|].
    destruct q as [|z q]; [discriminate|]. cbn in Ha, Hb.
    apply andb_true_iff in Ha, Hb. destruct Ha as [Ha1 Ha2], Hb as [Hb1 Hb2].
    apply name_eqb_eq in Ha1, Hb1. subst. cbn. rewrite name_eqb_refl. cbn. eapply IH; eauto.
Qed.

Lemma prefix_snoc : forall b p x, prefix b (p ++ [x]) = true -> p ++ [x] = b \/ prefix b p = true.
Proof.
  intros b p x H. apply prefix_spec in H. destruct H as [r H].
  destruct (rev r) as [|y r'] eqn:E.
  - assert (r = []) by (apply (f_equal (@rev name)) in E; rewrite rev_involutive in E; exact E).
    subst. rewrite app_nil_r in H. left. exact H.
  - assert (r = rev r' ++ [y]) by (apply (f_equal (@rev name)) in E; rewrite rev_involutive in E; cbn in E; exact E).
    subst. rewrite app_assoc in H. apply app_inj_tail in H. destruct H as [H _]. right. rewrite H. apply prefix_app.
Qed.

Lemma strip_snoc : forall b p x, prefix b p = true -> strip b (p ++ [x]) = strip b p ++ [x].
Proof.
  intros b p x H. apply prefix_spec in H. destruct H as [r ->]. rewrite <- app_assoc. rewrite !strip_app. reflexivity.
Qed.

Lemma parent_snoc : forall p x, parent (p ++ [x]) = p.
Proof. intros. unfold parent. apply removelast_last. Qed.

Lemma path_snoc_cases : forall p : path, p = [] \/ exists q x, p = q ++ [x].
Proof.
  intro p. destruct (rev p) as [|x r] eqn:E.
  - left. apply (f_equal (@rev name)) in E. rewrite rev_involutive in E. exact E.
  - right. exists (rev r), x. apply (f_equal (@rev name)) in E. rewrite rev_involutive in E. exact E.
Qed.

Lemma prefix_length : forall a q, prefix a q = true -> (List.length a <= List.length q)%nat.
Proof. intros a q H. apply prefix_spec in H. destruct H as [r ->]. rewrite app_length. lia. Qed.

Lemma prefix_snoc_self_false : forall p x, prefix (p ++ [x]) p = false.
Proof.
  intros p x. destruct (prefix (p ++ [x]) p) eqn:E; [|reflexivity].
  apply prefix_length in E. rewrite app_length in E. cbn in E. lia.
Qed.

Lemma is_child_snoc : forall p x, is_child p (p ++ [x]) = true.
Proof.
  intros. unfold is_child. rewrite prefix_app. cbn. rewrite app_length. cbn.
  apply Nat.eqb_eq. lia.
Qed.

Lemma nonempty_true : forall p, nonempty p = true <-> p <> [].
Proof. destruct p; cbn; split; congruence. Qed.

(* ------------------------------------------------------------------ classification *)
Lemma rel_data_prefix : forall a r, rel_data (a ++ r) = true -> rel_data a = true.
Proof.
  induction a as [|x a IH]; intros r H; [reflexivity|].
  cbn [app] in H. cbn [rel_data] in *.
  destruct a as [|y a].
  - destruct r as [|z r]; cbn [app] in H.
    + exact H.
    + apply andb_true_iff in H. destruct H as [H _]. rewrite H. reflexivity.
  - cbn [app] in H. apply andb_true_iff in H. destruct H as [H1 H2].
    rewrite H1. cbn. apply (IH r). exact H2.
Qed.

Lemma is_data_prefix : forall a r, a <> [] -> is_data (a ++ r) = true -> is_data a = true.
Proof.
  intros [|x a] r Hne H; [congruence|]. cbn in *. destruct x; try discriminate.
  eapply rel_data_prefix; eauto.
Qed.

Lemma nd_path_prefix : forall a q, nd_path a = true -> prefix a q = true -> is_data q = false.
Proof.
  intros a q Hnd Hp. unfold nd_path in Hnd. apply andb_true_iff in Hnd. destruct Hnd as [Hne Hd].
  apply nonempty_true in Hne. apply negb_true_iff in Hd.
  apply prefix_spec in Hp. destruct Hp as [r ->].
  destruct (is_data (a ++ r)) eqn:E; [|reflexivity].
  apply is_data_prefix in E; congruence.
Qed.

(* a proper extension of a data path through a safe directory: all components but the last are safe *)
Lemma rel_data_safe_app : forall a r, forallb is_safe a = true -> rel_data (a ++ r) = rel_data r \/ r = [].
Proof.
  induction a as [|x a IH]; intros r Ha; [left; reflexivity|].
  cbn in Ha. apply andb_true_iff in Ha. destruct Ha as [Hx Ha].
  destruct r as [|z r]; [right; reflexivity|]. left.
  cbn [app rel_data]. destruct (a ++ z :: r) eqn:E.
  - destruct a; discriminate.
  - rewrite <- E. rewrite Hx. cbn. destruct (IH (z :: r) Ha) as [H|H]; [exact H | discriminate].
Qed.

Lemma rel_data_tmp : forall a k r, rel_data (a ++ Tmp k :: r) = false.
Proof.
  induction a as [|x a IH]; intros k r.
  - cbn. destruct r; reflexivity.
  - cbn [app rel_data]. destruct (a ++ Tmp k :: r) eqn:E; [destruct a; discriminate|].
    rewrite <- E. rewrite IH. apply andb_false_r.
Qed.

Lemma is_data_tmp : forall a k r, is_data (a ++ Tmp k :: r) = false.
Proof.
  intros [|x a] k r; cbn; [reflexivity|]. destruct x; try reflexivity. apply rel_data_tmp.
Qed.

Lemma rel_data_cache : forall a r, rel_data (a ++ Cache :: r) = false.
Proof.
  induction a as [|x a IH]; intros r.
  - cbn. destruct r; reflexivity.
  - cbn [app rel_data]. destruct (a ++ Cache :: r) eqn:E; [destruct a; discriminate|].
    rewrite <- E. rewrite IH. apply andb_false_r.
Qed.

Lemma is_data_cache : forall a r, is_data (a ++ Cache :: r) = false.
Proof.
  intros [|x a] r; cbn; [reflexivity|]. destruct x; try reflexivity. apply rel_data_cache.
Qed.

Lemma is_data_croot : forall r, is_data (CRoot :: r) = false.
Proof. reflexivity. Qed.

(* ------------------------------------------------------------------ frame *)
Ltac inv_apply H :=
  repeat match type of H with
         | (if ?c then _ else _) = inl _ => let E := fresh "E" in destruct c eqn:E; [try discriminate H | try discriminate H]
         | match ?c with _ => _ end = inl _ => let E := fresh "E" in destruct c eqn:E; try discriminate H
         end;
  try (injection H as H).

Lemma frame : forall st s s' p, apply st s = inl s' -> touch st p = false -> look s' p = look s p.
Proof.
  intros st s s' p H T. destruct st; cbn [apply touch] in *; inv_apply H; subst s'; cbn [look upd];
    try rewrite T; try reflexivity;
    apply orb_false_iff in T; destruct T as [Ta Tb]; rewrite Ta, Tb; reflexivity.
Qed.

Lemma nondata_no_touch : forall st p, nondata_step st = true -> is_data p = true -> touch st p = false.
Proof.
  intros st p Hn Hd.
  assert (Hpt : forall q, nd_path q = true -> path_eqb p q = false).
  { intros q Hq. apply path_eqb_neq. intros ->. unfold nd_path in Hq. rewrite Hd in Hq.
    rewrite andb_false_r in Hq. discriminate. }
  assert (Hpr : forall q, nd_path q = true -> prefix q p = false).
  { intros q Hq. destruct (prefix q p) eqn:E; [|reflexivity].
    rewrite (nd_path_prefix _ _ Hq E) in Hd. discriminate. }
  destruct st; cbn [nondata_step touch] in *; auto;
    apply andb_true_iff in Hn; destruct Hn as [Ha Hb]; rewrite (Hpr _ Ha), (Hpr _ Hb); reflexivity.
Qed.

Lemma nondata_abs : forall st s s', nondata_step st = true -> apply st s = inl s' -> abs_eq s' s.
Proof.
  intros st s s' Hn Ha p Hp. eapply frame; eauto. apply nondata_no_touch; auto.
Qed.

Lemma abs_eq_refl : forall s, abs_eq s s.
Proof. intros s p _. reflexivity. Qed.
Lemma abs_eq_trans : forall a b c, abs_eq a b -> abs_eq b c -> abs_eq a c.
Proof. intros a b c H1 H2 p Hp. rewrite (H1 p Hp). apply H2. exact Hp. Qed.
Lemma abs_eq_sym : forall a b, abs_eq a b -> abs_eq b a.
Proof. intros a b H p Hp. symmetry. apply H. exact Hp. Qed.
