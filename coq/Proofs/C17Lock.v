(* C17 -- tie T for the concurrency dimension: the table of cache accesses regenerated from the current source of
   BaseAuth.login (Gen/LoginLockGen.v) obeys the lock discipline the step model of Model/LoginCacheConc.v assumes.
   Built separately from Props/C17.v (checks/C17.py) so that a tree that violates the discipline still gets the
   sequential theorems and correspondence checked. *)
From Coq Require Import List NArith Bool String.
Import ListNotations.
Require Import RV.Model.LoginCache RV.Model.LoginCacheConc.
Require RV.Gen.LoginLockGen.

(* outside `with self._lock:` the dictionaries are only touched by single atomic reads (d.get(k), len(d)); every
   iteration, check-then-read, store, delete and pop is inside; the lock is never taken by bare acquire()/release() *)
Lemma Gen_cache_accesses_locked :
  forallb access_ok LoginLockGen.cache_accesses = true /\ LoginLockGen.bare_acquire_release = false.
Proof. split; reflexivity. Qed.

(* the accesses, in source order, are exactly those of the step model (TSweep ... TStoreFail) *)
Lemma Gen_cache_access_shape :
  list_eqb shape_eqb (map shape_of LoginLockGen.cache_accesses) expected_shape = true.
Proof. reflexivity. Qed.

(* ANY attribute of `self` that login or a BaseAuth method it calls writes (assignment, item store/delete, mutating
   method) is written only inside `with self._lock:` and read outside it only by a single atomic read: no instance
   state is shared between concurrent requests outside the critical sections.  (`offending` names the attributes.) *)
Lemma Gen_shared_attrs_locked : offending LoginLockGen.shared_attr_accesses = [].
Proof. reflexivity. Qed.
