(* C12, part 1: steps outside the visible paths keep the monitor clean; _atomic_write keeps any
   invariant that tolerates records inside temp directories; _makedirs_synced keeps every invariant. *)
From Coq Require Import List NArith Bool Lia PeanoNat.
Import ListNotations.
Require Import RV.Lib.Prog RV.Model.Fs RV.Model.StorageOps RV.Proofs.ProgLemmas RV.Proofs.FsLemmas
  RV.Proofs.MonLemmas RV.Proofs.CacheCalm.
Open Scope N_scope.

Lemma dent_eqb_eq : forall x y, dent_eqb x y = true <-> x = y.
Proof.
  intros [p|p] [q|q]; cbn; split; intro H; try discriminate; try (apply path_eqb_eq in H; subst; reflexivity);
    inversion H; subst; apply path_eqb_refl.
Qed.
Lemma dent_eqb_refl : forall x, dent_eqb x x = true.
Proof. intro x. apply dent_eqb_eq. reflexivity. Qed.
Lemma dent_eqb_false : forall x y, dent_eqb x y = false -> x <> y.
Proof. intros x y H E. apply dent_eqb_eq in E. congruence. Qed.

Lemma rekey_id : forall a b q, prefix a q = false -> rekey a b q = q.
Proof. intros. unfold rekey. rewrite H. reflexivity. Qed.
Lemma dmap_rekey_id : forall a b d, under a d = false -> dmap (rekey a b) d = d.
Proof. intros a b [p|p] H; cbn in *; rewrite rekey_id; auto. Qed.
Lemma dpath_dmap : forall f d, dpath (dmap f d) = f (dpath d).
Proof. intros f [p|p]; reflexivity. Qed.

(* records allowed while the listed visible entries still await their directory fsync *)
Definition GX (X : list dent) (d : dent) : Prop := is_data (dpath d) = false \/ In d X.
Definition nd (d : dent) : Prop := is_data (dpath d) = false.

Lemma GX_nil : forall d, GX [] d <-> nd d.
Proof. intros d. unfold GX, nd. cbn. tauto. Qed.

Lemma nd_gstep : forall X st, nondata_step st = true -> gstep (GX X) st.
Proof.
  intros X st Hnd m Hm.
  assert (Hp : forall q, nd_path q = true -> is_data q = false).
  { intros q Hq. unfold nd_path in Hq. apply andb_true_iff in Hq. destruct Hq as [_ Hq]. apply negb_true_iff in Hq. exact Hq. }
  destruct st; cbn [nondata_step dstep] in *.
  - apply IG_add; [left; apply Hp; exact Hnd | apply IG_drop'; exact Hm].
  - apply IG_flag; [apply Hp; exact Hnd|]. apply IG_add; [left; apply Hp; exact Hnd | exact Hm].
  - apply IG_flag; [apply Hp; exact Hnd|]. apply IG_add; [left; apply Hp; exact Hnd | exact Hm].
  - apply IG_drop'. exact Hm.
  - apply IG_drop'. exact Hm.
  - (* Rename *)
    apply andb_true_iff in Hnd. destruct Hnd as [Ha Hb].
    apply IG_rename with (G := GX X); [exact Hm | | left; apply Hp; exact Ha | left; apply Hp; exact Hb].
    intros d Hg Hu Hne.
    destruct (is_data (dpath d)) eqn:Ed.
    + (* a visible record: not below a, untouched *)
      assert (Hua : under a d = false).
      { unfold under. destruct (prefix a (dpath d)) eqn:E; [|reflexivity]. rewrite (nd_path_prefix _ _ Ha E) in Ed. discriminate. }
      rewrite (dmap_rekey_id _ _ _ Hua). split.
      * destruct Hg as [Hg|Hg]; [congruence | right; exact Hg].
      * intro H. congruence.
    + split.
      * left. rewrite dpath_dmap. unfold rekey. destruct (prefix a (dpath d)) eqn:E; [|exact Ed].
        apply (nd_path_prefix b); [exact Hb | apply prefix_app].
      * intros _. rewrite dpath_dmap. unfold rekey. destruct (prefix a (dpath d)) eqn:E; [|exact Ed].
        apply (nd_path_prefix b); [exact Hb | apply prefix_app].
  - (* Exchange *)
    apply andb_true_iff in Hnd. destruct Hnd as [Ha Hb].
    destruct Hm as [Hbad Hd].
    set (sw := fun q => if prefix a q then b ++ strip a q else if prefix b q then a ++ strip b q else q).
    assert (Hsw : forall d, GX X d -> GX X (dmap sw d) /\ (is_data (dpath (dmap sw d)) = true -> under a (dmap sw d) = false /\ under b (dmap sw d) = false)).
    { intros d Hg. assert (Hdp : dpath (dmap sw d) = sw (dpath d)) by apply dpath_dmap.
      destruct (prefix a (dpath d)) eqn:Ea.
      - assert (Hn : is_data (dpath (dmap sw d)) = false).
        { rewrite Hdp. unfold sw. rewrite Ea. apply (nd_path_prefix b); [exact Hb | apply prefix_app]. }
        split; [left; exact Hn | intro H; rewrite Hn in H; discriminate].
      - destruct (prefix b (dpath d)) eqn:Eb.
        + assert (Hn : is_data (dpath (dmap sw d)) = false).
          { rewrite Hdp. unfold sw. rewrite Ea, Eb. apply (nd_path_prefix a); [exact Ha | apply prefix_app]. }
          split; [left; exact Hn | intro H; rewrite Hn in H; discriminate].
        + assert (Hid : dmap sw d = d) by (destruct d; cbn; unfold sw; cbn in Ea, Eb; rewrite Ea, Eb; reflexivity).
          rewrite Hid. split; [exact Hg|]. intros _. unfold under. rewrite Ea, Eb. split; reflexivity. }
    split.
    + cbn. rewrite Hbad. cbn. rewrite <- not_true_iff_false. intro Hex.
      apply orb_true_iff in Hex. unfold exposes in Hex. cbn [m_dirty drop] in Hex.
      destruct Hex as [Hex|Hex]; apply existsb_exists in Hex; destruct Hex as [e [He Hc]];
        apply in_map_iff in He; destruct He as [d [<- Hin]]; apply filter_In in Hin; destruct Hin as [Hin _];
        apply andb_true_iff in Hc; destruct Hc as [Hc1 Hc2];
        destruct (Hsw d (Hd d Hin)) as [_ H2]; destruct (H2 Hc2) as [H3 H4]; congruence.
    + cbn. intros e [<-|[<-|He]].
      * left. apply Hp. exact Ha.
      * left. apply Hp. exact Hb.
      * apply in_map_iff in He. destruct He as [d [<- Hin]]. apply filter_In in Hin. destruct Hin as [Hin _].
        apply Hsw. apply Hd. exact Hin.
  - apply IG_add; [left; apply Hp; exact Hnd | apply IG_drop'; exact Hm].
  - apply IG_add; [left; apply Hp; exact Hnd | apply IG_drop'; exact Hm].
  - apply IG_add; [left; apply Hp; exact Hnd | apply IG_drop'; exact Hm].
Qed.

Lemma calm_WP : forall (J : asrt) p s t, calm J p -> J s t -> WP p J s t.
Proof.
  intros J p s t Hc Hj. unfold WP, machine_wp. eapply wp_mono; [ | | | apply (calm_elim _ _ Hc s t Hj) ]; cbn; auto.
  - intros; exact I.
  - intros; exact I.
Qed.

(* ------------------------------------------------------------------ _makedirs_synced *)
Lemma mkdir_fsync_IG : forall G q m, q <> [] -> IG G m -> IG G (dstep (FsyncD (parent q)) (dstep (Mkdir q) m)).
Proof.
  intros G q m Hq [Hb Hd]. split; [exact Hb|]. cbn. rewrite path_eqb_refl. cbn. intros e He.
  apply filter_In in He. destruct He as [He _]. apply filter_In in He. destruct He as [He _]. apply Hd. exact He.
Qed.

Lemma md_WP : forall G rp s t, IG G (mon_of t) -> WP (md_rev rp) (TQ (IG G)) s t.
Proof.
  intros G rp. induction rp as [|x rest IH]; intros s t H; cbn [md_rev]; [exact H|].
  apply WP_read. intros n.
  assert (Hgo : WP (seqs [md_rev rest; Do (Mkdir (rev (x :: rest))); fsyncD (rev rest)]) (TQ (IG G)) s t).
  { cbn [seqs]. eapply WP_seq; [apply IH; exact H|]. intros s1 t1 H1.
    eapply WP_seq with (M := fun _ t' => exists t0, t' = t0 ++ [(Mkdir (rev (x :: rest)), true)] /\ IG G (mon_of t0)).
    - apply WP_do. intros s' _. exists t1. split; [reflexivity | exact H1].
    - intros s2 t2 [t0 [-> H0]]. apply WP_fsyncD. intros s3. unfold TQ. rewrite !mon_of_ok.
      replace (rev rest) with (parent (rev (x :: rest))) by (cbn [rev]; apply parent_snoc).
      apply mkdir_fsync_IG; [|exact H0]. cbn [rev]. intro E. destruct (rev rest); discriminate. }
  destruct n as [[|v]|]; [exact H | exact Hgo | exact Hgo].
Qed.

(* ------------------------------------------------------------------ _atomic_write *)
Section AW.
  Variable G : dent -> Prop.
  Variables (d : path) (x : name) (v : N).
  (* records about objects inside a temp directory of d are tolerated by G *)
  Hypothesis G_tmp : forall k r, G (DE (d ++ Tmp k :: r)) /\ G (DW (d ++ Tmp k :: r)).

  Lemma aw_mon : forall s t, IG G (mon_of t) -> WP (AW d x v) (TQ (IG G)) s t.
  Proof.
    intros s t H. unfold AW, with_tmp.
    eapply WP_seq with (M := TQ (IG (fun e => G e \/ e = DE (d ++ [x])))).
    2: { intros s' t' H'. apply WP_fsyncD. intros s''. unfold TQ in *. rewrite mon_of_ok. cbn [dstep].
         eapply IG_weaken; [|apply IG_drop; exact H']. cbn. intros e [[Hg | ->] Hf]; [exact Hg|].
         rewrite parent_snoc, path_eqb_refl in Hf. discriminate. }
    apply WP_fresh. intro k.
    set (t0 := d ++ [Tmp k]). set (a := t0 ++ [x]). set (b := d ++ [x]).
    assert (Ea : a = d ++ Tmp k :: [x]) by (unfold a, t0; rewrite <- app_assoc; reflexivity).
    assert (Nda : is_data a = false) by (rewrite Ea; apply is_data_tmp).
    assert (Hat0 : prefix a t0 = false) by (unfold a; apply prefix_snoc_self_false).
    (* Mkdir t0 *)
    eapply WP_seq with (M := TQ (IG (fun e => G e /\ (under t0 e = true -> e = DE t0)))).
    { apply WP_do. intros s' _. unfold TQ. rewrite mon_of_ok. cbn [dstep].
      apply IG_add; [split; [apply (G_tmp k []) | reflexivity]|].
      eapply IG_weaken; [|apply IG_drop; exact H]. cbn. intros e [Hg Hu]. split; [exact Hg | congruence]. }
    intros s1 t1 H1. apply WP_finally. cbn [seqs].
    (* Create a *)
    eapply WP_seq with (M := TQ (IG (fun e => G e /\ (under t0 e = true -> e = DE t0 \/ e = DE a)))).
    { apply WP_do. intros s' _. unfold TQ in *. rewrite mon_of_ok. cbn [dstep].
      apply IG_flag; [exact Nda|]. apply IG_add.
      - split; [rewrite Ea; apply G_tmp | right; reflexivity].
      - eapply IG_weaken; [|exact H1]. cbn. intros e [Hg Hu]. split; [exact Hg | intro; left; auto]. }
    intros s2 t2 H2.
    (* Write a *)
    eapply WP_seq with (M := TQ (IG (fun e => G e /\ (under t0 e = true -> e = DE t0 \/ e = DE a \/ e = DW a)))).
    { apply WP_do. intros s' _. unfold TQ in *. rewrite mon_of_ok. cbn [dstep].
      apply IG_flag; [exact Nda|]. apply IG_add.
      - split; [rewrite Ea; apply G_tmp | right; right; reflexivity].
      - eapply IG_weaken; [|exact H2]. cbn. intros e [Hg Hu]. split; [exact Hg | intro Hx; destruct (Hu Hx); auto]. }
    intros s3 t3 H3.
    (* FsyncF a *)
    eapply WP_seq with (M := TQ (IG (fun e => G e /\ (under t0 e = true -> e = DE t0 \/ e = DE a)))).
    { apply WP_fsyncF. intros s'. unfold TQ in *. rewrite mon_of_ok. cbn [dstep].
      eapply IG_weaken; [|apply IG_drop; exact H3]. cbn. intros e [[Hg Hu] Hf]. split; [exact Hg|].
      intro Hx. destruct (Hu Hx) as [E|[E|E]]; auto. subst e. cbn in Hf. rewrite path_eqb_refl in Hf. discriminate. }
    intros s4 t4 H4.
    (* Rename a b, then (Finally) Rmtree t0 *)
    apply WP_do. intros s5 _. apply WP_do. intros s6 _. unfold TQ in *. rewrite !mon_of_ok.
    cbn [dstep]. apply IG_add; [left; apply (G_tmp k [])|]. apply IG_drop'.
    change (IG (fun e => G e \/ e = DE b) (dstep (Rename a b) (mon_of t4))).
    eapply IG_rename; [exact H4 | | left; rewrite Ea; apply G_tmp | right; reflexivity].
    intros e [Hg Hu] Hub Hne.
    assert (Hua : under a e = false).
    { unfold under in *. destruct (prefix a (dpath e)) eqn:E; [|reflexivity]. exfalso.
      assert (Ht : prefix t0 (dpath e) = true) by (eapply prefix_trans; [|exact E]; unfold a; apply prefix_app).
      destruct (Hu Ht) as [-> | ->]; cbn in E; [congruence | contradiction]. }
    rewrite (dmap_rekey_id _ _ _ Hua). split; [left; exact Hg | intro Hc; congruence].
  Qed.
End AW.
