(* Non-vacuity of the refinement: a populated file system / L0 store pair with R, store_inv and the weak
   invariant, obtained by running home creation, MKCALENDAR and a PUT of the step-program model from the
   empty storage folder -- and it is the store the handler model reaches on the same history. *)
From Coq Require Import List NArith Bool Lia.
Import ListNotations.
Require RV.Model.Store RV.Model.Handlers RV.Proofs.StoreLemmas RV.Proofs.HandlersInv.
Require Import RV.Lib.Prog RV.Model.Fs RV.Model.StorageOps RV.Model.Repr RV.Proofs.FsLemmas RV.Proofs.FsInv
  RV.Proofs.C02Units RV.Proofs.C02Final RV.Proofs.ReprProofs RV.Proofs.ReprUnits RV.Proofs.ReprFinal.
Open Scope N_scope.

Definition ex_s0 : fs := init_fs [([], D); ([Root], D)].
Definition ex_lay : layout := {| l_item := false; l_hist := false |}.
Definition ex_ob : ST.obj := ST.mkObj 0 ST.CEvent 0.

Lemma ex_s0_inv : fs_inv_weak ex_s0.
Proof. apply init_fs_inv. reflexivity. Qed.

Lemma R_empty : R ex_s0 ST.empty_store.
Proof.
  intro p. split.
  - destruct (spath_cases p) as [->|[q [x ->]]]; [reflexivity|].
    rewrite nview_snoc; [|destruct q; reflexivity].
    assert (Hl : look ex_s0 (fp (q ++ [x])) = None).
    { unfold fp. destruct (map Safe (q ++ [x])) eqn:E; [destruct q; discriminate | reflexivity]. }
    rewrite Hl. destruct q; reflexivity.
  - assert (Hl : look ex_s0 (fp p ++ [Props]) = None).
    { unfold fp. cbn [app]. destruct (map Safe p ++ [Props]) eqn:E; [destruct (map Safe p); discriminate | reflexivity]. }
    rewrite Hl. destruct p; [split; reflexivity | reflexivity].
Qed.

Definition ex_sig1 : ST.store := ST.set_coll ST.empty_store [10] (ST.mkColl ST.TNone [] []).
Definition ex_r1 := machine_run no_fault (unit_prog ex_lay (UMkdir (fp [10]))) (start ex_s0).
Definition ex_s1 : fs := c_st (fst ex_r1).

Definition ex_sig2 : ST.store := ST.set_coll ex_sig1 ([10] ++ [20]) (ST.mkColl ST.TCal [] []).
Definition ex_r2 := machine_run no_fault (unit_prog ex_lay (UCreate (fp ([10] ++ [20])) None (pcode ST.TCal []))) (start ex_s1).
Definition ex_s2 : fs := c_st (fst ex_r2).

Definition ex_sig3 : ST.store :=
  ST.set_coll ex_sig2 [10; 20] (ST.mkColl ST.TCal [] (ST.assoc_set [] 100 ex_ob)).
Definition ex_r3 := machine_run no_fault (unit_prog ex_lay (UUpload (fp [10; 20]) (Safe 100) (ocode ex_ob) [])) (start ex_s2).
Definition ex_s3 : fs := c_st (fst ex_r3).

Lemma ex_inv1 : HI.store_inv ex_sig1.
Proof.
  apply (HI.store_inv_add ST.empty_store [10] _ (ST.mkColl ST.TNone [] [])); try reflexivity;
    [apply HI.empty_store_inv | discriminate | apply HI.coll_inv_empty].
Qed.
Lemma ex_inv2 : HI.store_inv ex_sig2.
Proof.
  apply (HI.store_inv_add ex_sig1 [10; 20] _ (ST.mkColl ST.TNone [] [])); try reflexivity;
    [apply ex_inv1 | discriminate | apply HI.coll_inv_empty].
Qed.

Lemma ex_step1 : R ex_s1 ex_sig1 /\ fs_inv_weak ex_s1.
Proof.
  destruct (refine_mkdir ex_lay no_fault ex_s0 ST.empty_store R_empty HI.empty_store_inv ex_s0_inv [10] eq_refl) as (Hi & _ & Hn).
  split; [apply Hn; vm_compute; reflexivity | exact Hi].
Qed.

Lemma ex_step2 : R ex_s2 ex_sig2 /\ fs_inv_weak ex_s2.
Proof.
  destruct ex_step1 as [HR Hi].
  destruct (refine_mkcoll ex_lay no_fault ex_s1 ex_sig1 HR ex_inv1 Hi [10] 20 ST.TCal [] (ST.mkColl ST.TNone [] []) eq_refl eq_refl) as (Hi2 & _ & Hn).
  split; [apply Hn; vm_compute; reflexivity | exact Hi2].
Qed.

Lemma ex_step3 : R ex_s3 ex_sig3 /\ fs_inv_weak ex_s3.
Proof.
  destruct ex_step2 as [HR Hi].
  destruct (refine_put_item ex_lay no_fault ex_s2 ex_sig2 HR ex_inv2 Hi [10; 20] 100 ex_ob (ST.mkColl ST.TCal [] []) [] eq_refl eq_refl) as (Hi3 & _ & Hn).
  split; [apply Hn; vm_compute; reflexivity | exact Hi3].
Qed.

(* the same store as the handler model computes for: first login of user 10, MKCALENDAR /10/20/, PUT /10/20/100 *)
Lemma ex_sig3_is_handlers :
  ex_sig3 = fst (RV.Model.Handlers.run_history (RV.Model.Handlers.mkConfig true true) (fun _ => [82; 87; 114; 119]) (Some 10) ST.empty_store
                   [RV.Model.Handlers.RMkcalendar [10; 20] RV.Model.Handlers.XNone;
                    RV.Model.Handlers.RPut [10; 20; 100] RV.Model.Handlers.CTNone (RV.Model.Handlers.BCal [ex_ob]) RV.Model.Handlers.CNone false]).
Proof. vm_compute. reflexivity. Qed.

Lemma ex_inv3 : HI.store_inv ex_sig3.
Proof. rewrite ex_sig3_is_handlers. apply HI.run_history_inv. apply HI.empty_store_inv. Qed.

Lemma R_nonvacuous :
  R ex_s3 ex_sig3 /\ HI.store_inv ex_sig3 /\ fs_inv_weak ex_s3
  /\ (exists c, ST.lookup ex_sig3 [10; 20] = Some c /\ ST.c_items c = [(100, ex_ob)])
  /\ look ex_s3 (fp [10; 20; 100]) = Some (F (ocode ex_ob))
  /\ look ex_s3 (fp [10; 20] ++ [Props]) = Some (F (pcode ST.TCal [])).
Proof.
  destruct ex_step3 as [HR Hi]. split; [exact HR|]. split; [apply ex_inv3|]. split; [exact Hi|]. split.
  - eexists. split; reflexivity.
  - split; vm_compute; reflexivity.
Qed.
