(* Tie T: the regenerated translation of radicale/rights/{__init__,authenticated,owner_only,
   owner_write}.py equals the hand model of Model/Rights.v. *)
From Coq Require Import List NArith Bool String.
Import ListNotations.
Require Import RV.Lib.PyStr RV.Model.Path RV.Model.Rights RV.Proofs.GenEqPath.
Require RV.Gen.PathGen RV.Gen.RightsGen.
Open Scope N_scope.

Lemma Gen_intersect_eq : forall a b, RightsGen.intersect a b = intersect a b.
Proof. reflexivity. Qed.

Lemma Gen_authorization_authenticated_eq : forall v u p,
  RightsGen.authorization_authenticated v u p = authenticated v u p.
Proof. reflexivity. Qed.

Lemma Gen_authorization_owner_only_eq : forall v u p,
  RightsGen.authorization_owner_only v u p = owner_only v u p.
Proof. reflexivity. Qed.

Lemma Gen_authorization_owner_write_eq : forall v u p,
  RightsGen.authorization_owner_write v u p = owner_write v u p.
Proof.
  intros v u p. unfold RightsGen.authorization_owner_write, owner_write, anonymous_denied.
  rewrite Gen_strip_path_eq.
  destruct (v && negb (nonempty u)); [reflexivity|].
  cbv zeta. destruct (negb (nonempty (strip_path p))); [reflexivity|].
  unfold by_depth, first_component. change 47 with slash.
  destruct (if v then eqs u (fst (split1 slash (strip_path p))) else true);
    destruct (negb (contains_char slash (strip_path p)));
    destruct (count_char slash (strip_path p) =? 1); reflexivity.
Qed.
