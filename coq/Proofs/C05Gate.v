(* C05: proofs about the request gate (Model/Gate.v).  Every statement quantifies over ALL
   external parties (case mapping, base64/charset decoding, back-end, handlers, storage and rights
   answers): they are Section variables, generalised at the end of the Section. *)
From Coq Require Import List NArith ZArith Bool String Lia.
Import ListNotations.
Require Import RV.Lib.PyStr RV.Model.Path RV.Model.C05Text RV.Model.LoginMap RV.Model.Gate.
Require Import RV.Proofs.PyStrLemmas.
Open Scope N_scope.

Lemma nonempty_true_neq : forall (s : pystr), nonempty s = true <-> s <> [].
Proof. intros [|x s]; simpl; split; intros H; try discriminate; try congruence; auto. Qed.

Lemma nonempty_false_eq : forall (s : pystr), nonempty s = false <-> s = [].
Proof. intros [|x s]; simpl; split; intros H; try discriminate; auto. Qed.

Lemma split1_none_iff : forall c s a, split1 c s = (a, None) -> contains_char c s = false /\ a = s.
Proof.
  intros c s; induction s as [|x r IH]; simpl; intros a H.
  - inversion H; auto.
  - destruct (N.eqb x c) eqn:E; [discriminate|].
    destruct (split1 c r) as [a' b'] eqn:S. inversion H; subst.
    destruct (IH a' eq_refl) as [H1 H2]. subst. simpl. auto.
Qed.

Lemma split1_nocolon : forall c s, contains_char c s = false -> split1 c s = (s, None).
Proof.
  intros c s; induction s as [|x r IH]; simpl; intros H; auto.
  apply orb_false_iff in H as [H1 H2]. rewrite H1, (IH H2). reflexivity.
Qed.

Section GateProofs.
  Variables py_lower py_upper : pystr -> pystr.
  Variable basic_decode : pystr -> pystr -> option pystr.
  Variable backend : pystr -> pystr -> option pystr.
  Variable handler : pystr -> pystr -> pystr -> pystr -> hresp.
  Variable home_exists : pystr -> bool.
  Variable home_exists_w : pystr -> bool.
  Variable rights_w : pystr -> bool.
  Variable create_fails : pystr -> bool.

  Notation gate := (gate py_lower py_upper basic_decode backend handler home_exists home_exists_w rights_w create_fails).
  Notation after_login := (after_login handler home_exists home_exists_w rights_w create_fails).
  Notation creds := (creds basic_decode).
  Notation backend_login := (backend_login backend).
  Notation mapped := (mapped py_lower py_upper).
  Notation reaches_auth := (reaches_auth py_upper).

  Ltac split_ifs :=
    repeat match goal with
           | |- context [if ?b then _ else _] => let E := fresh "E" in destruct b eqn:E
           | H : context [if ?b then _ else _] |- _ => let E := fresh "E" in destruct b eqn:E
           | |- context [match ?x with HNotAllowed => _ | HResp _ => _ | HRaise => _ end] => destruct x
           | H : context [match ?x with HNotAllowed => _ | HResp _ => _ | HRaise => _ end] |- _ => destruct x
           | |- context [match ?x with CLInvalid => _ | CLNum _ => _ end] => destruct x
           | H : context [match ?x with CLInvalid => _ | CLNum _ => _ end] |- _ => destruct x
           end.

  Ltac bool_norm :=
    repeat match goal with
           | H : negb _ = true |- _ => apply negb_true_iff in H
           | H : negb _ = false |- _ => apply negb_false_iff in H
           | H : _ && _ = true |- _ => apply andb_true_iff in H; destruct H
           | H : _ || _ = false |- _ => apply orb_false_iff in H; destruct H
           | H : _ && _ = false |- _ => apply andb_false_iff in H; destruct H
           | H : _ || _ = true |- _ => apply orb_true_iff in H; destruct H
           end.

  Ltac in_inv :=
    repeat match goal with
           | H : _ \/ _ |- _ => destruct H
           | H : False |- _ => contradiction
           | H : In _ [] |- _ => contradiction
           | H : EHome _ _ = EDispatch _ _ _ _ |- _ => discriminate H
           | H : EHomeRecheck _ _ = EDispatch _ _ _ _ |- _ => discriminate H
           | H : EBackend _ _ = EDispatch _ _ _ _ |- _ => discriminate H
           | H : EDispatch _ _ _ _ = EDispatch _ _ _ _ |- _ => inversion H; subst; clear H
           end.

  Ltac fin :=
    bool_norm;
    repeat match goal with
           | H : nonempty ?x = false |- _ => apply nonempty_false_eq in H; try subst x
           end;
    simpl in *; try congruence;
    first [ left; split; [apply nonempty_true_neq; congruence | split; [reflexivity | congruence]]
          | right; split; first [reflexivity | congruence | apply nonempty_false_eq; congruence] ].

  (* ------------------------------------------------------------ the tail of the gate *)
  (* what a dispatch out of after_login looks like *)
  Lemma after_login_dispatch : forall cfg env m bp path ext login user0 m' bp' p' u,
    In (EDispatch m' bp' p' u) (r_effects (after_login cfg env m bp path ext login user0)) ->
    m' = m /\ bp' = bp /\ p' = path /\
    ((u <> [] /\ u = user0 /\ is_safe_path_component user0 = true) \/ (u = [] /\ login = [])).
  Proof.
    intros cfg env m bp path ext login user0 m' bp' p' u H.
    unfold Gate.after_login in H.
    split_ifs; cbn in H; in_inv; repeat split; auto; fin.
  Qed.

  Lemma after_login_home : forall cfg env m bp path ext login user0 u c,
    In (EHome u c) (r_effects (after_login cfg env m bp path ext login user0)) ->
    u = user0 /\ user0 <> [] /\ is_safe_path_component user0 = true
    /\ home_exists u = false /\ home_exists_w u = false /\ rights_w u = true /\ c = negb (create_fails u).
  Proof.
    intros cfg env m bp path ext login user0 u c H.
    unfold Gate.after_login in H.
    split_ifs; cbn in H;
      repeat match goal with
             | H : _ \/ _ |- _ => destruct H
             | H : False |- _ => contradiction
             | H : EDispatch _ _ _ _ = EHome _ _ |- _ => discriminate H
             | H : EHomeRecheck _ _ = EHome _ _ |- _ => discriminate H
             | H : EHome _ _ = EHome _ _ |- _ => inversion H; subst; clear H
             end;
      bool_norm; simpl in *; try congruence;
      (split; [reflexivity|]); (split; [apply nonempty_true_neq; congruence|]).
    all: repeat split; try congruence;
      match goal with H : create_fails _ = _ |- _ => rewrite H; reflexivity end.
  Qed.

  Lemma after_login_no_backend : forall cfg env m bp path ext login user0 l p,
    ~ In (EBackend l p) (r_effects (after_login cfg env m bp path ext login user0)).
  Proof.
    intros cfg env m bp path ext login user0 l p H.
    unfold Gate.after_login in H.
    split_ifs; cbn in H;
      repeat match goal with
             | H : _ \/ _ |- _ => destruct H
             | H : False |- _ => contradiction
             | H : EDispatch _ _ _ _ = EBackend _ _ |- _ => discriminate H
             | H : EHome _ _ = EBackend _ _ |- _ => discriminate H
             | H : EHomeRecheck _ _ = EBackend _ _ |- _ => discriminate H
             end.
  Qed.

  (* a login that did not yield a usable user: nothing runs, nothing is stored *)
  Lemma after_login_rejected : forall cfg env m bp path ext login user0,
    login <> [] -> (user0 = [] \/ is_safe_path_component user0 = false) ->
    let r := after_login cfg env m bp path ext login user0 in
    r_effects r = [] /\
    (r_final r = FBadRequest \/ r_final r = FTooLarge \/ r_final r = FError \/
     r_final r = (if ext then FForbidden else FUnauthorized)) /\
    (clen_ok cfg env -> r_final r = (if ext then FForbidden else FUnauthorized)).
  Proof.
    intros cfg env m bp path ext login user0 Hl Hu r. subst r.
    apply nonempty_true_neq in Hl.
    assert (Hu1 : (if nonempty user0 && negb (is_safe_path_component user0) then [] else user0) = []).
    { destruct Hu as [Hu|Hu]; [subst; reflexivity|]. rewrite Hu.
      destruct (nonempty user0) eqn:En; simpl; [reflexivity|]. apply nonempty_false_eq; exact En. }
    unfold Gate.after_login, clen_ok. rewrite Hu1. cbn [nonempty]. rewrite Hl. cbn [negb orb].
    destruct ext; cbn [negb andb];
      destruct (c_internal cfg); [destruct (e_clen env) as [|z] | | destruct (e_clen env) as [|z] | ];
      try destruct (z <? 0)%Z eqn:Ez0;
      try destruct (negb (z =? 0)%Z && (0 <? c_max_len cfg)%Z && (c_max_len cfg <? z)%Z) eqn:Ez;
      cbn; (split; [reflexivity|]); (split; [auto 6|]);
      intros [Hc|[z' [Hc1 [Hc2 Hc3]]]]; try discriminate; try reflexivity;
      try (inversion Hc1; subst; congruence).
  Qed.

  Lemma base_prefix_inl : forall cfg env f, base_prefix cfg env = inl f -> f = FBadRequest \/ f = FPrefixError.
  Proof.
    intros cfg env f H. unfold base_prefix in H.
    destruct (nonempty (c_script_name cfg) && e_forwarded env); [discriminate|].
    destruct (e_x_script env); split_ifs; inversion H; auto.
  Qed.

  (* ------------------------------------------------------------ credentials *)
  Lemma creds_external : forall cfg env l p, external_login (c_kind cfg) env = Some (l, p) ->
    creds cfg env = CCreds true l p.
  Proof. intros cfg env l p H. unfold Gate.creds. rewrite H. reflexivity. Qed.

  Lemma creds_ext_flag : forall cfg env ext l p, creds cfg env = CCreds ext l p ->
    ext = match external_login (c_kind cfg) env with Some _ => true | None => false end.
  Proof.
    intros cfg env ext l p H. unfold Gate.creds in H.
    destruct (external_login (c_kind cfg) env) as [[l' p']|]; [inversion H; reflexivity|].
    split_ifs; try discriminate; try (inversion H; reflexivity).
    destruct (basic_decode (e_ctype env) (py_strip (skipn 5 (e_auth env)))); [|discriminate].
    destruct (split1 colon p0) as [a [b|]]; [inversion H; reflexivity|discriminate].
  Qed.

  (* ------------------------------------------------------------ C05_gate *)
  Theorem c05_gate : forall cfg env m bp p u,
    In (EDispatch m bp p u) (r_effects (gate cfg env)) -> u <> [] ->
    exists ext l pw,
      creds cfg env = CCreds ext l pw /\ l <> [] /\
      backend_login (c_kind cfg) (mapped cfg l) pw = Some u /\
      is_safe_path_component u = true /\
      In (EBackend (mapped cfg l) pw) (r_effects (gate cfg env)) /\
      m = py_upper (e_method env).
  Proof.
    intros cfg env m bp p u H Hu. unfold Gate.gate in *.
    destruct (base_prefix cfg env) as [f|bp0]; [cbn in H; contradiction|].
    destruct (negb (mem_str (py_upper (e_method env)) method_names)); [cbn in H; contradiction|].
    destruct (endswith _ wk_caldav || endswith _ wk_carddav); [cbn in H; contradiction|].
    destruct (endswith _ wk || contains_sub wk_slash _); [cbn in H; contradiction|].
    destruct (creds cfg env) as [|ext l pw] eqn:Ec; [cbn in H; contradiction|].
    destruct (nonempty l) eqn:El.
    - destruct (backend_login (c_kind cfg) (mapped cfg l) pw) as [user0|] eqn:Eb.
      + cbn [with_effects r_effects app] in H. destruct H as [H|H]; [discriminate|].
        apply after_login_dispatch in H as (Hm & Hbp & Hp & [(Hne & Heq & Hsafe)|(Hnil & _)]); [|contradiction].
        subst. exists ext, l, pw. repeat split; auto.
        * apply nonempty_true_neq; exact El.
        * cbn [with_effects r_effects app]. left; reflexivity.
      + cbn in H. destruct H as [H|H]; [discriminate|contradiction].
    - apply after_login_dispatch in H as (Hm & Hbp & Hp & [(Hne & Heq & Hsafe)|(Hnil & _)]); [|contradiction].
      subst. contradiction.
  Qed.

  (* a handler that runs without a user: no login name was presented at all *)
  Theorem c05_gate_anonymous : forall cfg env m bp p,
    In (EDispatch m bp p []) (r_effects (gate cfg env)) ->
    exists ext pw, creds cfg env = CCreds ext [] pw
                   /\ forall l q, ~ In (EBackend l q) (r_effects (gate cfg env)).
  Proof.
    intros cfg env m bp p H. unfold Gate.gate in *.
    destruct (base_prefix cfg env) as [f|bp0]; [cbn in H; contradiction|].
    destruct (negb (mem_str (py_upper (e_method env)) method_names)); [cbn in H; contradiction|].
    destruct (endswith _ wk_caldav || endswith _ wk_carddav); [cbn in H; contradiction|].
    destruct (endswith _ wk || contains_sub wk_slash _); [cbn in H; contradiction|].
    destruct (creds cfg env) as [|ext l pw] eqn:Ec; [cbn in H; contradiction|].
    destruct (nonempty l) eqn:El.
    - destruct (backend_login (c_kind cfg) (mapped cfg l) pw) as [user0|] eqn:Eb.
      + cbn [with_effects r_effects app] in H. destruct H as [H|H]; [discriminate|].
        apply after_login_dispatch in H as (Hm & Hbp & Hp & [(Hne & _)|(_ & Hl)]); [congruence|].
        subst. discriminate.
      + cbn in H. destruct H as [H|H]; [discriminate|contradiction].
    - apply nonempty_false_eq in El. subst l. exists ext, pw. split; [reflexivity|].
      intros l q. apply after_login_no_backend.
  Qed.

  (* the principal collection is only ever created for the user the back-end returned *)
  Theorem c05_home : forall cfg env u c,
    In (EHome u c) (r_effects (gate cfg env)) ->
    exists ext l pw, creds cfg env = CCreds ext l pw /\ l <> [] /\
      backend_login (c_kind cfg) (mapped cfg l) pw = Some u /\ is_safe_path_component u = true
      /\ home_exists u = false /\ home_exists_w u = false /\ rights_w u = true.
  Proof.
    intros cfg env u c H. unfold Gate.gate in *.
    destruct (base_prefix cfg env) as [f|bp0]; [cbn in H; contradiction|].
    destruct (negb (mem_str (py_upper (e_method env)) method_names)); [cbn in H; contradiction|].
    destruct (endswith _ wk_caldav || endswith _ wk_carddav); [cbn in H; contradiction|].
    destruct (endswith _ wk || contains_sub wk_slash _); [cbn in H; contradiction|].
    destruct (creds cfg env) as [|ext l pw] eqn:Ec; [cbn in H; contradiction|].
    destruct (nonempty l) eqn:El.
    - destruct (backend_login (c_kind cfg) (mapped cfg l) pw) as [user0|] eqn:Eb.
      + cbn [with_effects r_effects app] in H. destruct H as [H|H]; [discriminate|].
        apply after_login_home in H as (H1 & H2 & H3 & H4 & H4' & H5 & H6). subst.
        exists ext, l, pw. repeat split; auto. apply nonempty_true_neq; exact El.
      + cbn in H. destruct H as [H|H]; [discriminate|contradiction].
    - apply after_login_home in H as (H1 & H2 & _). congruence.
  Qed.

  (* ------------------------------------------------------------ C05_rejected *)
  Theorem c05_rejected : forall cfg env ext l pw u,
    creds cfg env = CCreds ext l pw -> l <> [] ->
    backend_login (c_kind cfg) (mapped cfg l) pw = Some u ->
    (u = [] \/ is_safe_path_component u = false) ->
    let r := gate cfg env in
    (forall e, In e (r_effects r) -> is_dispatch e = false /\ is_home e = false) /\
    (is_early (r_final r) = true \/ r_final r = FError \/
     (ext = false /\ r_final r = FUnauthorized) \/ (ext = true /\ r_final r = FForbidden)) /\
    (reaches_auth cfg env = true -> clen_ok cfg env ->
     r_effects r = [EBackend (mapped cfg l) pw] /\
     r_final r = (if ext then FForbidden else FUnauthorized)).
  Proof.
    intros cfg env ext l pw u Hc Hl Hb Hu r. subst r. unfold Gate.gate, Gate.reaches_auth.
    destruct (base_prefix cfg env) as [f|bp0] eqn:Ebp.
    { cbn. split; [intros e []|]. split; [|discriminate]. left.
      destruct (base_prefix_inl _ _ _ Ebp) as [-> | ->]; reflexivity. }
    destruct (mem_str (py_upper (e_method env)) method_names); cbn [negb andb];
      [|cbn; split; [intros e []|split; [left; reflexivity|discriminate]]].
    destruct (endswith _ wk_caldav || endswith _ wk_carddav); cbn [negb andb];
      [cbn; split; [intros e []|split; [left; reflexivity|discriminate]]|].
    destruct (endswith _ wk || contains_sub wk_slash _); cbn [negb andb];
      [cbn; split; [intros e []|split; [left; reflexivity|discriminate]]|].
    rewrite Hc. apply nonempty_true_neq in Hl as Hl'. rewrite Hl', Hb.
    pose proof (after_login_rejected cfg env (py_upper (e_method env)) bp0 (request_path env bp0) ext l u Hl Hu)
      as (He & Hf & Hok).
    cbn [with_effects r_effects r_final]. rewrite He. cbn [app].
    split; [intros e [<-|[]]; split; reflexivity|].
    split.
    - destruct Hf as [Hf|[Hf|[Hf|Hf]]]; rewrite Hf; [left; reflexivity|left; reflexivity|right; left; reflexivity|].
      destruct ext; [right; right; right|right; right; left]; split; reflexivity.
    - intros _ Hcl. split; [reflexivity|]. apply Hok; exact Hcl.
  Qed.

  (* the back-end itself fails: the request fails, nothing runs *)
  Theorem c05_backend_raises : forall cfg env ext l pw,
    reaches_auth cfg env = true -> creds cfg env = CCreds ext l pw -> l <> [] ->
    backend_login (c_kind cfg) (mapped cfg l) pw = None ->
    gate cfg env = {| r_effects := [EBackend (mapped cfg l) pw]; r_final := FError |}.
  Proof.
    intros cfg env ext l pw Hr Hc Hl Hb. unfold Gate.gate, Gate.reaches_auth in *.
    destruct (base_prefix cfg env) as [f|bp0]; [discriminate|].
    destruct (mem_str (py_upper (e_method env)) method_names); [|discriminate]. cbn [negb andb] in *.
    destruct (endswith _ wk_caldav || endswith _ wk_carddav); [discriminate|]. cbn [negb andb] in *.
    destruct (endswith _ wk || contains_sub wk_slash _); [discriminate|].
    rewrite Hc. apply nonempty_true_neq in Hl. rewrite Hl, Hb. reflexivity.
  Qed.

  (* ------------------------------------------------------------ C05_malformed *)
  Theorem c05_malformed : forall cfg env,
    reaches_auth cfg env = true -> external_login (c_kind cfg) env = None ->
    startswith (e_auth env) basic = true ->
    let payload := py_strip (skipn 5 (e_auth env)) in
    (is_ascii payload = false \/ basic_decode (e_ctype env) payload = None \/
     exists t, basic_decode (e_ctype env) payload = Some t /\ contains_char colon t = false) ->
    creds cfg env = CFail /\ gate cfg env = early FError.
  Proof.
    intros cfg env Hr He Hb payload Hm. subst payload.
    assert (Hc : creds cfg env = CFail).
    { unfold Gate.creds. rewrite He, Hb.
      destruct Hm as [Hm|[Hm|[t [Hm1 Hm2]]]].
      - rewrite Hm. reflexivity.
      - destruct (negb (is_ascii _)); [reflexivity|]. rewrite Hm. reflexivity.
      - destruct (negb (is_ascii _)); [reflexivity|]. rewrite Hm1, (split1_nocolon _ _ Hm2). reflexivity. }
    split; [exact Hc|].
    unfold Gate.gate, Gate.reaches_auth in *.
    destruct (base_prefix cfg env) as [f|bp0]; [discriminate|].
    destruct (mem_str (py_upper (e_method env)) method_names); [|discriminate]. cbn [negb andb] in *.
    destruct (endswith _ wk_caldav || endswith _ wk_carddav); [discriminate|]. cbn [negb andb] in *.
    destruct (endswith _ wk || contains_sub wk_slash _); [discriminate|].
    rewrite Hc. reflexivity.
  Qed.

  (* conversely: credentials come out of a Basic header only through the decoder, split at the FIRST colon *)
  Theorem c05_creds_basic : forall cfg env l pw,
    creds cfg env = CCreds false l pw -> l <> [] ->
    external_login (c_kind cfg) env = None /\ startswith (e_auth env) basic = true /\
    exists t, basic_decode (e_ctype env) (py_strip (skipn 5 (e_auth env))) = Some t
              /\ t = l ++ colon :: pw /\ contains_char colon l = false.
  Proof.
    intros cfg env l pw H Hl. unfold Gate.creds in H.
    destruct (external_login (c_kind cfg) env) as [[l' p']|]; [discriminate|].
    split; [reflexivity|].
    destruct (startswith (e_auth env) basic); [|inversion H; subst; congruence].
    split; [reflexivity|].
    destruct (negb (is_ascii _)); [discriminate|].
    destruct (basic_decode _ _) as [t|]; [|discriminate].
    exists t. split; [reflexivity|].
    destruct (split1 colon t) as [a [b|]] eqn:Es; [|discriminate]. inversion H; subst. clear H Hl.
    revert l Es. induction t as [|x r IH]; simpl; intros l Es; [discriminate|].
    destruct (N.eqb x colon) eqn:Ex.
    - inversion Es; subst. apply N.eqb_eq in Ex. subst. split; reflexivity.
    - destruct (split1 colon r) as [a' b'] eqn:Es'. inversion Es; subst.
      destruct (IH a' eq_refl) as [IH1 IH2]. split; [simpl; f_equal; exact IH1|].
      simpl. rewrite Ex. exact IH2.
  Qed.

  (* ------------------------------------------------------------ C05_spoof *)
  Theorem c05_spoof : forall cfg env ru xru,
    c_kind cfg <> ARemoteUser -> c_kind cfg <> AXRemoteUser ->
    gate cfg (set_identity_headers env ru xru) = gate cfg env.
  Proof.
    intros cfg env ru xru H1 H2. destruct cfg as [sn i ml k lc uc sd], env. cbn in H1, H2.
    destruct k; try contradiction; reflexivity.
  Qed.

  Theorem c05_spoof_remote_user : forall cfg env xru,
    c_kind cfg = ARemoteUser ->
    gate cfg (set_identity_headers env (e_remote_user env) xru) = gate cfg env.
  Proof.
    intros cfg env xru H. destruct cfg as [sn i ml k lc uc sd], env. cbn in H. subst k. reflexivity.
  Qed.

  Theorem c05_spoof_x_remote_user : forall cfg env ru,
    c_kind cfg = AXRemoteUser ->
    gate cfg (set_identity_headers env ru (e_x_remote_user env)) = gate cfg env.
  Proof.
    intros cfg env ru H. destruct cfg as [sn i ml k lc uc sd], env. cbn in H. subst k. reflexivity.
  Qed.

  (* ------------------------------------------------------------ at most one handler call *)
  Lemma after_login_dispatch_count : forall cfg env m bp path ext login user0,
    (List.length (filter is_dispatch (r_effects (after_login cfg env m bp path ext login user0))) <= 1)%nat.
  Proof.
    intros. unfold Gate.after_login. split_ifs; cbn; lia.
  Qed.

  Theorem c05_dispatch_once : forall cfg env,
    (List.length (filter is_dispatch (r_effects (gate cfg env))) <= 1)%nat.
  Proof.
    intros cfg env. unfold Gate.gate.
    destruct (base_prefix cfg env) as [f|bp0]; [cbn; lia|].
    destruct (negb (mem_str (py_upper (e_method env)) method_names)); [cbn; lia|].
    destruct (endswith _ wk_caldav || endswith _ wk_carddav); [cbn; lia|].
    destruct (endswith _ wk || contains_sub wk_slash _); [cbn; lia|].
    destruct (creds cfg env) as [|ext l pw]; [cbn; lia|].
    destruct (nonempty l).
    - destruct (backend_login (c_kind cfg) (mapped cfg l) pw) as [user0|]; [|cbn; lia].
      cbn [with_effects r_effects app filter is_dispatch]. apply after_login_dispatch_count.
    - apply after_login_dispatch_count.
  Qed.

  (* 401 is always accompanied by WWW-Authenticate and never by a handler's own answer *)
  Theorem c05_401_challenge : forall f,
    (www_authenticate f = true <-> f = FUnauthorized) /\ (f = FUnauthorized -> status_of f = 401).
  Proof.
    intros f; split; [destruct f; cbn; split; intros H; try discriminate; reflexivity|intros ->; reflexivity].
  Qed.
End GateProofs.
