(* C11 -- the lock file identity is a function of filesystem_folder only; consequences for deployments. *)
From Coq Require Import List NArith Bool String Arith Lia.
Import ListNotations.
Require Import RV.Lib.PyStr RV.Proofs.PyStrLemmas RV.Model.C11Base RV.Model.C11LockIdent.
Open Scope string_scope.
Open Scope nat_scope.

Lemma lock_path_folder_only : forall c1 c2, sc_folder c1 = sc_folder c2 -> lock_path c1 = lock_path c2.
Proof. intros c1 c2 Hf. unfold lock_path. now rewrite Hf. Qed.

(* every other option may differ *)
Lemma lock_path_ignores_options : forall f c1 c2 a1 a2 b1 b2 s1 s2 m1 m2 u1 u2,
  lock_path (SConf f c1 a1 b1 s1 m1 u1) = lock_path (SConf f c2 a2 b2 s2 m2 u2).
Proof. intros. apply lock_path_folder_only. reflexivity. Qed.

Lemma deployment_one_lock_file : forall d, same_store d ->
  forall p q, p < List.length d -> q < List.length d -> lock_path (conf_of d p) = lock_path (conf_of d q).
Proof. intros d Hs p q Hp Hq. apply lock_path_folder_only. now apply Hs. Qed.

(* for instances serving one folder the file-keyed flock table grants exactly what the single lock of RwLockFile.v grants *)
Lemma compat_id_single : forall d, same_store d -> forall m p held,
  p < List.length d -> (forall e, In e held -> fst e < List.length d) ->
  compat_id lock_path d m p held = compat_single m held.
Proof.
  intros d Hs m p held Hp.
  induction held as [|e held IH]; intros Hin.
  - destruct m; reflexivity.
  - assert (He : fst e < List.length d) by (apply Hin; now left).
    assert (IH' := IH (fun e' H => Hin e' (or_intror H))).
    unfold compat_id in *. cbn [forallb].
    rewrite (deployment_one_lock_file d Hs (fst e) p He Hp), eqs_refl. cbn [negb orb].
    rewrite IH'. destruct e as [q me]. unfold compat_single. cbn [count is_mode snd].
    destruct m, me; cbn [modes_compat mode_eqb andb];
      destruct (count (is_mode W) held), (count (is_mode R) held); reflexivity.
Qed.

(* hence: a writer of one instance excludes every request of every instance of the deployment, a reader every writer *)
Lemma deployment_excludes : forall d, same_store d -> forall m p q mq held,
  p < List.length d -> q < List.length d -> (forall e, In e held -> fst e < List.length d) ->
  In (q, mq) held -> (m = W \/ mq = W) -> compat_id lock_path d m p held = false.
Proof.
  intros d Hs m p q mq held Hp Hq Hin Hheld Hw.
  unfold compat_id. apply not_true_is_false. intros Hall.
  rewrite forallb_forall in Hall. specialize (Hall _ Hheld). cbn [fst snd] in Hall.
  rewrite (deployment_one_lock_file d Hs q p Hq Hp), eqs_refl in Hall. cbn [negb orb] in Hall.
  destruct Hw as [-> | ->]; [destruct mq | destruct m]; discriminate.
Qed.

(* not vacuous: the example deployment (shared data, node-local caches, one node without cache folder) is one store,
   all three instances flock /srv/data/.Radicale.lock *)
Lemma ex_deployment_same_store : same_store ex_deployment.
Proof.
  intros p q Hp Hq. cbn in Hp, Hq.
  destruct p as [|[|[|p]]]; try lia; destruct q as [|[|[|q]]]; try lia; reflexivity.
Qed.
Lemma ex_deployment_lock_file : forall p, p < 3 -> lock_path (conf_of ex_deployment p) = ex_lock_file.
Proof. intros p Hp. destruct p as [|[|[|p]]]; try lia; vm_compute; reflexivity. Qed.
Lemma ex_deployment_excludes :
  compat_id lock_path ex_deployment R 1 [(0, W)] = false /\ compat_id lock_path ex_deployment W 2 [(0, R); (1, R)] = false /\
  compat_id lock_path ex_deployment R 2 [(0, R); (1, R)] = true.
Proof. vm_compute. repeat split. Qed.

(* a lock file placed by filesystem_cache_folder does NOT have the property: same store, different files, and a writer
   of node 1 is granted while node 0 holds LOCK_EX *)
Lemma lock_by_cache_refuted :
  same_store ex_deployment /\
  lock_path_by_cache (conf_of ex_deployment 0) <> lock_path_by_cache (conf_of ex_deployment 1) /\
  compat_id lock_path_by_cache ex_deployment W 1 [(0, W)] = true /\ compat_single W [(0, W)] = false.
Proof.
  split; [exact ex_deployment_same_store|]. split; [|vm_compute; split; reflexivity].
  vm_compute. discriminate.
Qed.
