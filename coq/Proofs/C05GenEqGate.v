(* C05, tie T: the statement skeleton of Application._handle_request (regenerated into
   Gen/GateSkelGen.v on every run: every statement from the reverse-proxy detection to the final return,
   logging stripped) is, line by line, the one Model/Gate.v was written from.  Compiled on its own by
   checks/C05.py (obligation Gen_gate_skeleton_eq), so that a changed guard / order of checks / handler
   argument breaks exactly this obligation and the correspondence, not the theorems about the model. *)
From Coq Require Import List String.
Import ListNotations.
Require RV.Gen.GateSkelGen.
Open Scope string_scope.
(* Model/Gate.v:  request_method/.upper -> `py_upper (e_method env)`;  reverse_proxy -> e_forwarded;
   base prefix -> base_prefix;  path -> request_path;  getattr do_* -> mem_str _ method_names;
   well-known -> wk_*;  credentials -> creds / external_login;  self._auth.login -> mapped + backend_login;
   unsafe name, principal collection, content length, dispatch guard, 401 rewriting -> after_login. *)
Definition expected_skeleton : list string := [
  "request_method = environ['REQUEST_METHOD'].upper()";
  "unsafe_path = environ.get('PATH_INFO', '')";
  "reverse_proxy = False";
  "if environ.get('HTTP_X_FORWARDED_FOR'):";
  "  reverse_proxy = True";
  "if environ.get('HTTP_X_FORWARDED_HOST') or environ.get('HTTP_X_FORWARDED_PROTO') or environ.get('HTTP_X_FORWARDED_SERVER'):";
  "  reverse_proxy = True";
  "if self._script_name and reverse_proxy is True:";
  "  base_prefix_src = 'config'";
  "  base_prefix = self._script_name";
  "else:";
  "  base_prefix_src = 'HTTP_X_SCRIPT_NAME' if 'HTTP_X_SCRIPT_NAME' in environ else 'SCRIPT_NAME'";
  "  base_prefix = environ.get(base_prefix_src, '')";
  "  if base_prefix and base_prefix[0] != '/':";
  "    if base_prefix_src == 'HTTP_X_SCRIPT_NAME':";
  "      return response(*httputils.BAD_REQUEST)";
  "    return response(*httputils.INTERNAL_SERVER_ERROR)";
  "  if base_prefix.endswith('/'):";
  "    base_prefix = base_prefix.rstrip('/')";
  "path = pathutils.sanitize_path(unsafe_path)";
  "if reverse_proxy is True and len(base_prefix) > 0:";
  "  if (path + '/').startswith(base_prefix + '/'):";
  "    path_new = path[len(base_prefix):] or '/'";
  "    path = path_new";
  "function = getattr(self, 'do_%s' % request_method, None)";
  "if not function:";
  "  return response(*httputils.METHOD_NOT_ALLOWED)";
  "if path.rstrip('/').endswith('/.well-known/caldav') or path.rstrip('/').endswith('/.well-known/carddav'):";
  "  return response(*httputils.redirect(base_prefix + '/', client.MOVED_PERMANENTLY))";
  "if path.endswith('/.well-known') or '/.well-known/' in path:";
  "  return response(*httputils.NOT_FOUND)";
  "login = password = ''";
  "external_login = self._auth.get_external_login(environ)";
  "authorization = environ.get('HTTP_AUTHORIZATION', '')";
  "if external_login:";
  "  login, password = external_login";
  "  login, password = (login or '', password or '')";
  "else:";
  "  if authorization.startswith('Basic'):";
  "    authorization = authorization[len('Basic'):].strip()";
  "    login, password = httputils.decode_request(self.configuration, environ, base64.b64decode(authorization.encode('ascii'))).split(':', 1)";
  "user, info = self._auth.login(login, password) or ('', '') if login else ('', '')";
  "if self.configuration.get('auth', 'type') == 'ldap':";
  "  try:";
  "    self._rights._user_groups = self._auth._ldap_groups";
  "  except AttributeError:";
  "    pass";
  "if user and login == user:";
  "  pass";
  "else:";
  "  if user:";
  "    pass";
  "  else:";
  "    if login:";
  "      if self._auth_delay > 0:";
  "        random_delay = self._auth_delay * (0.5 + random.random())";
  "        time.sleep(random_delay)";
  "if user and (not pathutils.is_safe_path_component(user)):";
  "  user = ''";
  "if user:";
  "  principal_path = '/%s/' % user";
  "  with self._storage.acquire_lock('r', user):";
  "    principal = next(iter(self._storage.discover(principal_path, depth='1')), None)";
  "  if not principal:";
  "    if 'W' in self._rights.authorization(user, principal_path):";
  "      with self._storage.acquire_lock('w', user):";
  "        try:";
  "          new_coll = None";
  "          if not next(iter(self._storage.discover(principal_path, depth='1')), None):";
  "            new_coll = self._storage.create_collection(principal_path)";
  "          if new_coll:";
  "            jsn_coll = self.configuration.get('storage', 'predefined_collections')";
  "            for (name_coll, props) in jsn_coll.items():";
  "              try:";
  "                self._storage.create_collection(principal_path + name_coll, props=props)";
  "              except ValueError:";
  "                pass";
  "        except ValueError:";
  "          user = ''";
  "if self._internal_server:";
  "  content_length = int(environ.get('CONTENT_LENGTH') or 0)";
  "  if content_length < 0:";
  "    return response(*httputils.BAD_REQUEST)";
  "  if content_length:";
  "    if self._max_content_length > 0 and content_length > self._max_content_length:";
  "      return response(*httputils.REQUEST_ENTITY_TOO_LARGE)";
  "if not login or user:";
  "  status, headers, answer = function(environ, base_prefix, path, user)";
  "else:";
  "  status, headers, answer = httputils.NOT_ALLOWED";
  "if (status, headers, answer) == httputils.NOT_ALLOWED and (not user) and (not external_login):";
  "  status = client.UNAUTHORIZED";
  "  headers = dict(headers)";
  "  headers.update({'WWW-Authenticate': 'Basic realm=""%s""' % self._auth_realm})";
  "return response(status, headers, answer)"
].

Lemma Gen_gate_skeleton_eq : GateSkelGen.skeleton = expected_skeleton.
Proof. reflexivity. Qed.
