(* C17 -- lemmas about the association-list model of Python dicts (Model/LoginCache.v). *)
From Coq Require Import List ZArith NArith Bool Lia.
Import ListNotations.
Require Import RV.Lib.PyStr RV.Proofs.PyStrLemmas RV.Model.LoginCache.

Lemma dval_eqb_eq : forall a b, dval_eqb a b = true <-> a = b.
Proof.
  intros a b; split.
  - destruct a as [|s c|k s c], b as [|s' c'|k' s' c']; cbn [dval_eqb]; intros H; try discriminate; try reflexivity.
    + apply andb_prop in H as [Hs Hc].
      apply Z.eqb_eq in Hs. apply eqs_eq in Hc. congruence.
    + apply andb_prop in H as [H Hc]. apply andb_prop in H as [Hk Hs].
      apply Z.eqb_eq in Hs. apply eqs_eq in Hc. apply eqs_eq in Hk. congruence.
  - intros <-. destruct a as [|s c|k s c]; cbn [dval_eqb]; rewrite ?Z.eqb_refl, ?eqs_refl; reflexivity.
Qed.

(* ---------------------------------------------------------------- the key formats of the two dictionaries *)
(* The digest covers salt ++ login ++ password: it does NOT determine (login, password). *)
Lemma cache_digest_not_injective :
  exists l p l' p' s, (l, p) <> (l', p') /\ cache_digest l p s = cache_digest l' p' s.
Proof.
  exists [97%N; 98%N], [99%N], [97%N], [98%N; 99%N], 0%Z. split; [discriminate|reflexivity].
Qed.

(* Under one and the same login (the successful cache is keyed by the login) it determines the password. *)
Lemma cache_digest_same_login : forall l p p' s s',
  cache_digest l p s = cache_digest l p' s' -> s = s' /\ p = p'.
Proof.
  intros l p p' s s' H. unfold cache_digest in H. inversion H as [[Hs Hc]].
  split; [reflexivity|]. eapply app_inv_head. exact Hc.
Qed.

(* The key of the failed cache determines (login, password) -- exactly because the login is its prefix:
   equal prefixes give equal logins, and then equal concatenations give equal passwords. *)
Lemma failed_key_inj : forall s s' l p l' p',
  failed_key s l p = failed_key s' l' p' -> l = l' /\ p = p'.
Proof.
  intros s s' l p l' p' H. unfold failed_key in H. inversion H as [[Hl Hs Hc]]. subst l'.
  split; [reflexivity|]. eapply app_inv_head. exact Hc.
Qed.

Section DictLemmas.
  Context {K V : Type} (keqb : K -> K -> bool).
  Hypothesis keqb_eq : forall a b, keqb a b = true <-> a = b.

  Lemma keqb_refl : forall a, keqb a a = true.
  Proof. intros a. apply keqb_eq. reflexivity. Qed.

  Lemma keqb_neq : forall a b, keqb a b = false <-> a <> b.
  Proof.
    intros a b. destruct (keqb a b) eqn:E.
    - apply keqb_eq in E. split; [discriminate|congruence].
    - split; [|reflexivity]. intros _ H. apply keqb_eq in H. congruence.
  Qed.

  Notation dict := (list (K * V)).
  Notation keys := (map (@fst K V)).

  Lemma dget_In : forall (d : dict) k v, dget keqb d k = Some v -> In (k, v) d.
  Proof.
    induction d as [|[k' v'] r IH]; cbn [dget]; intros k v H; [discriminate|].
    destruct (keqb k' k) eqn:E.
    - apply keqb_eq in E. inversion H. subst. left. reflexivity.
    - right. apply IH. exact H.
  Qed.

  Lemma dget_key_In : forall (d : dict) k v, dget keqb d k = Some v -> In k (keys d).
  Proof. intros d k v H. apply dget_In in H. apply (in_map fst) in H. exact H. Qed.

  Lemma dget_None : forall (d : dict) k, dget keqb d k = None <-> ~ In k (keys d).
  Proof.
    induction d as [|[k' v'] r IH]; cbn [dget map fst]; intros k.
    - split; [intros _ []|reflexivity].
    - destruct (keqb k' k) eqn:E.
      + apply keqb_eq in E. subst. split; [discriminate|]. intros H. exfalso. apply H. left. reflexivity.
      + apply keqb_neq in E. rewrite IH. cbn [In]. tauto.
  Qed.

  Lemma In_key_dget : forall (d : dict) k, In k (keys d) -> exists v, dget keqb d k = Some v.
  Proof.
    intros d k H. destruct (dget keqb d k) eqn:E; [eauto|]. apply dget_None in E. contradiction.
  Qed.

  Lemma In_dget : forall (d : dict) k v, NoDup (keys d) -> In (k, v) d -> dget keqb d k = Some v.
  Proof.
    induction d as [|[k' v'] r IH]; cbn [dget map fst]; intros k v ND H; [destruct H|].
    inversion ND as [|? ? Hn ND']; subst.
    destruct H as [H|H].
    - inversion H; subst. rewrite keqb_refl. reflexivity.
    - destruct (keqb k' k) eqn:E.
      + apply keqb_eq in E. subst. exfalso. apply Hn. apply (in_map fst) in H. exact H.
      + apply IH; assumption.
  Qed.

  (* ---- dset *)
  Lemma dset_In : forall (d : dict) k v k' v', In (k', v') (dset keqb d k v) -> (k' = k /\ v' = v) \/ In (k', v') d.
  Proof.
    induction d as [|[k0 v0] r IH]; cbn [dset]; intros k v k' v' H.
    - destruct H as [H|[]]. inversion H. left. split; reflexivity.
    - destruct (keqb k0 k) eqn:E.
      + apply keqb_eq in E. subst. destruct H as [H|H].
        * inversion H. left. split; reflexivity.
        * right. right. exact H.
      + destruct H as [H|H].
        * right. left. exact H.
        * apply IH in H. destruct H as [H|H]; [left; exact H|right; right; exact H].
  Qed.

  Lemma dset_keys : forall (d : dict) k v x, In x (keys (dset keqb d k v)) <-> x = k \/ In x (keys d).
  Proof.
    induction d as [|[k0 v0] r IH]; cbn [dset map fst In]; intros k v x.
    - split; [intros [H|[]]; left; congruence | intros [H|[]]; left; congruence].
    - destruct (keqb k0 k) eqn:E; cbn [map fst In].
      + apply keqb_eq in E. subst. split; [tauto|]. intros [H|H]; [left; congruence|exact H].
      + rewrite IH. split; [tauto|]. intros [H|[H|H]]; tauto.
  Qed.

  Lemma dset_NoDup : forall (d : dict) k v, NoDup (keys d) -> NoDup (keys (dset keqb d k v)).
  Proof.
    induction d as [|[k0 v0] r IH]; cbn [dset map fst]; intros k v ND.
    - constructor; [intros []|constructor].
    - inversion ND as [|? ? Hn ND']; subst.
      destruct (keqb k0 k) eqn:E; cbn [map fst].
      + constructor; assumption.
      + constructor; [|apply IH; exact ND'].
        intros H. apply dset_keys in H. destruct H as [H|H]; [|contradiction].
        apply keqb_neq in E. congruence.
  Qed.

  Lemma dget_dset_same : forall (d : dict) k v, dget keqb (dset keqb d k v) k = Some v.
  Proof.
    induction d as [|[k0 v0] r IH]; cbn [dset dget]; intros k v.
    - rewrite keqb_refl. reflexivity.
    - destruct (keqb k0 k) eqn:E; cbn [dget]; rewrite E; [reflexivity|apply IH].
  Qed.

  Lemma dget_dset_other : forall (d : dict) k v k', k <> k' -> dget keqb (dset keqb d k v) k' = dget keqb d k'.
  Proof.
    induction d as [|[k0 v0] r IH]; cbn [dset dget]; intros k v k' N.
    - apply keqb_neq in N. rewrite N. reflexivity.
    - destruct (keqb k0 k) eqn:E; cbn [dget].
      + apply keqb_eq in E. subst. apply keqb_neq in N. rewrite N. reflexivity.
      + destruct (keqb k0 k'); [reflexivity|apply IH; exact N].
  Qed.

  Lemma dset_notin_app : forall (d : dict) k v, ~ In k (keys d) -> dset keqb d k v = d ++ [(k, v)].
  Proof.
    induction d as [|[k0 v0] r IH]; cbn [dset map fst In app]; intros k v N; [reflexivity|].
    destruct (keqb k0 k) eqn:E.
    - apply keqb_eq in E. exfalso. apply N. left. exact E.
    - f_equal. apply IH. tauto.
  Qed.

  (* ---- ddel *)
  Lemma ddel_In : forall (d : dict) k e, In e (ddel keqb d k) -> In e d.
  Proof.
    induction d as [|[k0 v0] r IH]; cbn [ddel]; intros k e H; [exact H|].
    destruct (keqb k0 k); [right; exact H|].
    destruct H as [H|H]; [left; exact H|right; eapply IH; exact H].
  Qed.

  Lemma ddel_keys_In : forall (d : dict) k x, In x (keys (ddel keqb d k)) -> In x (keys d).
  Proof.
    induction d as [|[k0 v0] r IH]; cbn [ddel map fst]; intros k x H; [exact H|].
    destruct (keqb k0 k); cbn [map fst In] in *; [right; exact H|].
    destruct H as [H|H]; [left; exact H|right; eapply IH; exact H].
  Qed.

  Lemma ddel_keys_other : forall (d : dict) k x, x <> k -> In x (keys d) -> In x (keys (ddel keqb d k)).
  Proof.
    induction d as [|[k0 v0] r IH]; cbn [ddel map fst In]; intros k x N H; [exact H|].
    destruct (keqb k0 k) eqn:E; cbn [map fst In].
    - apply keqb_eq in E. subst. destruct H as [H|H]; [congruence|exact H].
    - destruct H as [H|H]; [left; exact H|right; apply IH; assumption].
  Qed.

  Lemma ddel_NoDup : forall (d : dict) k, NoDup (keys d) -> NoDup (keys (ddel keqb d k)).
  Proof.
    induction d as [|[k0 v0] r IH]; cbn [ddel map fst]; intros k ND; [exact ND|].
    inversion ND as [|? ? Hn ND']; subst.
    destruct (keqb k0 k); cbn [map fst]; [exact ND'|].
    constructor; [|apply IH; exact ND'].
    intros H. apply Hn. eapply ddel_keys_In. exact H.
  Qed.

  Lemma ddel_notin : forall (d : dict) k, ~ In k (keys d) -> ddel keqb d k = d.
  Proof.
    induction d as [|[k0 v0] r IH]; cbn [ddel map fst In]; intros k N; [reflexivity|].
    destruct (keqb k0 k) eqn:E.
    - apply keqb_eq in E. exfalso. apply N. left. exact E.
    - f_equal. apply IH. tauto.
  Qed.

  (* ---- filter *)
  Lemma filter_keys_In : forall (f : K * V -> bool) (d : dict) x, In x (keys (filter f d)) -> In x (keys d).
  Proof.
    intros f d x H. apply in_map_iff in H as [e [He Hin]]. apply filter_In in Hin as [Hin _].
    subst. apply in_map. exact Hin.
  Qed.

  Lemma filter_NoDup : forall (f : K * V -> bool) (d : dict), NoDup (keys d) -> NoDup (keys (filter f d)).
  Proof.
    intros f. induction d as [|[k0 v0] r IH]; cbn [filter map fst]; intros ND; [constructor|].
    inversion ND as [|? ? Hn ND']; subst.
    destruct (f (k0, v0)); cbn [map fst]; [|apply IH; exact ND'].
    constructor; [|apply IH; exact ND'].
    intros H. apply Hn. eapply filter_keys_In. exact H.
  Qed.

  Lemma dget_filter : forall (f : K * V -> bool) (d : dict) k, NoDup (keys d) ->
    dget keqb (filter f d) k = match dget keqb d k with
                               | Some v => if f (k, v) then Some v else None
                               | None => None
                               end.
  Proof.
    intros f. induction d as [|[k0 v0] r IH]; cbn [filter dget map fst]; intros k ND; [reflexivity|].
    inversion ND as [|? ? Hn ND']; subst.
    destruct (keqb k0 k) eqn:E.
    - apply keqb_eq in E. subst. destruct (f (k, v0)) eqn:F; cbn [dget].
      + rewrite keqb_refl. reflexivity.
      + destruct (dget keqb (filter f r) k) eqn:G; [|reflexivity].
        exfalso. apply Hn. eapply filter_keys_In. eapply dget_key_In. exact G.
    - destruct (f (k0, v0)); cbn [dget]; [rewrite E|]; apply IH; exact ND'.
  Qed.

  (* filters that look at the key only (restriction to one login) *)
  Section KeyFilter.
    Variable g : K -> bool.
    Definition fkey (e : K * V) : bool := g (fst e).
    Lemma fkey_pair : forall k v, fkey (k, v) = g k.
    Proof. reflexivity. Qed.

    Lemma dget_filter_key : forall (d : dict) k, dget keqb (filter fkey d) k = if g k then dget keqb d k else None.
    Proof.
      induction d as [|[k0 v0] r IH]; intros k.
      - cbn [filter dget]. destruct (g k); reflexivity.
      - cbn [filter dget]. rewrite !fkey_pair. destruct (g k0) eqn:G0.
        + cbn [dget]. destruct (keqb k0 k) eqn:E.
          * apply keqb_eq in E. subst. rewrite G0. reflexivity.
          * apply IH.
        + rewrite IH. destruct (keqb k0 k) eqn:E; [|reflexivity].
          apply keqb_eq in E. subst. rewrite G0. reflexivity.
    Qed.

    Lemma filter_key_dset : forall (d : dict) k v,
      filter fkey (dset keqb d k v) = if g k then dset keqb (filter fkey d) k v else filter fkey d.
    Proof.
      induction d as [|[k0 v0] r IH]; intros k v.
      - cbn [dset filter]. rewrite !fkey_pair. destruct (g k); reflexivity.
      - cbn [dset]. destruct (keqb k0 k) eqn:E.
        + apply keqb_eq in E. subst. cbn [filter]. rewrite !fkey_pair.
          destruct (g k) eqn:G; [|reflexivity]. cbn [dset]. rewrite keqb_refl. reflexivity.
        + cbn [filter]. rewrite !fkey_pair. rewrite IH.
          destruct (g k0) eqn:G0, (g k) eqn:G; cbn [dset]; rewrite ?E; reflexivity.
    Qed.

    Lemma filter_key_ddel : forall (d : dict) k,
      filter fkey (ddel keqb d k) = if g k then ddel keqb (filter fkey d) k else filter fkey d.
    Proof.
      induction d as [|[k0 v0] r IH]; intros k.
      - cbn [ddel filter]. destruct (g k); reflexivity.
      - cbn [ddel]. destruct (keqb k0 k) eqn:E.
        + apply keqb_eq in E. subst. cbn [filter]. rewrite !fkey_pair.
          destruct (g k) eqn:G; [|reflexivity]. cbn [ddel]. rewrite keqb_refl. reflexivity.
        + cbn [filter]. rewrite !fkey_pair. rewrite IH.
          destruct (g k0) eqn:G0, (g k) eqn:G; cbn [ddel]; rewrite ?E; reflexivity.
    Qed.
  End KeyFilter.
End DictLemmas.

(* generic list facts *)
Lemma filter_filter_same : forall {A} (f : A -> bool) (l : list A), filter f (filter f l) = filter f l.
Proof.
  intros A f. induction l as [|x r IH]; cbn [filter]; [reflexivity|].
  destruct (f x) eqn:E; cbn [filter]; [rewrite E, IH|]; auto.
Qed.

Lemma filter_comm : forall {A} (f g : A -> bool) (l : list A), filter f (filter g l) = filter g (filter f l).
Proof.
  intros A f g. induction l as [|x r IH]; cbn [filter]; [reflexivity|].
  destruct (g x) eqn:G, (f x) eqn:F; cbn [filter]; rewrite ?G, ?F, IH; reflexivity.
Qed.

Lemma filter_filter_impl : forall {A} (f g : A -> bool) (l : list A),
  (forall x, f x = true -> g x = true) -> filter f (filter g l) = filter f l.
Proof.
  intros A f g l H. induction l as [|x r IH]; cbn [filter]; [reflexivity|].
  destruct (g x) eqn:G; cbn [filter].
  - rewrite IH. reflexivity.
  - destruct (f x) eqn:F; [|exact IH]. apply H in F. congruence.
Qed.

Lemma filter_all_true : forall {A} (f : A -> bool) (l : list A),
  filter (fun x => negb (f x)) l = [] -> filter f l = l.
Proof.
  intros A f. induction l as [|x r IH]; cbn [filter]; intros H; [reflexivity|].
  destruct (f x); cbn [negb] in H; [f_equal; apply IH; exact H|discriminate].
Qed.
