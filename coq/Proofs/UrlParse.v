(* C18: urlsplit on the URLs the server emits, on absolute http(s) URLs and on origin-form request targets *)
From Coq Require Import List NArith Bool Lia ZifyBool String.
Import ListNotations.
Require Import RV.Lib.PyStr RV.Model.Path RV.Model.Url RV.Proofs.PyStrLemmas RV.Proofs.UrlPercent.
Open Scope list_scope. Open Scope N_scope.

(* ---------------------------------------------------------------- split1 *)
Lemma split1_none : forall c s, contains_char c s = false -> split1 c s = (s, None).
Proof.
  induction s as [|x s IH]; intros H; [reflexivity|]. cbn [contains_char] in H.
  apply orb_false_iff in H as [H1 H2]. cbn [split1]. rewrite H1, (IH H2). reflexivity.
Qed.

Lemma split1_app_sep : forall c a b, contains_char c a = false -> split1 c (a ++ c :: b) = (a, Some b).
Proof.
  induction a as [|x a IH]; intros b H; cbn [app split1].
  - rewrite N.eqb_refl. reflexivity.
  - cbn [contains_char] in H. apply orb_false_iff in H as [H1 H2]. rewrite H1, (IH b H2). reflexivity.
Qed.

Lemma split1_fst_no : forall c s, contains_char c (fst (split1 c s)) = false.
Proof.
  induction s as [|x s IH]; [reflexivity|]. cbn [split1]. destruct (x =? c) eqn:E; [reflexivity|].
  destruct (split1 c s) as [a b]. cbn [fst contains_char] in *. rewrite E, IH. reflexivity.
Qed.

(* ---------------------------------------------------------------- the cleaning steps of urlsplit *)
Definition clean_char (c : N) : bool := negb ((c =? 9) || (c =? 10) || (c =? 13)).

Lemma remove_unsafe_id : forall s, forallb clean_char s = true -> remove_unsafe s = s.
Proof.
  induction s as [|c s IH]; intros H; [reflexivity|]. cbn [forallb] in H. apply andb_true_iff in H as [H1 H2].
  unfold remove_unsafe in *. cbn [filter]. unfold clean_char in H1. rewrite H1, (IH H2). reflexivity.
Qed.

Lemma remove_unsafe_app : forall a b, remove_unsafe (a ++ b) = remove_unsafe a ++ remove_unsafe b.
Proof. intros. unfold remove_unsafe. apply filter_app. Qed.

Lemma url_chars_clean : forall s, forallb url_char s = true -> forallb clean_char s = true.
Proof.
  induction s as [|c s IH]; intros H; [reflexivity|]. cbn [forallb] in *. apply andb_true_iff in H as [H1 H2].
  rewrite (IH H2), andb_true_r. apply url_char_range in H1. unfold clean_char. lia.
Qed.

Lemma lstrip_c0_head : forall c s, 32 < c -> lstrip_c0 (c :: s) = c :: s.
Proof. intros c s H. cbn [lstrip_c0]. replace (c <=? 32) with false by lia. reflexivity. Qed.

(* ---------------------------------------------------------------- origin-form targets: "/..." but not "//..." *)
Lemma split_scheme_slash : forall r, split_scheme (slash :: r) = ([], slash :: r).
Proof.
  intros r. unfold split_scheme. cbn [split1]. replace (slash =? colon) with false by reflexivity.
  destruct (split1 colon r) as [a [b|]]; reflexivity.
Qed.

Theorem urlsplit_origin_form : forall t, startswith t [slash] = true -> startswith t [slash; slash] = false ->
  forallb clean_char t = true ->
  urlsplit t = UOk {| u_scheme := []; u_netloc := []; u_path := fst (split1 63 (fst (split1 35 t))) |}.
Proof.
  intros t H1 H2 Hc. destruct t as [|c r]; [discriminate|]. rewrite startswith_single in H1. apply N.eqb_eq in H1. subst c.
  unfold urlsplit. rewrite lstrip_c0_head by (unfold slash; lia). rewrite remove_unsafe_id by exact Hc.
  rewrite split_scheme_slash, H2. reflexivity.
Qed.

(* what the server emits: nothing in it is taken for a scheme, an authority, a query or a fragment *)
Theorem urlsplit_wf : forall h, wf_quoted h = true -> startswith h [slash] = true -> startswith h [slash; slash] = false ->
  urlsplit h = UOk {| u_scheme := []; u_netloc := []; u_path := h |}.
Proof.
  intros h Hwf H1 H2. pose proof (wf_quoted_url_chars h Hwf) as Hu.
  rewrite urlsplit_origin_form; [|assumption|assumption|apply url_chars_clean; exact Hu].
  rewrite (split1_none 35 h) by (apply url_chars_lack; [reflexivity|exact Hu]). cbn [fst].
  rewrite (split1_none 63 h) by (apply url_chars_lack; [reflexivity|exact Hu]). reflexivity.
Qed.

(* ---------------------------------------------------------------- absolute URLs *)
(* a host[:port] as it appears in a Destination: printable ASCII without the delimiters / ? # [ ] *)
Definition host_char (c : N) : bool :=
  (32 <? c) && (c <? 128) && negb (netloc_delim c) && negb (c =? 91) && negb (c =? 93).

Lemma span_netloc_host : forall host rest, forallb host_char host = true -> startswith rest [slash] = true ->
  span_netloc (host ++ rest) = (host, rest).
Proof.
  induction host as [|c host IH]; intros rest Hh Hr.
  - destruct rest as [|x rest]; [discriminate|]. rewrite startswith_single in Hr. apply N.eqb_eq in Hr. subst x. reflexivity.
  - cbn [forallb] in Hh. apply andb_true_iff in Hh as [Hc Hh]. cbn [app span_netloc].
    assert (E : netloc_delim c = false) by (unfold host_char in Hc; destruct (netloc_delim c); [lia|reflexivity]).
    rewrite E, (IH rest Hh Hr). reflexivity.
Qed.

Lemma host_chars_facts : forall host, forallb host_char host = true ->
  forallb clean_char host = true /\ contains_char 91 host = false /\ contains_char 93 host = false /\ all_ascii host = true.
Proof.
  induction host as [|c host IH]; intros H; [repeat split; reflexivity|].
  cbn [forallb] in H. apply andb_true_iff in H as [Hc Hh]. destruct (IH Hh) as (I1 & I2 & I3 & I4).
  unfold all_ascii in *. cbn [forallb contains_char]. rewrite I1, I2, I3, I4.
  unfold host_char, netloc_delim in Hc. unfold clean_char. repeat split; lia.
Qed.

Definition http_scheme (sch : pystr) : Prop := sch = str "http" \/ sch = str "https".

Theorem urlsplit_absolute : forall sch host rest, http_scheme sch -> forallb host_char host = true ->
  startswith rest [slash] = true -> forallb clean_char rest = true ->
  urlsplit (sch ++ str "://" ++ host ++ rest)
  = UOk {| u_scheme := sch; u_netloc := host; u_path := fst (split1 63 (fst (split1 35 rest))) |}.
Proof.
  intros sch host rest Hsch Hh Hr Hc. destruct (host_chars_facts host Hh) as (F1 & F2 & F3 & F4).
  unfold urlsplit.
  assert (E0 : remove_unsafe (lstrip_c0 (sch ++ str "://" ++ host ++ rest)) = sch ++ colon :: slash :: slash :: host ++ rest).
  { destruct Hsch as [-> | ->].
    - change (str "http" ++ str "://" ++ host ++ rest) with (104 :: 116 :: 116 :: 112 :: 58 :: 47 :: 47 :: host ++ rest).
      rewrite lstrip_c0_head by lia. rewrite remove_unsafe_id; [reflexivity|].
      cbn [forallb]. rewrite forallb_app, F1, Hc. reflexivity.
    - change (str "https" ++ str "://" ++ host ++ rest) with (104 :: 116 :: 116 :: 112 :: 115 :: 58 :: 47 :: 47 :: host ++ rest).
      rewrite lstrip_c0_head by lia. rewrite remove_unsafe_id; [reflexivity|].
      cbn [forallb]. rewrite forallb_app, F1, Hc. reflexivity. }
  rewrite E0.
  assert (E1 : split_scheme (sch ++ colon :: slash :: slash :: host ++ rest) = (sch, slash :: slash :: host ++ rest)).
  { unfold split_scheme. destruct Hsch as [-> | ->]; (rewrite split1_app_sep by reflexivity); reflexivity. }
  rewrite E1. cbn [startswith]. rewrite N.eqb_refl. cbn [andb skipn].
  rewrite (span_netloc_host host rest Hh Hr). rewrite F2, F3, F4. reflexivity.
Qed.

(* ---------------------------------------------------------------- ports *)
Lemma after_last_at_none : forall s, contains_char 64 s = false -> after_last_at s = s.
Proof.
  destruct s as [|c r]; intros H; [reflexivity|]. cbn [contains_char] in H. apply orb_false_iff in H as [H1 H2].
  cbn [after_last_at]. rewrite H2, H1. reflexivity.
Qed.
