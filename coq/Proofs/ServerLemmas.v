(* C20 -- list-level lemmas about the helpers of Model/Server.v *)
From Coq Require Import List ZArith NArith Bool Lia Permutation.
Import ListNotations.
Require Import RV.Model.Server.
Open Scope Z_scope.

Lemma memN_In : forall x l, memN x l = true <-> In x l.
Proof.
  intros x l. unfold memN. rewrite existsb_exists. split.
  - intros [y [Hy He]]. apply N.eqb_eq in He. subst. exact Hy.
  - intro H. exists x. split; [exact H | apply N.eqb_refl].
Qed.

Lemma memN_false : forall x l, memN x l = false <-> ~ In x l.
Proof.
  intros x l. rewrite <- memN_In. destruct (memN x l); intuition congruence.
Qed.

(* ---- updates keep identities ---- *)
Definition keeps_id (f : worker -> worker) := forall w, w_id (f w) = w_id w.
Definition keeps_bid (f : bconn -> bconn) := forall b, b_id (f b) = b_id b /\ b_lis (f b) = b_lis b.

Lemma keeps_id_set_st : forall st, keeps_id (set_st st). Proof. intros st w. reflexivity. Qed.
Lemma keeps_id_set_wcl : forall cl, keeps_id (set_wcl cl). Proof. intros cl w. reflexivity. Qed.
Lemma keeps_bid_set_bcl : forall cl, keeps_bid (set_bcl cl). Proof. intros cl b. split; reflexivity. Qed.

Lemma ids_upd_w : forall c f ws, keeps_id f -> ids (upd_w c f ws) = ids ws.
Proof.
  intros c f ws Hf. unfold ids, upd_w. rewrite map_map. apply map_ext. intro w.
  destruct (N.eqb (w_id w) c); [apply Hf | reflexivity].
Qed.

Lemma length_upd_w : forall c f ws, length (upd_w c f ws) = length ws.
Proof. intros. unfold upd_w. apply map_length. Qed.

Lemma bids_upd_b : forall c f bs, keeps_bid f -> bids (upd_b c f bs) = bids bs.
Proof.
  intros c f bs Hf. unfold bids, upd_b. rewrite map_map. apply map_ext. intro b.
  destruct (N.eqb (b_id b) c); [apply Hf | reflexivity].
Qed.

Lemma has_queued_upd_b : forall c f bs l, keeps_bid f -> has_queued (upd_b c f bs) l = has_queued bs l.
Proof.
  intros c f bs l Hf. unfold has_queued, upd_b. induction bs as [|b r IH]; simpl; [reflexivity|].
  rewrite IH. destruct (N.eqb (b_id b) c); [|reflexivity]. destruct (Hf b) as [_ H2]. rewrite H2. reflexivity.
Qed.

Lemma lis_upd_b : forall c f bs, keeps_bid f -> map b_lis (upd_b c f bs) = map b_lis bs.
Proof.
  intros c f bs Hf. unfold upd_b. rewrite map_map. apply map_ext. intro b.
  destruct (N.eqb (b_id b) c); [apply Hf | reflexivity].
Qed.

Lemma has_queued_app : forall bs bs' l, has_queued (bs ++ bs') l = has_queued bs l || has_queued bs' l.
Proof. intros. unfold has_queued. apply existsb_app. Qed.

Lemma has_queued_In : forall bs l, has_queued bs l = true <-> exists b, In b bs /\ b_lis b = l.
Proof.
  intros bs l. unfold has_queued. rewrite existsb_exists. split; intros [b [H1 H2]]; exists b; split; auto.
  - apply N.eqb_eq. exact H2.
  - apply N.eqb_eq. exact H2.
Qed.

(* ---- find / uniqueness ---- *)
Lemma find_w_In : forall c ws w, find_w c ws = Some w -> In w ws /\ w_id w = c.
Proof.
  intros c ws w H. unfold find_w in H. apply find_some in H. destruct H as [H1 H2].
  split; [exact H1 | apply N.eqb_eq; exact H2].
Qed.

Lemma find_b_In : forall c bs b, find_b c bs = Some b -> In b bs /\ b_id b = c.
Proof.
  intros c bs b H. unfold find_b in H. apply find_some in H. destruct H as [H1 H2].
  split; [exact H1 | apply N.eqb_eq; exact H2].
Qed.

Lemma find_b_None : forall c bs, find_b c bs = None -> ~ In c (bids bs).
Proof.
  intros c bs H Hin. unfold bids in Hin. apply in_map_iff in Hin. destruct Hin as [b [Hb1 Hb2]].
  unfold find_b in H. eapply find_none in H; [|exact Hb2]. simpl in H. rewrite Hb1, N.eqb_refl in H. discriminate.
Qed.

Lemma NoDup_ids_unique : forall ws w w', NoDup (ids ws) -> In w ws -> In w' ws -> w_id w = w_id w' -> w = w'.
Proof.
  induction ws as [|a r IH]; intros w w' Hnd Hw Hw' Heq; [destruct Hw|].
  simpl in Hnd. inversion Hnd as [|x l Hnotin Hnd']; subst.
  destruct Hw as [Hw|Hw]; destruct Hw' as [Hw'|Hw'].
  - congruence.
  - subst a. exfalso. apply Hnotin. rewrite Heq. unfold ids. apply in_map. exact Hw'.
  - subst a. exfalso. apply Hnotin. rewrite <- Heq. unfold ids. apply in_map. exact Hw.
  - apply IH; assumption.
Qed.

Lemma find_w_unique : forall c ws w w', NoDup (ids ws) -> find_w c ws = Some w -> In w' ws -> w_id w' = c -> w' = w.
Proof.
  intros c ws w w' Hnd Hf Hin Hid. apply find_w_In in Hf. destruct Hf as [Hf1 Hf2].
  eapply NoDup_ids_unique; eauto. congruence.
Qed.

Lemma In_find_w : forall ws w, NoDup (ids ws) -> In w ws -> find_w (w_id w) ws = Some w.
Proof.
  intros ws w Hnd Hin. destruct (find_w (w_id w) ws) as [w'|] eqn:E.
  - f_equal. symmetry. eapply find_w_unique; eauto.
  - unfold find_w in E. eapply find_none in E; [|exact Hin]. simpl in E. rewrite N.eqb_refl in E. discriminate.
Qed.

(* membership through an update *)
Lemma In_upd_w : forall c f ws w, In w (upd_w c f ws) ->
  exists w0, In w0 ws /\ ((w_id w0 = c /\ w = f w0) \/ (w_id w0 <> c /\ w = w0)).
Proof.
  intros c f ws w H. unfold upd_w in H. apply in_map_iff in H. destruct H as [w0 [H1 H2]].
  exists w0. split; [exact H2|]. destruct (N.eqb (w_id w0) c) eqn:E.
  - left. apply N.eqb_eq in E. auto.
  - right. apply N.eqb_neq in E. auto.
Qed.

Lemma In_upd_w_other : forall c f ws w, In w ws -> w_id w <> c -> In w (upd_w c f ws).
Proof.
  intros c f ws w H Hne. unfold upd_w. apply in_map_iff. exists w. split; [|exact H].
  apply N.eqb_neq in Hne. rewrite Hne. reflexivity.
Qed.

Lemma In_upd_w_same : forall c f ws w, In w ws -> w_id w = c -> In (f w) (upd_w c f ws).
Proof.
  intros c f ws w H He. unfold upd_w. apply in_map_iff. exists w. split; [|exact H].
  apply N.eqb_eq in He. rewrite He. reflexivity.
Qed.

(* ---- listeners ---- *)
Lemma In_listeners_upto : forall n l, In l (listeners_upto n) <-> (l < N.of_nat n)%N.
Proof.
  induction n as [|k IH]; intro l; simpl.
  - split; [intros [] | lia].
  - rewrite in_app_iff, IH. simpl. split.
    + intros [H|[H|[]]]; lia.
    + intro H. destruct (N.eq_dec l (N.of_nat k)) as [E|E]; [right; left; auto | left; lia].
Qed.

Lemma In_ready_listeners : forall cfg bs l,
  In l (ready_listeners cfg bs) <-> (l < n_listen cfg)%N /\ has_queued bs l = true.
Proof.
  intros cfg bs l. unfold ready_listeners. rewrite filter_In, In_listeners_upto, N2Nat.id. reflexivity.
Qed.

(* ---- accept: take_first ---- *)
Lemma take_first_perm : forall l bs b rest, take_first l bs = Some (b, rest) ->
  Permutation bs (b :: rest) /\ b_lis b = l.
Proof.
  intros l bs. induction bs as [|a r IH]; intros b rest H; simpl in H; [discriminate|].
  destruct (N.eqb (b_lis a) l) eqn:E.
  - inversion H; subst. split; [apply Permutation_refl | apply N.eqb_eq; exact E].
  - destruct (take_first l r) as [[x r']|] eqn:E2; [|discriminate]. inversion H; subst.
    destruct (IH _ _ eq_refl) as [Hp Hl]. split; [|exact Hl].
    eapply perm_trans; [apply perm_skip; exact Hp | apply perm_swap].
Qed.

Lemma take_first_some : forall l bs, has_queued bs l = true -> exists b rest, take_first l bs = Some (b, rest).
Proof.
  intros l bs. induction bs as [|a r IH]; intro H; simpl in *; [discriminate|].
  destruct (N.eqb (b_lis a) l) eqn:E.
  - eauto.
  - simpl in H. destruct (IH H) as [b [rest Hb]]. rewrite Hb. eauto.
Qed.

(* the connection taken is the OLDEST queued one of that listener *)
Lemma take_first_oldest : forall l bs b rest, take_first l bs = Some (b, rest) ->
  exists pre, bs = pre ++ b :: skipn (length pre) rest /\ firstn (length pre) rest = pre
              /\ forall x, In x pre -> b_lis x <> l.
Proof.
  intros l bs. induction bs as [|a r IH]; intros b rest H; simpl in H; [discriminate|].
  destruct (N.eqb (b_lis a) l) eqn:E.
  - inversion H; subst. exists []. simpl. split; [reflexivity|]. split; [reflexivity|]. intros x [].
  - destruct (take_first l r) as [[x r']|] eqn:E2; [|discriminate]. inversion H; subst.
    destruct (IH _ _ eq_refl) as [pre [H1 [H2 H3]]]. exists (a :: pre). simpl. split; [f_equal; exact H1|].
    split; [f_equal; exact H2|]. intros y [Hy|Hy]; [subst; apply N.eqb_neq; exact E | apply H3; exact Hy].
Qed.

(* ---- reaping ---- *)
Lemma filter_partition_perm : forall (A : Type) (p : A -> bool) (l : list A),
  Permutation l (filter p l ++ filter (fun x => negb (p x)) l).
Proof.
  intros A p l. induction l as [|a r IH]; simpl; [apply Permutation_refl|].
  destruct (p a); simpl.
  - apply perm_skip. exact IH.
  - eapply perm_trans; [apply perm_skip; exact IH|]. apply Permutation_middle.
Qed.

Lemma done_pairs_ids : forall ws, (forall w, In w ws -> is_done w = true) -> map fst (done_pairs ws) = ids ws.
Proof.
  induction ws as [|a r IH]; intro H; simpl; [reflexivity|].
  assert (Ha : is_done a = true) by (apply H; left; reflexivity).
  unfold is_done in Ha. unfold done_pairs; simpl. destruct (w_st a) eqn:E; try discriminate. simpl.
  f_equal. apply IH. intros w Hw. apply H. right. exact Hw.
Qed.

Lemma In_done_pairs : forall ws c o, In (c, o) (done_pairs ws) <-> exists w, In w ws /\ w_id w = c /\ w_st w = WDone o.
Proof.
  intros ws c o. unfold done_pairs. rewrite in_flat_map. split.
  - intros [w [Hw Hin]]. exists w. destruct (w_st w) eqn:E; simpl in Hin; try contradiction.
    destruct Hin as [Hin|[]]. inversion Hin; subst. auto.
  - intros [w [Hw [Hid Hst]]]. exists w. split; [exact Hw|]. rewrite Hst. left. subst. reflexivity.
Qed.

Lemma filter_length_le : forall (A : Type) (p : A -> bool) l, (length (filter p l) <= length l)%nat.
Proof. intros A p l. induction l as [|a r IH]; simpl; [lia|]. destruct (p a); simpl; lia. Qed.

Lemma filter_length_lt : forall (A : Type) (p : A -> bool) l x, In x l -> p x = false ->
  (length (filter p l) < length l)%nat.
Proof.
  intros A p l. induction l as [|a r IH]; intros x Hin Hp; [destruct Hin|]. simpl.
  destruct Hin as [Hin|Hin].
  - subst. rewrite Hp. pose proof (filter_length_le A p r). lia.
  - specialize (IH x Hin Hp). destruct (p a); simpl; lia.
Qed.

Lemma below_limit_length : forall cfg ws ws', length ws = length ws' -> below_limit cfg ws = below_limit cfg ws'.
Proof. intros cfg ws ws' H. unfold below_limit. rewrite H. reflexivity. Qed.

Lemma below_limit_shorter : forall cfg ws ws', (length ws' <= length ws)%nat -> below_limit cfg ws = true ->
  below_limit cfg ws' = true.
Proof.
  intros cfg ws ws' H. unfold below_limit. rewrite !orb_true_iff, !Z.leb_le, !Z.ltb_lt. intros [H1|H1]; [left; exact H1|].
  right. lia.
Qed.

Lemma NoDup_app_inv : forall (A : Type) (l l' : list A), NoDup (l ++ l') ->
  NoDup l /\ NoDup l' /\ (forall x, In x l -> ~ In x l').
Proof.
  intros A l. induction l as [|a r IH]; simpl; intros l' H.
  - split; [constructor|]. split; [exact H|]. intros x [].
  - inversion H as [|x l0 Hnotin Hnd]; subst. destruct (IH _ Hnd) as [A1 [A2 A3]]. split; [|split].
    + constructor; [|exact A1]. intro Hin. apply Hnotin. apply in_or_app. left. exact Hin.
    + exact A2.
    + intros x [Hx|Hx] Hin.
      * subst. apply Hnotin. apply in_or_app. right. exact Hin.
      * eapply A3; eauto.
Qed.
