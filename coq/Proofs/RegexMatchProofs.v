(* C04: the backtracking matcher of Model/Regex.v (`m` / `mloop`, continuation passing, fuel,
   sre's priority order and zero-width-iteration protection) decides the declarative language of
   the regex, matched IN FULL, whenever it answers at all (does not run out of fuel).

     fullmatch_sound     MOk   ->   M r s
     fullmatch_complete  MFail -> ~ M r s
     fullmatch_correct   not MFuel -> (yes <-> M r s)

   `M` is the plain language definition: greediness and group numbers are irrelevant to it. *)
From Coq Require Import List NArith PeanoNat Bool Lia.
Import ListNotations.
Require Import RV.Lib.PyStr RV.Model.Regex.
Require Export RV.Model.RegexLang.
Open Scope N_scope.

(* n iterations, each matching a NON-EMPTY word *)
Inductive MNne : regex -> nat -> pystr -> Prop :=
| MNne_0 r : MNne r 0 []
| MNne_S r n w1 w2 : w1 <> [] -> M r w1 -> MNne r n w2 -> MNne r (S n) (w1 ++ w2).

(* ------------------------------------------------------------------ inversion lemmas *)
Lemma M_Eps_inv w : M Eps w -> w = [].
Proof. intros H; inversion H; subst; reflexivity. Qed.

Lemma M_Chr_inv c w : M (Chr c) w -> w = [c].
Proof. intros H; inversion H; subst; reflexivity. Qed.

Lemma M_Any_inv w : M Any w -> exists c, c <> 10 /\ w = [c].
Proof. intros H; inversion H; subst; eauto. Qed.

Lemma M_Set_inv neg items w : M (CSet neg items) w -> exists c, set_match neg items c = true /\ w = [c].
Proof. intros H; inversion H; subst; eauto. Qed.

Lemma M_Cat_inv a b w : M (Cat a b) w -> exists w1 w2, w = w1 ++ w2 /\ M a w1 /\ M b w2.
Proof. intros H; inversion H; subst; eauto. Qed.

Lemma M_Alt_inv a b w : M (Alt a b) w -> M a w \/ M b w.
Proof. intros H; inversion H; subst; auto. Qed.

Lemma M_Group_inv i r w : M (Group i r) w -> M r w.
Proof. intros H; inversion H; subst; auto. Qed.

Lemma M_Rep_inv mn mx g body w : M (Rep mn mx g body) w -> exists n, MN body n w /\ rep_ok mn mx n.
Proof. intros H; inversion H; subst; eauto. Qed.

Lemma MN_0_inv r w : MN r 0 w -> w = [].
Proof. intros H; inversion H; subst; reflexivity. Qed.

Lemma MN_S_inv r n w : MN r (S n) w -> exists w1 w2, w = w1 ++ w2 /\ M r w1 /\ MN r n w2.
Proof. intros H; inversion H; subst; eauto. Qed.

Lemma MNne_0_inv r w : MNne r 0 w -> w = [].
Proof. intros H; inversion H; subst; reflexivity. Qed.

Lemma MNne_S_inv r n w :
  MNne r (S n) w -> exists w1 w2, w = w1 ++ w2 /\ w1 <> [] /\ M r w1 /\ MNne r n w2.
Proof. intros H; inversion H; subst; eauto 8. Qed.

(* ------------------------------------------------------------------ unfolding, orelse, bounds *)
Lemma m_0 r s c k : m 0 r s c k = MFuel.
Proof. reflexivity. Qed.

Lemma mloop_0 body mn mx g count last s c k : mloop 0 body mn mx g count last s c k = MFuel.
Proof. reflexivity. Qed.

Lemma m_S f r s c k :
  m (S f) r s c k =
  match r with
  | Eps => k s c
  | Chr x => match s with y :: s' => if y =? x then k s' c else MFail | [] => MFail end
  | Any => match s with y :: s' => if y =? 10 then MFail else k s' c | [] => MFail end
  | CSet neg items =>
      match s with y :: s' => if set_match neg items y then k s' c else MFail | [] => MFail end
  | Cat a b => m f a s c (fun s' c' => m f b s' c' k)
  | Alt a b => orelse (m f a s c k) (fun _ => m f b s c k)
  | Group i body => m f body s c (fun s' c' => k s' ((i, consumed s s') :: c'))
  | Rep mn mx greedy body => mloop f body mn mx greedy 0 None s c k
  end.
Proof. reflexivity. Qed.

Lemma mloop_S f body mn mx g count last s c k :
  mloop (S f) body mn mx g count last s c k =
  if count <? mn then
    m f body s c (fun s' c' => mloop f body mn mx g (count + 1) last s' c' k)
  else if g then
    (if lt_max count mx && negb (same_pos last s)
     then orelse (m f body s c
                    (fun s' c' => mloop f body mn mx g (count + 1) (Some (List.length s)) s' c' k))
                 (fun _ => k s c)
     else k s c)
  else
    orelse (k s c)
      (fun _ => if lt_max count mx && negb (same_pos last s)
                then m f body s c
                       (fun s' c' => mloop f body mn mx g (count + 1) (Some (List.length s)) s' c' k)
                else MFail).
Proof. reflexivity. Qed.

Lemma orelse_fail a f : orelse a f = MFail <-> a = MFail /\ f tt = MFail.
Proof. destruct a; cbn; intuition congruence. Qed.

Lemma orelse_ok a f c : orelse a f = MOk c <-> a = MOk c \/ (a = MFail /\ f tt = MOk c).
Proof. destruct a; cbn; intuition congruence. Qed.

Lemma lt_max_le_opt count mx : lt_max count mx = true -> le_opt (count + 1) mx.
Proof.
  destruct mx as [x|]; cbn; [|trivial].
  intros H. apply N.ltb_lt in H. lia.
Qed.

Lemma le_opt_lt_max count x mx : le_opt (count + 1 + x) mx -> lt_max count mx = true.
Proof.
  destruct mx as [y|]; cbn; [|reflexivity].
  intros H. apply N.ltb_lt. lia.
Qed.

Lemma le_opt_eq a b mx : a = b -> le_opt a mx -> le_opt b mx.
Proof. intros ->; trivial. Qed.

(* ------------------------------------------------------------------ capture independence *)
Definition kind (r : mres) : N := match r with MFuel => 0 | MFail => 1 | MOk _ => 2 end.
Definition kshape (k : kont) : Prop := forall s c c', kind (k s c) = kind (k s c').

Lemma kind_orelse a a' f f' :
  kind a = kind a' -> kind (f tt) = kind (f' tt) -> kind (orelse a f) = kind (orelse a' f').
Proof. destruct a, a'; cbn; intros H1 H2; try discriminate; auto. Qed.

Lemma kshape_at_end : kshape at_end.
Proof. intros s c c'; destruct s; reflexivity. Qed.

Lemma kshape_fail k : kshape k -> forall s c, k s c = MFail -> forall c', k s c' = MFail.
Proof.
  intros Hk s c H c'. specialize (Hk s c c'). rewrite H in Hk.
  destruct (k s c'); cbn in Hk; try discriminate; reflexivity.
Qed.

Lemma kshape_group k i s : kshape k -> kshape (fun s' c' => k s' ((i, consumed s s') :: c')).
Proof. intros Hk s1 c1 c2. apply Hk. Qed.

Lemma kind_indep : forall fuel,
  (forall r s c c' k, kshape k -> kind (m fuel r s c k) = kind (m fuel r s c' k)) /\
  (forall body mn mx g count last s c c' k, kshape k ->
     kind (mloop fuel body mn mx g count last s c k) =
     kind (mloop fuel body mn mx g count last s c' k)).
Proof.
  induction fuel as [|f [IHm IHl]]; split.
  - intros; reflexivity.
  - intros; reflexivity.
  - intros r s c c' k Hk. rewrite !m_S. destruct r as [|x| |neg items|a b|a b|mn mx g body|i body].
    + apply Hk.
    + destruct s as [|y s']; [reflexivity|]. destruct (y =? x); [apply Hk|reflexivity].
    + destruct s as [|y s']; [reflexivity|]. destruct (y =? 10); [reflexivity|apply Hk].
    + destruct s as [|y s']; [reflexivity|]. destruct (set_match neg items y); [apply Hk|reflexivity].
    + apply IHm. intros s1 c1 c2. apply IHm. exact Hk.
    + apply kind_orelse; apply IHm; exact Hk.
    + apply IHl. exact Hk.
    + apply IHm. apply kshape_group. exact Hk.
  - intros body mn mx g count last s c c' k Hk. rewrite !mloop_S.
    assert (Hit : forall l, kind (m f body s c (fun s' c' => mloop f body mn mx g (count + 1) l s' c' k)) =
                            kind (m f body s c' (fun s' c' => mloop f body mn mx g (count + 1) l s' c' k))).
    { intros l. apply IHm. intros s1 c1 c2. apply IHl. exact Hk. }
    destruct (count <? mn); [apply Hit|].
    destruct g.
    + destruct (lt_max count mx && negb (same_pos last s)); [|apply Hk].
      apply kind_orelse; [apply Hit|apply Hk].
    + apply kind_orelse; [apply Hk|].
      destruct (lt_max count mx && negb (same_pos last s)); [apply Hit|reflexivity].
Qed.

Lemma kind_m_indep fuel r s c c' k : kshape k -> kind (m fuel r s c k) = kind (m fuel r s c' k).
Proof. apply (proj1 (kind_indep fuel)). Qed.

Lemma kind_mloop_indep fuel body mn mx g count last s c c' k :
  kshape k ->
  kind (mloop fuel body mn mx g count last s c k) = kind (mloop fuel body mn mx g count last s c' k).
Proof. apply (proj2 (kind_indep fuel)). Qed.

Lemma kshape_m f r k : kshape k -> kshape (fun s c => m f r s c k).
Proof. intros Hk s c c'. apply kind_m_indep. exact Hk. Qed.

Lemma kshape_mloop f body mn mx g count last k :
  kshape k -> kshape (fun s c => mloop f body mn mx g count last s c k).
Proof. intros Hk s c c'. apply kind_mloop_indep. exact Hk. Qed.

(* ------------------------------------------------------------------ soundness *)
Lemma sound_mutual : forall fuel,
  (forall r s c k cf, m fuel r s c k = MOk cf ->
     exists w s' c', s = w ++ s' /\ M r w /\ k s' c' = MOk cf) /\
  (forall body mn mx g count last s c k cf,
     mloop fuel body mn mx g count last s c k = MOk cf ->
     exists n w s' c', s = w ++ s' /\ MN body n w /\ mn <= count + N.of_nat n /\
       (le_opt (count + N.of_nat n) mx \/ count + N.of_nat n = mn \/ n = 0%nat) /\
       k s' c' = MOk cf).
Proof.
  induction fuel as [|f [IHm IHl]]; split.
  - intros r s c k cf H. rewrite m_0 in H. discriminate.
  - intros body mn mx g count last s c k cf H. rewrite mloop_0 in H. discriminate.
  - intros r s c k cf H. rewrite m_S in H.
    destruct r as [|x| |neg items|a b|a b|mn mx g body|i body].
    + exists [], s, c. split; [reflexivity|]. split; [constructor|exact H].
    + destruct s as [|y s']; [discriminate|]. destruct (y =? x) eqn:E; [|discriminate].
      apply N.eqb_eq in E. subst y. exists [x], s', c.
      split; [reflexivity|]. split; [constructor|exact H].
    + destruct s as [|y s']; [discriminate|]. destruct (y =? 10) eqn:E; [discriminate|].
      apply N.eqb_neq in E. exists [y], s', c.
      split; [reflexivity|]. split; [apply M_Any; exact E|exact H].
    + destruct s as [|y s']; [discriminate|].
      destruct (set_match neg items y) eqn:E; [|discriminate].
      exists [y], s', c. split; [reflexivity|]. split; [apply M_Set; exact E|exact H].
    + apply IHm in H. destruct H as (w1 & s1 & c1 & -> & Ma & H).
      apply IHm in H. destruct H as (w2 & s2 & c2 & -> & Mb & H).
      exists (w1 ++ w2), s2, c2. split; [apply app_assoc|].
      split; [constructor; assumption|exact H].
    + apply orelse_ok in H. destruct H as [H | [_ H]].
      * apply IHm in H. destruct H as (w & s' & c' & -> & Mw & H).
        exists w, s', c'. split; [reflexivity|]. split; [apply M_AltL; exact Mw|exact H].
      * apply IHm in H. destruct H as (w & s' & c' & -> & Mw & H).
        exists w, s', c'. split; [reflexivity|]. split; [apply M_AltR; exact Mw|exact H].
    + apply IHl in H. destruct H as (n & w & s' & c' & -> & Mn & Hmn & Hmx & H).
      exists w, s', c'. split; [reflexivity|]. split; [|exact H].
      apply M_Rep with n; [exact Mn|].
      rewrite N.add_0_l in Hmn, Hmx. split; [exact Hmn|].
      destruct Hmx as [Hx | [Hx | Hx]]; [left; exact Hx | right; exact Hx | right; subst n; cbn in *; lia].
    + apply IHm in H. destruct H as (w & s' & c' & -> & Mw & H).
      exists w, s', ((i, consumed (w ++ s') s') :: c').
      split; [reflexivity|]. split; [apply M_Group; exact Mw|exact H].
  - intros body mn mx g count last s c k cf H. rewrite mloop_S in H.
    assert (Hiter : forall l, (count < mn \/ (mn <= count /\ lt_max count mx = true)) ->
              m f body s c (fun s' c' => mloop f body mn mx g (count + 1) l s' c' k) = MOk cf ->
              exists n w s' c', s = w ++ s' /\ MN body n w /\ mn <= count + N.of_nat n /\
                (le_opt (count + N.of_nat n) mx \/ count + N.of_nat n = mn \/ n = 0%nat) /\
                k s' c' = MOk cf).
    { intros l Hc Hi.
      apply IHm in Hi. destruct Hi as (w1 & s1 & c1 & -> & Mb & Hi).
      apply IHl in Hi. destruct Hi as (n & w2 & s2 & c2 & -> & Mn & Hmn & Hmx & Hi).
      exists (S n), (w1 ++ w2), s2, c2. split; [apply app_assoc|].
      split; [constructor; assumption|]. split; [lia|]. split; [|exact Hi].
      destruct Hmx as [Hx | [Hx | Hx]].
      - left. revert Hx. apply le_opt_eq. lia.
      - right; left. lia.
      - subst n. destruct Hc as [Hc | [Hc Hlt]].
        + right; left. lia.
        + left. apply lt_max_le_opt in Hlt. revert Hlt. apply le_opt_eq. lia. }
    assert (Htail : mn <= count -> k s c = MOk cf ->
              exists n w s' c', s = w ++ s' /\ MN body n w /\ mn <= count + N.of_nat n /\
                (le_opt (count + N.of_nat n) mx \/ count + N.of_nat n = mn \/ n = 0%nat) /\
                k s' c' = MOk cf).
    { intros Hc Hk. exists 0%nat, [], s, c. split; [reflexivity|]. split; [constructor|].
      split; [lia|]. split; [right; right; reflexivity|exact Hk]. }
    destruct (count <? mn) eqn:E.
    + apply N.ltb_lt in E. apply (Hiter last); [left; exact E|exact H].
    + apply N.ltb_ge in E. destruct g.
      * destruct (lt_max count mx && negb (same_pos last s)) eqn:A.
        -- apply andb_prop in A. destruct A as [A1 A2].
           apply orelse_ok in H. destruct H as [H | [_ H]].
           ++ apply (Hiter (Some (List.length s))); [right; split; assumption|exact H].
           ++ apply Htail; assumption.
        -- apply Htail; assumption.
      * apply orelse_ok in H. destruct H as [H | [_ H]]; [apply Htail; assumption|].
        destruct (lt_max count mx && negb (same_pos last s)) eqn:A; [|discriminate].
        apply andb_prop in A. destruct A as [A1 A2].
        apply (Hiter (Some (List.length s))); [right; split; assumption|exact H].
Qed.

Lemma m_sound fuel r s c k cf :
  m fuel r s c k = MOk cf -> exists w s' c', s = w ++ s' /\ M r w /\ k s' c' = MOk cf.
Proof. apply (proj1 (sound_mutual fuel)). Qed.

(* ------------------------------------------------------------------ normalisation of iterations *)
Lemma MN_split r a b : forall w,
  MN r (a + b) w -> exists w0 w1, w = w0 ++ w1 /\ MN r a w0 /\ MN r b w1.
Proof.
  induction a as [|a IH]; intros w H.
  - exists [], w. split; [reflexivity|]. split; [constructor|exact H].
  - cbn [Nat.add] in H. apply MN_S_inv in H. destruct H as (w1 & w2 & -> & M1 & M2).
    apply IH in M2. destruct M2 as (x0 & x1 & -> & H0 & H1).
    exists (w1 ++ x0), x1. split; [apply app_assoc|]. split; [constructor; assumption|exact H1].
Qed.

Lemma MN_ne r j : forall w, MN r j w -> exists n', (n' <= j)%nat /\ MNne r n' w.
Proof.
  induction j as [|j IH]; intros w H.
  - apply MN_0_inv in H. subst w. exists 0%nat. split; [lia|constructor].
  - apply MN_S_inv in H. destruct H as (w1 & w2 & -> & M1 & M2).
    apply IH in M2. destruct M2 as (n' & Hn & Hne).
    destruct w1 as [|x w1].
    + exists n'. split; [lia|exact Hne].
    + exists (S n'). split; [lia|].
      apply (MNne_S r n' (x :: w1) w2); [discriminate|exact M1|exact Hne].
Qed.

Lemma MNne_MN r n : forall w, MNne r n w -> MN r n w.
Proof.
  induction n as [|n IH]; intros w H.
  - apply MNne_0_inv in H. subst w. constructor.
  - apply MNne_S_inv in H. destruct H as (w1 & w2 & -> & _ & M1 & M2).
    constructor; [exact M1|apply IH; exact M2].
Qed.

Lemma normalise body mn mx n w :
  MN body n w -> rep_ok mn mx n ->
  exists w0 w1 n', w = w0 ++ w1 /\ MN body (N.to_nat mn) w0 /\ MNne body n' w1 /\
    (le_opt (mn + N.of_nat n') mx \/ n' = 0%nat).
Proof.
  intros H [Hmn Hmx].
  assert (En : n = (N.to_nat mn + (n - N.to_nat mn))%nat) by lia.
  rewrite En in H. apply MN_split in H. destruct H as (w0 & w1 & -> & H0 & H1).
  apply MN_ne in H1. destruct H1 as (n' & Hn & Hne).
  exists w0, w1, n'. split; [reflexivity|]. split; [exact H0|]. split; [exact Hne|].
  destruct Hmx as [Hx | Hx].
  - left. destruct mx as [x|]; cbn in *; [lia|trivial].
  - right. lia.
Qed.

(* ------------------------------------------------------------------ completeness (definite failure) *)
Lemma complete_mutual : forall fuel,
  (forall r s c k, kshape k -> m fuel r s c k = MFail ->
     forall w s', s = w ++ s' -> M r w -> forall c', k s' c' = MFail) /\
  (forall body mn mx g count last s c k, kshape k ->
     mloop fuel body mn mx g count last s c k = MFail ->
     forall j n' w0 w1 s', s = w0 ++ w1 ++ s' -> MN body j w0 -> MNne body n' w1 ->
       (count < mn -> last = None) ->
       N.of_nat j = mn - count ->
       (le_opt (count + N.of_nat j + N.of_nat n') mx \/ n' = 0%nat) ->
       (n' = 0%nat \/ same_pos last s = false) ->
       forall c', k s' c' = MFail).
Proof.
  induction fuel as [|f [IHm IHl]]; split.
  - intros r s c k Hk H. rewrite m_0 in H. discriminate.
  - intros body mn mx g count last s c k Hk H. rewrite mloop_0 in H. discriminate.
  - intros r s c k Hk H w s' -> HM c'. rewrite m_S in H.
    destruct r as [|x| |neg items|a b|a b|mn mx g body|i body].
    + apply M_Eps_inv in HM. subst w. cbn [app] in H.
      exact (kshape_fail k Hk _ _ H c').
    + apply M_Chr_inv in HM. subst w. cbn [app] in H. rewrite N.eqb_refl in H.
      exact (kshape_fail k Hk _ _ H c').
    + apply M_Any_inv in HM. destruct HM as (y & Hy & ->). cbn [app] in H.
      apply N.eqb_neq in Hy. rewrite Hy in H.
      exact (kshape_fail k Hk _ _ H c').
    + apply M_Set_inv in HM. destruct HM as (y & Hy & ->). cbn [app] in H.
      rewrite Hy in H.
      exact (kshape_fail k Hk _ _ H c').
    + apply M_Cat_inv in HM. destruct HM as (w1 & w2 & -> & Ma & Mb).
      rewrite <- app_assoc in H.
      pose proof (IHm a _ c _ (kshape_m f b k Hk) H w1 (w2 ++ s') eq_refl Ma c) as H1.
      cbv beta in H1.
      exact (IHm b _ c k Hk H1 w2 s' eq_refl Mb c').
    + apply orelse_fail in H. destruct H as [H1 H2].
      apply M_Alt_inv in HM. destruct HM as [Ma | Mb].
      * exact (IHm a _ c k Hk H1 w s' eq_refl Ma c').
      * exact (IHm b _ c k Hk H2 w s' eq_refl Mb c').
    + apply M_Rep_inv in HM. destruct HM as (n & Mn & Hok).
      destruct (normalise _ _ _ _ _ Mn Hok) as (w0 & w1 & n' & -> & M0 & Mne & Hle).
      rewrite <- app_assoc in H.
      apply (IHl body mn mx g 0 None _ c k Hk H (N.to_nat mn) n' w0 w1 s' eq_refl M0 Mne).
      * intros _. reflexivity.
      * lia.
      * destruct Hle as [Hle | Hle]; [left|right; exact Hle].
        revert Hle. apply le_opt_eq. lia.
      * right. reflexivity.
    + apply M_Group_inv in HM.
      pose proof (IHm body _ c _ (kshape_group k i (w ++ s') Hk) H w s' eq_refl HM c') as H1.
      cbv beta in H1.
      exact (kshape_fail k Hk _ _ H1 c').
  - intros body mn mx g count last s c k Hk H j n' w0 w1 s' -> M0 Mne Hlast Hj Hle Hpos c'.
    rewrite mloop_S in H. destruct (count <? mn) eqn:E.
    + (* minimum phase: the iteration is forced, it may be empty *)
      apply N.ltb_lt in E. destruct j as [|j]; [lia|].
      apply MN_S_inv in M0. destruct M0 as (wa & wb & -> & Ma & Mb).
      rewrite <- app_assoc in H.
      pose proof (IHm body _ c _ (kshape_mloop f body mn mx g (count + 1) last k Hk) H
                      wa (wb ++ w1 ++ s') eq_refl Ma c) as H1.
      cbv beta in H1.
      apply (IHl body mn mx g (count + 1) last _ c k Hk H1 j n' wb w1 s' eq_refl Mb Mne).
      * intros _. apply Hlast. exact E.
      * lia.
      * destruct Hle as [Hle | Hle]; [left|right; exact Hle].
        revert Hle. apply le_opt_eq. lia.
      * right. rewrite (Hlast E). reflexivity.
    + (* post-minimum regime *)
      apply N.ltb_ge in E. assert (Ej : j = 0%nat) by lia. subst j.
      apply MN_0_inv in M0. subst w0. cbn [app] in H, Hpos.
      destruct n' as [|n'].
      * apply MNne_0_inv in Mne. subst w1. cbn [app] in H.
        assert (Ht : k s' c = MFail).
        { destruct g.
          - destruct (lt_max count mx && negb (same_pos last s')); [|exact H].
            apply orelse_fail in H. destruct H as [_ Hb]. exact Hb.
          - apply orelse_fail in H. destruct H as [Ha _]. exact Ha. }
        exact (kshape_fail k Hk _ _ Ht c').
      * apply MNne_S_inv in Mne. destruct Mne as (wa & wb & -> & Hne & Ma & Mb).
        destruct Hle as [Hle | Hle]; [|discriminate].
        destruct Hpos as [Hpos | Hpos]; [discriminate|].
        assert (A : lt_max count mx && negb (same_pos last ((wa ++ wb) ++ s')) = true).
        { rewrite Hpos. cbn [negb]. rewrite andb_true_r.
          apply (le_opt_lt_max count (N.of_nat n')). revert Hle. apply le_opt_eq. lia. }
        rewrite A in H.
        assert (Hi : m f body ((wa ++ wb) ++ s') c
                       (fun s1 c1 => mloop f body mn mx g (count + 1)
                                       (Some (List.length ((wa ++ wb) ++ s'))) s1 c1 k) = MFail).
        { destruct g; apply orelse_fail in H; destruct H as [Ha Hb]; [exact Ha|exact Hb]. }
        clear H A.
        remember (List.length ((wa ++ wb) ++ s')) as len eqn:Elen.
        rewrite <- app_assoc in Hi.
        pose proof (IHm body _ c _ (kshape_mloop f body mn mx g (count + 1) (Some len) k Hk) Hi
                        wa (wb ++ s') eq_refl Ma c) as H1.
        cbv beta in H1.
        apply (IHl body mn mx g (count + 1) (Some len) _ c k Hk H1 0%nat n' [] wb s' eq_refl
                   (MN_0 body) Mb).
        -- intros Hlt. lia.
        -- lia.
        -- left. revert Hle. apply le_opt_eq. lia.
        -- right. cbn [same_pos]. apply Nat.eqb_neq. subst len.
           rewrite !app_length. destruct wa as [|x wa]; [contradiction|].
           cbn [List.length]. lia.
Qed.

Lemma m_complete fuel r s c k :
  kshape k -> m fuel r s c k = MFail ->
  forall w s', s = w ++ s' -> M r w -> forall c', k s' c' = MFail.
Proof. apply (proj1 (complete_mutual fuel)). Qed.

(* ------------------------------------------------------------------ final theorems *)
Definition is_yes (r : mres) : bool := match r with MOk _ => true | _ => false end.

Theorem fullmatch_sound : forall fuel r s c, fullmatch_fuel fuel r s = MOk c -> M r s.
Proof.
  intros fuel r s c H. unfold fullmatch_fuel in H.
  apply m_sound in H. destruct H as (w & s' & c' & -> & HM & H).
  destruct s' as [|y s']; [|discriminate].
  rewrite app_nil_r. exact HM.
Qed.

Theorem fullmatch_complete : forall fuel r s, fullmatch_fuel fuel r s = MFail -> ~ M r s.
Proof.
  intros fuel r s H HM. unfold fullmatch_fuel in H.
  pose proof (m_complete fuel r s [] at_end kshape_at_end H s [] (eq_sym (app_nil_r s)) HM []) as H1.
  discriminate.
Qed.

Theorem fullmatch_correct : forall fuel r s,
  fullmatch_fuel fuel r s <> MFuel -> (is_yes (fullmatch_fuel fuel r s) = true <-> M r s).
Proof.
  intros fuel r s Hf. destruct (fullmatch_fuel fuel r s) as [| |c] eqn:E.
  - contradiction.
  - split; [discriminate|]. intros HM. exfalso. exact (fullmatch_complete fuel r s E HM).
  - split; [|reflexivity]. intros _. exact (fullmatch_sound fuel r s c E).
Qed.

(* no prefix match is mistaken for a full match *)
Corollary fullmatch_no_prefix : forall fuel r s t c,
  t <> [] -> fullmatch_fuel fuel r (s ++ t) = MOk c -> M r (s ++ t).
Proof. intros fuel r s t c _ H. exact (fullmatch_sound fuel r (s ++ t) c H). Qed.

(* the language of the right-nested literal sequence is exactly the literal *)
Lemma M_chr_seq_exact :
  forall u s, M (fold_right (fun c r => Cat (Chr c) r) Eps u) s <-> s = u.
Proof.
  induction u as [|x u IH]; intros s; cbn [fold_right]; split.
  - apply M_Eps_inv.
  - intros ->. constructor.
  - intros H. apply M_Cat_inv in H. destruct H as (w1 & w2 & -> & H1 & H2).
    apply M_Chr_inv in H1. subst w1. apply IH in H2. subst w2. reflexivity.
  - intros ->. apply (M_Cat (Chr x) _ [x] u); [constructor|]. apply IH. reflexivity.
Qed.

(* a proper extension of the literal is rejected, whenever the engine answers *)
Corollary literal_rejects_extension : forall fuel u t,
  t <> [] ->
  is_yes (fullmatch_fuel fuel (fold_right (fun c r => Cat (Chr c) r) Eps u) (u ++ t)) = false.
Proof.
  intros fuel u t Ht.
  destruct (fullmatch_fuel fuel _ (u ++ t)) as [| |c] eqn:E; [reflexivity|reflexivity|].
  exfalso. apply fullmatch_sound in E. apply M_chr_seq_exact in E.
  apply Ht. rewrite <- (app_nil_r u) in E at 2. apply app_inv_head in E. exact E.
Qed.

(* ------------------------------------------------------------------ examples *)
Definition re_bob : regex := Cat (Chr 98) (Cat (Chr 111) (Cat (Chr 98) Eps)).

Example bob_bobby : fullmatch_fuel 50 re_bob [98; 111; 98; 98; 121] = MFail.
Proof. vm_compute; reflexivity. Qed.

Example bob_bob : fullmatch_fuel 50 re_bob [98; 111; 98] = MOk [].
Proof. vm_compute; reflexivity. Qed.

Example bob_bo : fullmatch_fuel 50 re_bob [98; 111] = MFail.
Proof. vm_compute; reflexivity. Qed.

(* pattern: open-paren a star close-paren star (a starred group of a-star), on "aa": the last,
   zero-width iteration of the outer star rebinds group 1 to "" -- Python's answer as well:
   re.fullmatch of that pattern on 'aa' has groups() == ('',) *)
Definition re_star_star : regex := Rep 0 None true (Group 1 (Rep 0 None true (Chr 97))).

Example star_star_aa :
  fullmatch_fuel 50 re_star_star [97; 97] = MOk [(1, []); (1, [97; 97])].
Proof. vm_compute; reflexivity. Qed.

Example star_star_aa_groups :
  match fullmatch_fuel 50 re_star_star [97; 97] with
  | MOk c => groups_of 1 c = [Some []]
  | _ => False
  end.
Proof. vm_compute; reflexivity. Qed.

(* three groups: [a|ab] [c|bcd] [d star], on "abcd": priority order decides the captures *)
Example alt_priority :
  match fullmatch_fuel 50
          (Cat (Group 1 (Alt (Chr 97) (Cat (Chr 97) (Chr 98))))
               (Cat (Group 2 (Alt (Chr 99) (Cat (Chr 98) (Cat (Chr 99) (Chr 100)))))
                    (Group 3 (Rep 0 None true (Chr 100)))))
          [97; 98; 99; 100] with
  | MOk c => groups_of 3 c = [Some [97]; Some [98; 99; 100]; Some []]
  | _ => False
  end.
Proof. vm_compute; reflexivity. Qed.

(* lazy and greedy repeats have the same language, different captures: group 1 = lazy a-star,
   group 2 = greedy a-star, on "aa" *)
Example lazy_greedy :
  match fullmatch_fuel 50
          (Cat (Group 1 (Rep 0 None false (Chr 97))) (Group 2 (Rep 0 None true (Chr 97))))
          [97; 97] with
  | MOk c => groups_of 2 c = [Some []; Some [97; 97]]
  | _ => False
  end.
Proof. vm_compute; reflexivity. Qed.

(* running out of fuel is reported, never turned into an answer *)
Example fuel_reported : fullmatch_fuel 2 re_bob [98; 111; 98] = MFuel.
Proof. vm_compute; reflexivity. Qed.

Print Assumptions fullmatch_sound.
Print Assumptions fullmatch_complete.
Print Assumptions fullmatch_correct.
Print Assumptions M_chr_seq_exact.
