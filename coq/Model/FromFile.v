(* C04: model of radicale/rights/from_file.py :: Rights.authorization (the section loop).
   Executable definitions only.  Tied to the code by the correspondence run of checks/C04.py
   (real Rights.authorization of the from_file back-end on generated rights files).

   A rights file is the ordered list of its sections as configparser hands them out:
   the values of the keys `user`, `collection`, `permissions` (None = key absent).
   Not modelled: configparser itself (the harness renders the sections into a file that the real
   code parses; values are stripped, contain no '%'), and the LDAP `groups` branch: with
   `_user_groups` empty (every auth back-end except ldap) `group_match` is False for every section,
   so `group_collection_match` is never evaluated and the branch cannot return. *)
From Coq Require Import List NArith Bool.
Import ListNotations.
Require Import RV.Lib.PyStr RV.Model.Path RV.Model.Regex.
Open Scope N_scope.

Record section := Section { s_user : option pystr; s_coll : option pystr; s_perm : option pystr }.

(* outcome of one section *)
Inductive secres :=
| SNoMatch
| SMatch
| SError        (* RuntimeError("Error in section ..."): bad format string, re.error, missing `collection` *)
| SUnsup        (* syntax outside the modelled dialect: no claim *)
| SFuel.

(* result of Rights.authorization; Error = the exception the request handler turns into a 500 *)
Inductive outcome := Perm (p : pystr) | Deny | Error | Unsupported | OutOfFuel.

(* a group that did not take part in the match is substituted as the empty string
   (`re.escape(s or "")`, see notes/fixes/C04-optional-group.patch) *)
Definition group_text (g : option pystr) : pystr := match g with Some w => w | None => [] end.

Definition user_pattern_of (sec : section) : pystr := match s_user sec with Some p => p | None => [] end.

Definition eval_section (sec : section) (user sane_path : pystr) : secres :=
  match s_coll sec with
  | None => SError
  | Some coll_pattern =>
      let user_pattern := user_pattern_of sec in
      if negb (nonempty user_pattern) then SNoMatch
      else
        match format [] None user_pattern with
        | Err => SError
        | Unsup => SUnsup
        | Ok up =>
            match fullmatch_py up user with
            | FmErr => SError
            | FmUnsup => SUnsup
            | FmFuel => SFuel
            | FmNo => SNoMatch
            | FmYes gs =>
                match format (map (fun g => escape (group_text g)) gs) (Some (escape user)) coll_pattern with
                | Err => SError
                | Unsup => SUnsup
                | Ok cp =>
                    match fullmatch_py cp sane_path with
                    | FmErr => SError
                    | FmUnsup => SUnsup
                    | FmFuel => SFuel
                    | FmNo => SNoMatch
                    | FmYes _ => SMatch
                    end
                end
            end
        end
  end.

Fixpoint authorization_sections (rules : list section) (user sane_path : pystr) : outcome :=
  match rules with
  | [] => Deny
  | sec :: rest =>
      match eval_section sec user sane_path with
      | SNoMatch => authorization_sections rest user sane_path
      | SMatch => match s_perm sec with Some p => Perm p | None => Error end
      | SError => Error
      | SUnsup => Unsupported
      | SFuel => OutOfFuel
      end
  end.

Definition authorization (rules : list section) (user path : pystr) : outcome :=
  authorization_sections rules user (strip_path path).
