(* C17, concurrency dimension -- several threads inside BaseAuth.login on one auth object.  NO proofs here.

   1. The vocabulary of the lock-discipline table that translate/t_c17.py regenerates from the source
      (Gen/LoginLockGen.v): one row per syntactic access to a cache dictionary.
   2. A step model of login (cache enabled, code after notes/fixes/C17-F13-cache-races.patch): the function is cut at
      its accesses to the shared dictionaries; every step is one critical section (`with self._lock:` block) or one
      single dictionary operation outside the lock (`d.get(k)`, atomic under the GIL).  Between steps any other
      thread may run.  `guarded = false` gives the delete of the expired successful entry as in the code BEFORE that
      patch (unconditional `del self._cache_successful[login]`, KeyError when another thread was faster).
   What makes the steps atomic with respect to each other is the lock discipline of (1) -- Proofs/C17Lock.v. *)
From Coq Require Import List ZArith NArith Bool String.
Import ListNotations.
Require Import RV.Lib.PyStr RV.Model.LoginCache.
Open Scope Z_scope.

(* ---------------------------------------------------------------- 1. lock-discipline table *)
Inductive adict := DFailed | DSuccessful.
Inductive akind :=
| AGet          (* d.get(k): one atomic read, result bound once *)
| ALen          (* len(d) *)
| ASubscript    (* d[k] read *)
| AIter         (* for k in d *)
| AStore        (* d[k] = v *)
| ADel          (* del d[k] *)
| APop          (* d.pop(k, default) *)
| AOther.       (* anything else (d.items(), passing d around, ...) *)
Record access := mkAccess { a_line : N; a_dict : adict; a_kind : akind; a_locked : bool }.

(* outside the lock only single atomic reads; everything else (iteration, check-then-read, every mutation) inside *)
Definition access_ok (a : access) : bool :=
  a_locked a || match a_kind a with AGet | ALen => true | _ => false end.

Definition adict_eqb (a b : adict) : bool :=
  match a, b with DFailed, DFailed | DSuccessful, DSuccessful => true | _, _ => false end.
Definition akind_eqb (a b : akind) : bool :=
  match a, b with
  | AGet, AGet | ALen, ALen | ASubscript, ASubscript | AIter, AIter | AStore, AStore | ADel, ADel | APop, APop
  | AOther, AOther => true
  | _, _ => false
  end.
Definition shape := (adict * akind * bool)%type.
Definition shape_of (a : access) : shape := (a_dict a, a_kind a, a_locked a).
Definition shape_eqb (a b : shape) : bool :=
  adict_eqb (fst (fst a)) (fst (fst b)) && akind_eqb (snd (fst a)) (snd (fst b)) && Bool.eqb (snd a) (snd b).

(* the accesses of the step model below, in source order *)
Definition expected_shape : list shape :=
  [ (DFailed, ALen, false);           (* cache_failed_entries = len(self._cache_failed)                    *)
    (DFailed, AIter, true);           (* TSweep: with self._lock: for digest in self._cache_failed          *)
    (DFailed, ASubscript, true);      (*           self._cache_failed[digest]                               *)
    (DFailed, ADel, true);            (*           del self._cache_failed[digest]                           *)
    (DFailed, AGet, false);           (* TLookF: entry_failed = self._cache_failed.get(digest_failed)       *)
    (DSuccessful, AGet, false);       (* TLookS: entry_successful = self._cache_successful.get(login)       *)
    (DSuccessful, AGet, true);        (* TDelS:  with self._lock: if self._cache_successful.get(login) is entry_successful: *)
    (DSuccessful, ADel, true);        (*             del self._cache_successful[login]                      *)
    (DSuccessful, AStore, true);      (* TStoreOk: with self._lock: self._cache_successful[login] = ...     *)
    (DFailed, APop, true);            (*             self._cache_failed.pop(digest_failed, None)            *)
    (DFailed, AStore, true) ].        (* TStoreFail: with self._lock: self._cache_failed[digest_failed] = ... *)

(* every occurrence of an instance attribute that login or one of its callees writes (not only the two dictionaries) *)
Record saccess := mkSAccess {
  sa_line : N; sa_method : string; sa_attr : string;
  sa_write : bool; sa_locked : bool; sa_atomic_read : bool }.
(* shared instance state is written only inside the lock, and read outside it only by a single atomic read *)
Definition saccess_ok (a : saccess) : bool := sa_locked a || (negb (sa_write a) && sa_atomic_read a).
Definition offending (l : list saccess) : list string := map sa_attr (filter (fun a => negb (saccess_ok a)) l).

(* ---------------------------------------------------------------- 2. step model *)
Record treq := mkReq { q_login : pystr (* as mapped *); q_pw : pystr; q_now : Z (* this thread's time_ns *) }.

Inductive tstate :=
| TSweep                                        (* before the housekeeping critical section *)
| TLookF                                        (* before the failed look-up *)
| TLookS                                        (* before the successful look-up *)
| TDelS (e : sentry)                            (* before deleting the expired entry e it has read *)
| TBackend (dg : dval) (fc : bool)              (* before self._login(login, password) *)
| TStoreOk (dg : dval) (fc : bool) (u : pystr)  (* before storing the success *)
| TStoreFail (fc : bool)                        (* before storing the failure *)
| TDone (o : outcome).

Definition sentry_eqb (a b : sentry) : bool :=
  dval_eqb (fst (fst a)) (fst (fst b)) && Z.eqb (snd (fst a)) (snd (fst b)) && eqs (snd a) (snd b).

Definition tstep (guarded : bool) (cfg : config) (bk : pystr -> pystr -> pystr) (q : treq) (ts : tstate) (c : cache)
  : tstate * cache :=
  let l := q_login q in
  let pw := q_pw q in
  let now := q_now q in
  let kf := failed_key (c_salt cfg) l pw in
  match ts with
  | TSweep => (TLookF, mkCache (succ c) (filter (fun e => negb (age_s now (fst (snd e)) >? c_exp_f cfg)) (failed c)))
  | TLookF =>
      match dget dval_eqb (failed c) kf with
      | Some _ => (TDone (ORet [] true), c)
      | None => (TLookS, c)
      end
  | TLookS =>
      match dget eqs (succ c) l with
      | Some (dc, tc, uc) =>
          if dval_eqb (cache_digest l pw tc) dc then
            if age_s now tc >? c_exp_s cfg then (TDelS (dc, tc, uc), c)
            else if nonempty uc then (TDone (ORet uc true), c)
                 else (TBackend (cache_digest l pw tc) true, c)
          else (TBackend (cache_digest l pw tc) false, c)
      | None => (TBackend (cache_digest l pw now) false, c)
      end
  | TDelS e =>
      match dget eqs (succ c) l with
      | Some e' =>
          if guarded then
            (TBackend DEmpty false, if sentry_eqb e' e then mkCache (ddel eqs (succ c) l) (failed c) else c)
          else (TBackend DEmpty false, mkCache (ddel eqs (succ c) l) (failed c))
      | None =>
          if guarded then (TBackend DEmpty false, c)
          else (TDone (ORaise KeyError), c)              (* del self._cache_successful[login]: already gone *)
      end
  | TBackend dg fc =>
      let u := bk l pw in
      if nonempty u then (TStoreOk (if is_dempty dg then cache_digest l pw now else dg) fc u, c)
      else (TStoreFail fc, c)
  | TStoreOk dg fc u =>
      (TDone (ORet u fc), mkCache (dset eqs (succ c) l (dg, now, u)) (ddel dval_eqb (failed c) kf))
  | TStoreFail fc =>
      (TDone (ORet [] fc), mkCache (succ c) (dset dval_eqb (failed c) kf (now, l)))
  | TDone o => (TDone o, c)
  end.

(* one thread alone, to completion *)
Fixpoint trun (guarded : bool) (cfg : config) (bk : pystr -> pystr -> pystr) (q : treq) (fuel : nat) (ts : tstate) (c : cache)
  : tstate * cache :=
  match fuel with
  | O => (ts, c)
  | S n => let '(ts', c') := tstep guarded cfg bk q ts c in trun guarded cfg bk q n ts' c'
  end.

(* several threads, one shared cache; a schedule names the thread that makes the next step *)
Definition pool := list (treq * tstate).

Fixpoint pool_step (guarded : bool) (cfg : config) (bk : pystr -> pystr -> pystr) (i : nat) (p : pool) (c : cache) {struct p}
  : pool * cache :=
  match p with
  | [] => ([], c)
  | (q, ts) :: r =>
      match i with
      | O => let '(ts', c') := tstep guarded cfg bk q ts c in ((q, ts') :: r, c')
      | S j => let '(r', c') := pool_step guarded cfg bk j r c in ((q, ts) :: r', c')
      end
  end.

Fixpoint pool_run (guarded : bool) (cfg : config) (bk : pystr -> pystr -> pystr) (sched : list nat) (p : pool) (c : cache)
  : pool * cache :=
  match sched with
  | [] => (p, c)
  | i :: s => let '(p', c') := pool_step guarded cfg bk i p c in pool_run guarded cfg bk s p' c'
  end.

Definition start (qs : list treq) : pool := map (fun q => (q, TSweep)) qs.
