(* C20 -- executable model of the built-in server: radicale/server.py `serve` (the accept loop and its
   finally block), the life of one connection thread (get_request / finish_request / RequestHandler.handle)
   and the decision order of radicale/app/__init__.py `_handle_request` up to the dispatch (the
   Content-Length check).  No proofs here.

   What is code and what is runtime:
   * CODE (followed line by line): how `rlist` is built (all worker sockets of all servers; the listening
     sockets only if max_connections <= 0 or len(rlist) < max_connections; the shutdown socket), the order of
     the decisions after `select` returned (break on shutdown first; close and remove the finished worker
     sockets that select reported; then accept on at most ONE ready listener: `rset.pop()`), the finally block
     (recv on every remaining worker socket, then close), the gate order of `_handle_request`.
   * RUNTIME (environment events of the transition system): TCP connects, what a client sends, when the
     application handler returns, when a socket timeout fires, when the shutdown socket becomes readable,
     thread scheduling.  `select` is assumed to return exactly the descriptors of `rlist` that are ready.

   Tied to the code by the correspondence run of checks/C20.py (tie K): the real `serve()` is driven in
   lock-step and every event below is compared with what the implementation did. *)
From Coq Require Import List ZArith NArith Bool.
Import ListNotations.
Open Scope Z_scope.

(* ------------------------------------------------------------------------------------------------ *)
(* The request gate: `_handle_request` from its first `return` to the dispatch `function(...)`.      *)
(* A request is abstracted by the outcome of every test the gate makes, in the order it makes them.  *)

Inductive prefix_r := PrefOk | PrefBadHeader (* X-Script-Name without leading "/" : 400 *)
                    | PrefBadScript (* SCRIPT_NAME without leading "/" : 500 *).
Inductive wk_r := WkNone | WkRedirect (* .../.well-known/caldav|carddav : 301 *)
                | WkNotFound (* other .well-known : 404 *).
Inductive auth_r := AuthAnon (* no login given *) | AuthOk (* login accepted, user <> "" *)
                  | AuthFail (* login given, user = "" *).
Inductive cl_r := ClAbsent (* header missing or empty *) | ClInt (z : Z) (* int(...) succeeds *)
                | ClBad (* int(...) raises ValueError *).

(* r_method: `getattr(self, "do_" + METHOD)` exists.  The gate does not look at WHICH method it is: the size check
   applies to every dispatched method alike (the correspondence instantiates r_method = true with every do_ method). *)
Record req := mkReq { r_pref : prefix_r; r_method : bool (* do_<METHOD> exists *); r_wk : wk_r;
                      r_auth : auth_r; r_cl : cl_r;
                      r_body : bool (* the handler of this method reads the declared body from the socket
                                       (read_raw_request_body with a non-zero Content-Length) *) }.

Record gcfg := mkG { internal : bool (* [server] _internal_server, set by serve() *);
                     max_len : Z (* [server] max_content_length, >= 0 by config.positive_int *) }.

Inductive gate_r :=
  | GEarly (st : N)   (* returned before the Content-Length check *)
  | GError            (* int(CONTENT_LENGTH) raised: __call__ answers 500 *)
  | GTooLarge         (* 413 REQUEST_ENTITY_TOO_LARGE *)
  | GDenied           (* login given but refused: handler not called, 401 *)
  | GDispatch.        (* function(environ, base_prefix, path, user) is called *)

Definition gate (g : gcfg) (r : req) : gate_r :=
  match r_pref r with
  | PrefBadHeader => GEarly 400
  | PrefBadScript => GEarly 500
  | PrefOk =>
    if negb (r_method r) then GEarly 405 else
    match r_wk r with
    | WkRedirect => GEarly 301
    | WkNotFound => GEarly 404
    | WkNone =>
      (* login happens here (side effects only, no return) *)
      let after_len :=
        match r_auth r with AuthFail => GDenied | _ => GDispatch end in
      if internal g then
        match r_cl r with
        | ClBad => GError
        | ClAbsent => after_len
        | ClInt z =>
          if z <? 0 then GEarly 400 else    (* negative length: 400, the handlers would read until EOF *)
          if negb (z =? 0) && (0 <? max_len g) && (max_len g <? z) then GTooLarge else after_len
        end
      else after_len
    end
  end.

Definition gate_status (x : gate_r) : option N :=   (* None: whatever the handler answers *)
  match x with GEarly st => Some st | GError => Some 500%N | GTooLarge => Some 413%N
             | GDenied => Some 401%N | GDispatch => None end.

(* what arrives on a connection *)
Inductive reqmsg := RHttp (r : req)
                  | RGarbage. (* a request line http.server rejects: 400 without reaching the application *)

(* ------------------------------------------------------------------------------------------------ *)
(* The server as a transition system.                                                                *)

Record config := mkCfg { max_conn : Z      (* [server] max_connections; <= 0 means unlimited *);
                         timeout_on : bool (* [server] timeout > 0 : get_request calls settimeout *);
                         gc : gcfg;
                         n_listen : N      (* number of listening sockets (entries of `servers`) *) }.

(* what the client has delivered so far.  The silence of a client can begin in every one of these phases. *)
Inductive cstate := CIdle             (* nothing yet *)
                  | CPartial          (* part of the request head (request line / headers), not the end of it *)
                  | CSent (m : reqmsg) (full : bool)
                                      (* the complete head; full = the declared body has been delivered completely
                                         (or there is none); false = the body is outstanding, wholly or in part *)
                  | CClosed.          (* the client closed its end before sending anything *)

Inductive outcome := OResp (st : N)   (* answered by http.server / the gate without entering a handler *)
                   | OHandled         (* the handler returned and its response was written completely *)
                   | OTimeout         (* socket.timeout while waiting for the request head *)
                   | OAborted         (* socket.timeout inside the handler while it waited for the request body: the
                                         handler ends (the real handlers catch it and answer 408 REQUEST_TIMEOUT; an
                                         exception that escapes a handler is answered 500 by __call__) *)
                   | OEof.            (* the client closed before sending a request *)

(* WReading starts AT ACCEPT: get_request calls settimeout before the thread exists, so the socket timeout covers
   everything the thread does before a request is there -- with ssl = True that includes the TLS handshake
   (ParallelHTTPSServer.finish_request_locked), then rfile.readline / parse_request, and later the handler's
   wsgi.input.read (WBody).  TTimeout is enabled whenever the thread waits for the client (`waits_for_client`): from the
   accept on, while the head is incomplete (nothing sent, or silence in the middle of the head), and inside the handler
   while the declared body is incomplete (none of it sent, or silence in the middle of it). *)
Inductive wstatus := WReading         (* thread waits for the client: TLS handshake (https), then rfile.readline *)
                   | WBody            (* thread inside the handler do_*, blocked in wsgi.input.read(Content-Length) *)
                   | WHandling        (* thread inside the handler do_*, not waiting for the client *)
                   | WDone (o : outcome). (* finish_request's finally ran: worker_socket closed, so the
                                             entry of worker_sockets is readable; not yet reaped *)

(* one entry of some server.worker_sockets, with the thread behind it *)
Record worker := mkW { w_id : N; w_lis : N; w_cl : cstate; w_st : wstatus }.
(* one connection in the kernel accept queue of listener b_lis *)
Record bconn := mkB { b_id : N; b_lis : N; b_cl : cstate }.

Inductive pcs :=
  | PTop                                             (* at `while True:` *)
  | PSelect (rlw : list N) (rll : bool)              (* blocked in select; rlist = these worker sockets,
                                                        all listeners iff rll, the shutdown socket *)
  | PGot (rw : list N) (rls : list N) (rstop : bool) (* select returned this snapshot *)
  | PFinal                                           (* in the finally block *)
  | PDone.                                           (* serve() returned *)

Record state := mkS { pc : pcs; workers : list worker; backlog : list bconn; stop : bool; next_id : N;
                      (* history variables (never read by the loop) *)
                      finished : list (N * outcome); accepted : list N; entered : list N }.

Definition init : state := mkS PTop [] [] false 0%N [] [] [].

Inductive event :=
  | EConnect (l : N)             (* a client completes connect() to listener l *)
  | EPartial (c : N)             (* client c sends a part of the request head *)
  | ESend (c : N) (m : reqmsg) (full : bool)
                                 (* client c completes the request head (queued or accepted); full: with all of the body *)
  | EBody (c : N)                (* client c delivers the rest of the declared body *)
  | EClose (c : N)               (* client c closes without having sent anything *)
  | ERelease (c : N)             (* the handler of c returns, the response is written, the thread closes worker_socket *)
  | EStop                        (* an exit signal: the other end of the shutdown socket is closed (again) *)
  | TRead (c : N)                (* thread of c reads what the client sent and runs http.server + gate *)
  | TBody (c : N)                (* thread of c, inside the handler, has read the complete body *)
  | TTimeout (c : N)             (* socket.timeout in the thread of c: while it waits for the head or for the body *)
  | LBuild                       (* loop: build rlist, enter select *)
  | LSelect                      (* select returns all ready descriptors of rlist (only if there is one) *)
  | LBody (acc : option N)       (* loop body after select; acc = the listener rset.pop() yields, if any *)
  | LFinal                       (* finally: recv(1) + close on the next worker socket.  ASSUMED (and monitored on the
                                    implementation at every select call and end-to-end for every auth back-end): the socket
                                    pair is blocking, i.e. nobody changed the process-wide socket default timeout -- with a
                                    timeout the recv raises and serve() leaves the finally block with requests in flight *)
  | LClose.                      (* finally: server_close(); serve returns *)

Inductive obs :=
  | ONewConn (c : N)
  | ORlist (ws : list N) (listen : bool)
  | ORset (ws : list N) (ls : list N) (st : bool)
  | OBreak
  | OReaped (ws : list N)
  | OAccepted (l c : N)
  | OEnter (c : N)
  | OAnswer (c : N) (st : N)
  | OTimedOut (c : N)
  | OBodyRead (c : N)
  | OBodyTimedOut (c : N)
  | OEofSeen (c : N)
  | OHandlerDone (c : N)
  | OWaited (c : N)
  | OReturned.

(* ---- helpers ---- *)
Definition ids (ws : list worker) : list N := map w_id ws.
Definition bids (bs : list bconn) : list N := map b_id bs.
Definition memN (x : N) (l : list N) : bool := existsb (N.eqb x) l.

Definition is_done (w : worker) : bool := match w_st w with WDone _ => true | _ => false end.
Definition outcome_of (w : worker) : option outcome := match w_st w with WDone o => Some o | _ => None end.

Definition find_w (c : N) (ws : list worker) : option worker := find (fun w => N.eqb (w_id w) c) ws.
Definition find_b (c : N) (bs : list bconn) : option bconn := find (fun b => N.eqb (b_id b) c) bs.

Definition upd_w (c : N) (f : worker -> worker) (ws : list worker) : list worker :=
  map (fun w => if N.eqb (w_id w) c then f w else w) ws.
Definition upd_b (c : N) (f : bconn -> bconn) (bs : list bconn) : list bconn :=
  map (fun b => if N.eqb (b_id b) c then f b else b) bs.

Definition set_st (st : wstatus) (w : worker) : worker := mkW (w_id w) (w_lis w) (w_cl w) st.
Definition set_wcl (cl : cstate) (w : worker) : worker := mkW (w_id w) (w_lis w) cl (w_st w).
Definition set_bcl (cl : cstate) (b : bconn) : bconn := mkB (b_id b) (b_lis b) cl.

(* listeners 0 .. n-1 whose accept queue is not empty *)
Fixpoint listeners_upto (n : nat) : list N :=
  match n with O => [] | S k => listeners_upto k ++ [N.of_nat k] end.
Definition has_queued (bs : list bconn) (l : N) : bool := existsb (fun b => N.eqb (b_lis b) l) bs.
Definition ready_listeners (cfg : config) (bs : list bconn) : list N :=
  filter (has_queued bs) (listeners_upto (N.to_nat (n_listen cfg))).

(* accept() on listener l: the oldest queued connection of l *)
Fixpoint take_first (l : N) (bs : list bconn) : option (bconn * list bconn) :=
  match bs with
  | [] => None
  | b :: r => if N.eqb (b_lis b) l then Some (b, r)
              else match take_first l r with Some (x, r') => Some (x, b :: r') | None => None end
  end.

Definition done_pairs (ws : list worker) : list (N * outcome) :=
  flat_map (fun w => match w_st w with WDone o => [(w_id w, o)] | _ => [] end) ws.

(* `if max_connections <= 0 or len(rlist) < max_connections` with rlist = all worker sockets *)
Definition below_limit (cfg : config) (ws : list worker) : bool :=
  (max_conn cfg <=? 0) || (Z.of_nat (length ws) <? max_conn cfg).

Definition with_pc (s : state) (p : pcs) : state :=
  mkS p (workers s) (backlog s) (stop s) (next_id s) (finished s) (accepted s) (entered s).
Definition with_workers (s : state) (ws : list worker) : state :=
  mkS (pc s) ws (backlog s) (stop s) (next_id s) (finished s) (accepted s) (entered s).

(* the request head is not complete yet (nothing or only a part of it was sent) *)
Definition head_open (cl : cstate) : bool := match cl with CIdle | CPartial => true | _ => false end.

(* the declared body has arrived completely *)
Definition body_full (cl : cstate) : bool := match cl with CSent _ true => true | _ => false end.

(* the thread is blocked on the client socket and the client has not delivered what it waits for:
   the request head (nothing or only a part of it sent) or, inside the handler, the rest of the body *)
Definition waits_for_client (w : worker) : bool :=
  match w_st w with
  | WReading => head_open (w_cl w)
  | WBody => negb (body_full (w_cl w))
  | _ => false
  end.

Definition is_pdone (p : pcs) : bool := match p with PDone => true | _ => false end.

(* ---- the step function: None = the event cannot happen in this state ---- *)
Definition step (cfg : config) (s : state) (e : event) : option (state * list obs) :=
  match e with
  | EConnect l =>
      if is_pdone (pc s) then None                  (* listening sockets are closed *)
      else if (l <? n_listen cfg)%N then
        Some (mkS (pc s) (workers s) (backlog s ++ [mkB (next_id s) l CIdle]) (stop s)
                  (N.succ (next_id s)) (finished s) (accepted s) (entered s),
              [ONewConn (next_id s)])
      else None
  | EPartial c =>
      match find_b c (backlog s) with
      | Some b => match b_cl b with
                  | CIdle => Some (mkS (pc s) (workers s) (upd_b c (set_bcl CPartial) (backlog s)) (stop s)
                                       (next_id s) (finished s) (accepted s) (entered s), [])
                  | _ => None end
      | None =>
        match find_w c (workers s) with
        | Some w => match w_cl w, w_st w with
                    | CIdle, WReading => Some (with_workers s (upd_w c (set_wcl CPartial) (workers s)), [])
                    | _, _ => None end
        | None => None
        end
      end
  | ESend c m full =>
      match find_b c (backlog s) with
      | Some b => if head_open (b_cl b) then
                    Some (mkS (pc s) (workers s) (upd_b c (set_bcl (CSent m full)) (backlog s)) (stop s)
                              (next_id s) (finished s) (accepted s) (entered s), [])
                  else None
      | None =>
        match find_w c (workers s) with
        | Some w => match head_open (w_cl w), w_st w with
                    | true, WReading => Some (with_workers s (upd_w c (set_wcl (CSent m full)) (workers s)), [])
                    | _, _ => None end
        | None => None
        end
      end
  | EBody c =>
      match find_b c (backlog s) with
      | Some b => match b_cl b with
                  | CSent m false => Some (mkS (pc s) (workers s) (upd_b c (set_bcl (CSent m true)) (backlog s)) (stop s)
                                               (next_id s) (finished s) (accepted s) (entered s), [])
                  | _ => None end
      | None =>
        match find_w c (workers s) with
        | Some w => match w_cl w, w_st w with
                    | CSent m false, WReading | CSent m false, WBody =>
                        Some (with_workers s (upd_w c (set_wcl (CSent m true)) (workers s)), [])
                    | _, _ => None end
        | None => None
        end
      end
  | EClose c =>
      match find_b c (backlog s) with
      | Some b => match b_cl b with
                  | CIdle => Some (mkS (pc s) (workers s) (upd_b c (set_bcl CClosed) (backlog s)) (stop s)
                                       (next_id s) (finished s) (accepted s) (entered s), [])
                  | _ => None end
      | None =>
        match find_w c (workers s) with
        | Some w => match w_cl w, w_st w with
                    | CIdle, WReading => Some (with_workers s (upd_w c (set_wcl CClosed) (workers s)), [])
                    | _, _ => None end
        | None => None
        end
      end
  | ERelease c =>
      match find_w c (workers s) with
      | Some w => match w_st w with
                  | WHandling => Some (with_workers s (upd_w c (set_st (WDone OHandled)) (workers s)),
                                       [OHandlerDone c])
                  | _ => None end
      | None => None
      end
  | EStop =>
      (* an exit signal runs shutdown_signal_handler: shutdown_socket.close().  Idempotent: closing the closed socket
         again (a second / third exit signal while draining) changes nothing (Model/ServerMain.v) *)
      if stop s then Some (s, []) else
      Some (mkS (pc s) (workers s) (backlog s) true (next_id s) (finished s) (accepted s) (entered s), [])
  | TRead c =>
      match find_w c (workers s) with
      | Some w =>
        match w_st w, w_cl w with
        | WReading, CSent RGarbage _ =>
            Some (with_workers s (upd_w c (set_st (WDone (OResp 400%N))) (workers s)), [OAnswer c 400%N])
        | WReading, CSent (RHttp r) _ =>
            match gate_status (gate (gc cfg) r) with
            | Some st => Some (with_workers s (upd_w c (set_st (WDone (OResp st))) (workers s)), [OAnswer c st])
            | None => Some (mkS (pc s) (upd_w c (set_st (if r_body r then WBody else WHandling)) (workers s))
                                (backlog s) (stop s) (next_id s)
                                (finished s) (accepted s) (entered s ++ [c]), [OEnter c])
            end
        | WReading, CClosed =>
            Some (with_workers s (upd_w c (set_st (WDone OEof)) (workers s)), [OEofSeen c])
        | _, _ => None
        end
      | None => None
      end
  | TBody c =>
      match find_w c (workers s) with
      | Some w =>
        match w_st w with
        | WBody => if body_full (w_cl w)
                   then Some (with_workers s (upd_w c (set_st WHandling) (workers s)), [OBodyRead c])
                   else None
        | _ => None
        end
      | None => None
      end
  | TTimeout c =>
      if timeout_on cfg then
        match find_w c (workers s) with
        | Some w => match w_st w with
                    | WReading =>
                        if head_open (w_cl w) then
                          Some (with_workers s (upd_w c (set_st (WDone OTimeout)) (workers s)), [OTimedOut c])
                        else None
                    | WBody =>
                        if body_full (w_cl w) then None
                        else Some (with_workers s (upd_w c (set_st (WDone OAborted)) (workers s)), [OBodyTimedOut c])
                    | _ => None
                    end
        | None => None
        end
      else None
  | LBuild =>
      match pc s with
      | PTop => let rlw := ids (workers s) in
                let rll := below_limit cfg (workers s) in
                Some (with_pc s (PSelect rlw rll), [ORlist rlw rll])
      | _ => None
      end
  | LSelect =>
      match pc s with
      | PSelect rlw rll =>
          let rw := ids (filter (fun w => is_done w && memN (w_id w) rlw) (workers s)) in
          let rls := if rll then ready_listeners cfg (backlog s) else [] in
          let rst := stop s in
          match rw, rls, rst with
          | [], [], false => None                   (* nothing ready: select keeps blocking *)
          | _, _, _ => Some (with_pc s (PGot rw rls rst), [ORset rw rls rst])
          end
      | _ => None
      end
  | LBody acc =>
      match pc s with
      | PGot rw rls rst =>
          if rst then
            match acc with None => Some (with_pc s PFinal, [OBreak]) | Some _ => None end
          else
            let reaped := filter (fun w => memN (w_id w) rw) (workers s) in
            let kept := filter (fun w => negb (memN (w_id w) rw)) (workers s) in
            let fin := finished s ++ done_pairs reaped in
            match rls, acc with
            | [], None => Some (mkS PTop kept (backlog s) (stop s) (next_id s) fin (accepted s) (entered s),
                                [OReaped (ids reaped)])
            | _ :: _, Some l =>
                if memN l rls then
                  match take_first l (backlog s) with
                  | Some (b, rest) =>
                      Some (mkS PTop (kept ++ [mkW (b_id b) l (b_cl b) WReading]) rest (stop s) (next_id s) fin
                                (accepted s ++ [b_id b]) (entered s),
                            [OReaped (ids reaped); OAccepted l (b_id b)])
                  | None => None                    (* handle_request would block: cannot happen, see proofs *)
                  end
                else None
            | _, _ => None
            end
      | _ => None
      end
  | LFinal =>
      match pc s with
      | PFinal =>
          match workers s with
          | w :: rest =>
              match w_st w with
              | WDone o => Some (mkS PFinal rest (backlog s) (stop s) (next_id s) (finished s ++ [(w_id w, o)])
                                     (accepted s) (entered s), [OWaited (w_id w)])
              | _ => None                           (* s.recv(1) blocks until the thread closes its end *)
              end
          | [] => None
          end
      | _ => None
      end
  | LClose =>
      match pc s, workers s with
      | PFinal, [] => Some (mkS PDone [] [] (stop s) (next_id s) (finished s) (accepted s) (entered s), [OReturned])
      | _, _ => None
      end
  end.

(* run a list of events; None as soon as one is not enabled *)
Fixpoint run (cfg : config) (s : state) (evs : list event) : option (state * list obs) :=
  match evs with
  | [] => Some (s, [])
  | e :: r => match step cfg s e with
              | Some (s', o) => match run cfg s' r with Some (s'', o') => Some (s'', o ++ o') | None => None end
              | None => None
              end
  end.

(* for the correspondence: index of the first event that is not enabled, or the observations *)
Fixpoint run_obs (cfg : config) (s : state) (evs : list event) (i : N) : (list obs * option N) :=
  match evs with
  | [] => ([], None)
  | e :: r => match step cfg s e with
              | Some (s', o) => let (o', bad) := run_obs cfg s' r (N.succ i) in (o ++ o', bad)
              | None => ([], Some i)
              end
  end.

Definition handling (s : state) : nat :=
  length (filter (fun w => match w_st w with WHandling | WBody => true | _ => false end) (workers s)).

(* ---- decidable equality of observations (used by the correspondence files) ---- *)
Fixpoint eqb_listN (a b : list N) : bool :=
  match a, b with
  | [], [] => true
  | x :: a', y :: b' => N.eqb x y && eqb_listN a' b'
  | _, _ => false
  end.

Definition obs_eqb (a b : obs) : bool :=
  match a, b with
  | ONewConn c, ONewConn d => N.eqb c d
  | ORlist w l, ORlist w' l' => eqb_listN w w' && Bool.eqb l l'
  | ORset w l s, ORset w' l' s' => eqb_listN w w' && eqb_listN l l' && Bool.eqb s s'
  | OBreak, OBreak => true
  | OReaped w, OReaped w' => eqb_listN w w'
  | OAccepted l c, OAccepted l' c' => N.eqb l l' && N.eqb c c'
  | OEnter c, OEnter d => N.eqb c d
  | OAnswer c s, OAnswer d t => N.eqb c d && N.eqb s t
  | OTimedOut c, OTimedOut d => N.eqb c d
  | OBodyRead c, OBodyRead d => N.eqb c d
  | OBodyTimedOut c, OBodyTimedOut d => N.eqb c d
  | OEofSeen c, OEofSeen d => N.eqb c d
  | OHandlerDone c, OHandlerDone d => N.eqb c d
  | OWaited c, OWaited d => N.eqb c d
  | OReturned, OReturned => true
  | _, _ => false
  end.

Fixpoint eqb_obs_list (a b : list obs) : bool :=
  match a, b with
  | [], [] => true
  | x :: a', y :: b' => obs_eqb x y && eqb_obs_list a' b'
  | _, _ => false
  end.

(* a correspondence case: configuration and event list -> observations, all events must be enabled *)
Definition play (x : config * list event) : list obs * option N := run_obs (fst x) init (snd x) 0%N.
Definition play_eqb (a b : list obs * option N) : bool :=
  eqb_obs_list (fst a) (fst b) &&
  match snd a, snd b with None, None => true | Some i, Some j => N.eqb i j | _, _ => false end.

(* the gate alone: (status if decided by the gate, handler invoked) *)
Definition gate_out (x : gcfg * req) : option N * bool :=
  let g := gate (fst x) (snd x) in (gate_status g, match g with GDispatch => true | _ => false end).
Definition gate_out_eqb (a b : option N * bool) : bool :=
  match fst a, fst b with None, None => true | Some i, Some j => N.eqb i j | _, _ => false end
  && Bool.eqb (snd a) (snd b).
