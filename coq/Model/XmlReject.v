(* C19 -- what happens to a request whose XML body is rejected.

   Only definitions (proofs: Proofs/C19Skel.v, Proofs/C19Reject.v).

   Part 1 (trace level, over the skeleton terms regenerated from radicale/app/*.py): two event automata
   for the generic abstract interpreter [chk] of Model/LockDiscipline.v --
     [step19s]: for a handler term: the body is parsed at most once, nothing touches the lock or the
                storage before a successful parse, and after a failing parse the only events are
                Raise / Catch and then at most one Return, of status 400 or 408, which ends the trace;
     [step19g]: for gate + handler: after a failing parse no lock / storage / hook / release event and
                only returns of status 400 / 408 (handler) or the status passed on by the gate.
   Part 2 (response level): the exception classes that can leave ApplicationBase._read_xml_request_body,
   the `except` clauses around its five call sites, the catch-all of Application.__call__, the three
   response constants of httputils.py, and the model [serve] of "read, parse, dispatch".  The tables are
   regenerated from the source into Gen/XmlGen.v and proved equal to the ones used here
   (Gen_*_eq in Proofs/C19Reject.v).
   The XML parser itself (expat + defusedxml) is NOT modelled: it is a Section variable; what is assumed
   about it is the hypothesis [defused_ok] of the theorems (validated by the correspondence check). *)
From Coq Require Import List NArith Bool String.
Import ListNotations.
Require Import RV.Lib.PyStr RV.Model.LockDiscipline RV.Model.XmlProlog.
Open Scope N_scope.

(* ================================================================== Part 1: automata *)
Inductive ph :=
| PhNot                 (* body not read yet *)
| PhDone                (* body read and parsed *)
| PhFailed              (* reading / parsing raised; no response yet *)
| PhFailedRet (c : N).  (* ... and the handler returned status c *)

Definition ph_eqb (a b : ph) : bool :=
  match a, b with
  | PhNot, PhNot | PhDone, PhDone | PhFailed, PhFailed => true
  | PhFailedRet x, PhFailedRet y => x =? y
  | _, _ => false
  end.

(* the statuses a handler may answer a failed body read with: BAD_REQUEST, REQUEST_TIMEOUT *)
Definition fail_code (st : status) : option N :=
  match st with
  | StCode c => if (c =? 400) || (c =? 408) then Some c else None
  | StAny => None
  end.

Definition touches (e : event) : bool :=
  match e with EAcquire _ | ERelease | EHook | EStorage _ => true | _ => false end.

Definition step19s (q : ph) (e : event) : option ph :=
  match q with
  | PhNot =>
      match e with
      | EParse => Some PhDone
      | EParseFail => Some PhFailed
      | ERaise | ECatch => Some PhNot
      | EReturn _ => Some PhDone       (* answered before reading the body (403): no read can follow *)
      | _ => None                      (* nothing touches the lock or the storage before the body is read *)
      end
  | PhDone => match e with EParse | EParseFail => None | _ => Some PhDone end
  | PhFailed =>
      match e with
      | ERaise | ECatch => Some PhFailed
      | EReturn st => match fail_code st with Some c => Some (PhFailedRet c) | None => None end
      | _ => None
      end
  | PhFailedRet _ => None           (* the return ends the trace *)
  end.

(* the abstract states a handler term may end in *)
Definition final_ok (x : outcome * (option LockDiscipline.mode * ph)) : bool :=
  let '(o, (h, q)) := x in
  match q with
  | PhFailed => outcome_eqb o ORaise && omode_eqb h None
  | PhFailedRet _ => outcome_eqb o OReturn && omode_eqb h None
  | _ => true
  end.

Definition check_fail_shape (s : skel) : bool :=
  match chk ph_eqb step19s s (None, PhNot) with
  | Some r => forallb final_ok r
  | None => false
  end.

(* gate + handler *)
Definition gate_status_ok (st : status) : bool :=
  match st with StAny => true | StCode c => (c =? 400) || (c =? 408) end.

Definition step19g (q : q19) (e : event) : option q19 :=
  match q with
  | PNot => match e with EParse => Some PDone | EParseFail => Some PFailed | _ => Some PNot end
  | PDone => match e with EParse | EParseFail => None | _ => Some PDone end
  | PFailed =>
      match e with
      | ERaise | ECatch => Some PFailed
      | EReturn st => if gate_status_ok st then Some PFailed else None
      | _ => None
      end
  end.

Definition check_gate_fail (s : skel) : bool := check_from q19_eqb step19g PNot s.

(* declarative statements *)
Definition quiet (e : event) : Prop := e = EParseFail \/ e = ERaise \/ e = ECatch.

(* a handler trace in which the body read fails: nothing but ParseFail / Raise / Catch, then either the
   exception leaves the handler or exactly one Return 400 / 408 ends it; no lock is held *)
Definition fail_shape (t : list event) (o : outcome) (h : option LockDiscipline.mode) : Prop :=
  h = None /\
  ((o = ORaise /\ Forall quiet t) \/
   (o = OReturn /\ exists t0 c, t = (t0 ++ [EReturn (StCode c)])%list /\ (c = 400 \/ c = 408) /\ Forall quiet t0)).

Definition after_fail_inert (t : list event) : Prop :=
  forall pre post, t = (pre ++ EParseFail :: post)%list ->
    ~ In EParse pre /\
    forall e, In e post ->
      touches e = false /\ e <> EParse /\ e <> EParseFail /\
      (forall st, e = EReturn st -> st = StCode 400 \/ st = StCode 408 \/ st = StAny).

(* ================================================================== Part 2: responses *)
Inductive method := MPropfind | MProppatch | MReport | MMkcol | MMkcalendar.
Definition all_methods := [MMkcalendar; MMkcol; MPropfind; MProppatch; MReport].
Definition method_name (m : method) : string :=
  match m with MPropfind => "PROPFIND" | MProppatch => "PROPPATCH" | MReport => "REPORT"
          | MMkcol => "MKCOL" | MMkcalendar => "MKCALENDAR" end.

(* exceptions that can leave _read_xml_request_body *)
Inductive exn :=
| XRuntimeError          (* body shorter than Content-Length; ET.ParseError re-raised as RuntimeError *)
| XSocketTimeout         (* the client stopped sending *)
| XDefused               (* defusedxml: EntitiesForbidden / DTDForbidden / ExternalReferenceForbidden (ValueError) *)
| XLookupError           (* Content-Type names a codec Python does not know *)
| XUnicodeDecodeError    (* all codecs failed (cannot happen with iso8859-1 in the list; kept for totality) *)
| XParseErrorRaw.        (* ET.ParseError itself -- only if the re-raise were removed *)

(* classes named in `except` clauses *)
Inductive eclass := CRuntimeError | CSocketTimeout | CValueError | CParseError | CException | CLookupError.

(* Python's isinstance for the classes above (socket.timeout = TimeoutError < OSError;
   DefusedXmlException < ValueError; UnicodeDecodeError < ValueError; ParseError < SyntaxError) *)
Definition isinstance (e : exn) (c : eclass) : bool :=
  match c, e with
  | CException, _ => true
  | CRuntimeError, XRuntimeError => true
  | CSocketTimeout, XSocketTimeout => true
  | CValueError, (XDefused | XUnicodeDecodeError) => true
  | CParseError, XParseErrorRaw => true
  | CLookupError, XLookupError => true
  | _, _ => false
  end.

Inductive rconst := BAD_REQUEST | REQUEST_TIMEOUT | INTERNAL_SERVER_ERROR.
Record resp := mkResp { r_status : N; r_ctype : pystr; r_body : pystr }.

(* httputils.py (the charset suffix is added by _handle_request.response resp. absent in __call__) *)
Definition const_resp (c : rconst) : resp :=
  match c with
  | BAD_REQUEST => mkResp 400 (str "text/plain") (str "Bad Request")
  | REQUEST_TIMEOUT => mkResp 408 (str "text/plain") (str "Connection timed out.")
  | INTERNAL_SERVER_ERROR => mkResp 500 (str "text/plain")
                               (str "A server error occurred.  Please contact the administrator.")
  end.

(* the `except` clauses around `self._read_xml_request_body(environ)`, the same in the five handlers *)
Definition handler_clauses (m : method) : list (eclass * rconst) :=
  [(CRuntimeError, BAD_REQUEST); (CSocketTimeout, REQUEST_TIMEOUT)].
(* Application.__call__: `except Exception` around _handle_request *)
Definition top_clause : eclass * rconst := (CException, INTERNAL_SERVER_ERROR).

Fixpoint first_clause (e : exn) (l : list (eclass * rconst)) : option rconst :=
  match l with
  | [] => None
  | (c, r) :: l' => if isinstance e c then Some r else first_clause e l'
  end.

(* the response to an exception raised by the body read in handler m; None = the exception would leave
   the WSGI application (does not happen: the catch-all takes every class) *)
Definition reject_const (m : method) (e : exn) : option rconst :=
  match first_clause e (handler_clauses m) with
  | Some r => Some r
  | None => first_clause e [top_clause]
  end.

(* ---- _read_xml_request_body ---- *)
Inductive raw := RawOk (b : list N) | RawShort | RawTimeout.          (* httputils.read_raw_request_body *)
Inductive dec := DecOk (s : pystr) | DecUnicodeError | DecLookupError.  (* bytes.decode(charset) *)

(* httputils.decode_request: the charsets tried, in order, duplicates removed keeping the first *)
Fixpoint dedupe (l : list pystr) (seen : list pystr) : list pystr :=
  match l with
  | [] => []
  | s :: r => if mem_str s seen then dedupe r seen else s :: dedupe r (s :: seen)
  end.
Definition charsets (content_type_charset : option pystr) (configured : pystr) : list pystr :=
  dedupe (match content_type_charset with Some c => [c] | None => [] end
          ++ [configured; str "utf-8"; str "iso8859-1"]) [].

Fixpoint decode_request (decode : pystr -> dec) (cs : list pystr) : pystr + exn :=
  match cs with
  | [] => inr XUnicodeDecodeError
  | c :: r => match decode c with
              | DecOk s => inl s
              | DecUnicodeError => decode_request decode r      (* contextlib.suppress(UnicodeDecodeError) *)
              | DecLookupError => inr XLookupError
              end
  end.

(* what DefusedET.fromstring does with the text *)
Inductive forbid := FEntities | FDtd | FExternal.
Inductive parsed (tree : Type) := PTree (t : tree) | PParseError | PForbidden (k : forbid).
Arguments PTree {tree}. Arguments PParseError {tree}. Arguments PForbidden {tree}.

Inductive readres (tree : Type) := RNone | RTree (t : tree) | RRaise (e : exn).
Arguments RNone {tree}. Arguments RTree {tree}. Arguments RRaise {tree}.

Section Serve.
  Variable tree : Type.
  Variable store : Type.
  Variable xml_parse : pystr -> parsed tree.        (* expat + defusedxml: not modelled *)

  Definition read_xml (r : raw) (decode : list N -> pystr -> dec) (cs : list pystr) : readres tree :=
    match r with
    | RawShort => RRaise XRuntimeError
    | RawTimeout => RRaise XSocketTimeout
    | RawOk b =>
        match decode_request (decode b) cs with
        | inr e => RRaise e
        | inl [] => RNone                                (* `if not content: return None` *)
        | inl content =>
            match xml_parse content with
            | PTree t => RTree t
            | PParseError => RRaise XRuntimeError        (* `except ET.ParseError: raise RuntimeError` *)
            | PForbidden _ => RRaise XDefused            (* not caught in _read_xml_request_body *)
            end
        end
    end.

  (* a handler: [early] = the response of the checks that precede the body read (403), [cont] = everything
     after it (the only part that takes the lock and touches the store, by C19_parse_first) *)
  Definition serve (m : method) (early : option resp) (rd : readres tree)
             (cont : option tree -> store -> store * resp) (s : store) : store * option resp :=
    match early with
    | Some r => (s, Some r)
    | None =>
        match rd with
        | RNone => let '(s', r) := cont None s in (s', Some r)
        | RTree t => let '(s', r) := cont (Some t) s in (s', Some r)
        | RRaise e => (s, option_map const_resp (reject_const m e))
        end
    end.
End Serve.

(* ---- the parser's contract on the scanner's classes, as far as the property needs it ---- *)
(* forbid_dtd is the keyword argument of DefusedET.fromstring (default False; regenerated) *)
Definition must_reject (forbid_dtd : bool) (content : pystr) : bool :=
  declares_entity content || (forbid_dtd && has_doctype content).

(* ---- prediction used by the correspondence check on the attack grammar ---- *)
Inductive rootkind := RootValid | RootMalformed | RootUndefinedRef.
Inductive verdict := VHandled | VRejected (c : rconst).
Definition predict (forbid_dtd : bool) (content : pystr) (rk : rootkind) : verdict :=
  if must_reject forbid_dtd content then VRejected INTERNAL_SERVER_ERROR
  else match rk with
       | RootValid => VHandled
       | _ => VRejected BAD_REQUEST
       end.

(* ---- the function evaluated by the correspondence check (checks/C19.py) ----
   [spec_parse]: the behaviour of expat + defusedxml ON THE ATTACK GRAMMAR as the property needs it (refuse
   what must be refused, ParseError for a root element the generator made malformed, a tree otherwise);
   it is compared with the real parser on every run -- it is not used by any theorem. *)
Definition spec_parse (fd : bool) (rk : rootkind) (content : pystr) : parsed unit :=
  match predict fd content rk with
  | VHandled => PTree tt
  | VRejected BAD_REQUEST => PParseError
  | VRejected _ => PForbidden FEntities
  end.

(* results of bytes.decode(charset) as observed by the harness: 0 = the intended text, 1 = UnicodeDecodeError,
   3 = a mis-decoded text (the harness generates these only where the result is not well-formed XML),
   anything else / unknown charset = LookupError *)
(* stands for the text a wrongly guessed charset produces (UTF-16 read as latin-1, ...): not well-formed *)
Definition garbage : pystr := [63].
Definition dec_of (content : pystr) (results : list (pystr * N)) (c : pystr) : dec :=
  match find (fun x => eqs (fst x) c) results with
  | Some (_, 0) => DecOk content
  | Some (_, 1) => DecUnicodeError
  | Some (_, 3) => DecOk garbage           (* decodes, but to a mis-decoded text (wrong charset guessed) *)
  | _ => DecLookupError
  end.

Definition handled_marker : resp := mkResp 0 [] [].

Definition corr_case (fd : bool) (x : method * attack * rootkind * option pystr * list (pystr * N))
  : bool * (N * N) * N * pystr :=
  let '(m, a, rk, ct, results) := x in
  let content := render a in
  let parser := fun c => if eqs c garbage then PParseError else spec_parse fd rk c in
  let rd := read_xml unit parser (RawOk []) (fun _ => dec_of content results)
                     (charsets ct (str "utf-8")) in
  match serve unit unit m None rd (fun _ s => (s, handled_marker)) tt with
  | (_, Some r) => (wf_attack a, fingerprint content, r_status r, r_body r)
  | (_, None) => (wf_attack a, fingerprint content, 999, [])
  end.

Definition corr_eqb (a b : bool * (N * N) * N * pystr) : bool :=
  let '(w1, (l1, h1), s1, t1) := a in let '(w2, (l2, h2), s2, t2) := b in
  Bool.eqb w1 w2 && (l1 =? l2) && (h1 =? h2) && (s1 =? s2) && eqs t1 t2.
