(* The request handlers of radicale/app/*.py over the ideal store (DESIGN section 3, Appendix A).
   The order of checks follows the Python line by line (it determines the status code).
   Request bodies are abstract (the harness generates bytes from them).  No proofs here. *)
From Coq Require Import List NArith Bool.
Import ListNotations.
Require Import RV.Lib.PyStr RV.Lib.Item RV.Model.Store RV.Model.Access.
Open Scope N_scope.

(* ---- permissions ---- *)
Definition perms := pystr.
Definition policy := path -> perms.               (* the rights back-end, for the requesting user *)
Definition lr : N := 114. Definition lw : N := 119. Definition lR : N := 82. Definition lW : N := 87.
Definition li : N := 105. Definition ld : N := 100. Definition lD : N := 68. Definition lo : N := 111. Definition lO : N := 79.
Definition has (c : N) (p : perms) : bool := contains_char c p.
Definition inter (p : perms) (l : list N) : bool := existsb (fun c => has c p) l.

Record config := mkConfig { permit_delete : bool; permit_overwrite : bool }.

Definition kind_of (n : node) : item_kind :=
  match n with
  | NNothing => NoItem
  | NColl c => IsCollection (match c_tag c with TNone => [] | TCal => [86] | TAdr => [86] end)
  | NItem _ _ => IsItem
  end.

(* Access(rights, user, path): permissions, parent_permissions (= permissions for the root) *)
Definition pperms_of (pol : policy) (p : path) : perms := if is_root p then pol p else pol (parent p).

(* access.check(permission, item); the permission argument is always one of "rwdDoO" here, so no raise *)
Definition check (pol : policy) (p : path) (permission : N) (it : item_kind) : bool :=
  match access_check (pol p) (pperms_of pol p) (is_root p) [permission] it with
  | Some b => b
  | None => false
  end.

(* ---- abstract requests ---- *)
Inductive ctype := CTNone | CTCal | CTCard.
Inductive body :=
| BBad                       (* read_components raises *)
| BEmpty                     (* no component *)
| BCal (l : list obj)        (* one VCALENDAR object holding these components *)
| BCards (l : list obj).     (* these VCARD objects *)

Inductive etag :=
| EtItem (o : obj)
| EtColl (c : coll)
| EtBogus.
Inductive cond := CNone | CStar | CTag (e : etag).

Definition etag_eqb_current (n : node) (e : etag) : bool :=
  match n, e with
  | NItem _ o, EtItem o' => obj_eqb o o'
  | NColl _, EtColl _ => true       (* the harness only ever sends the CURRENT collection etag or a bogus one *)
  | _, _ => false
  end.

(* properties of MKCOL / MKCALENDAR / PROPPATCH bodies: key 0 is "tag" (D:resourcetype) *)
Inductive tagreq := TRNone | TRSet (t : tag) | TRRemove.   (* TRSet TNone = resourcetype without a known type *)
Inductive xbody :=
| XBad                                        (* XML parse error *)
| XNone                                       (* no body *)
| XProps (t : tagreq) (l : list (N * option N)).   (* set (Some v) / remove (None), in order *)

(* the other REPORTs of app/report.py: calendar-query, addressbook-query, sync-collection (without a token) and
   free-busy-query.  `flt` is the request's filter as a predicate on the stored objects (None: the request has no
   C:filter / CR:filter element; for free-busy: no C:time-range); the theorems quantify over it. *)
Inductive qkind := QCal | QAdr | QSync | QFreeBusy.

Inductive request :=
| RPut (p : path) (ct : ctype) (b : body) (if_match : cond) (if_none_match_star : bool)
| RDelete (p : path) (if_match : cond)
| RMove (p : path) (dest_ok : bool) (to : path) (overwrite : bool)
| RMkcol (p : path) (x : xbody)
| RMkcalendar (p : path) (x : xbody)
| RProppatch (p : path) (x : xbody)
| RGet (p : path)
| RPropfind (p : path) (depth1 : bool)
| RMultiget (p : path) (cal : bool) (hrefs : list path)
| RQuery (p : path) (k : qkind) (flt : option (obj -> bool)).

Inductive status :=
| S200 | S201 | S204 | S207 | S400 | S403NA | S403F | S403Dir | S403Report | S404 | S405 | S409 | S409Uid | S409Null | S412 | S500 | S502.

Inductive entry :=
| ECollE (p : path) (t : tag) (props : list (N * N)) (writable : bool)
| EItemE (p : path) (o : obj) (writable : bool)
| E404 (p : path).

Inductive payload :=
| PNone
| PEtag (e : etag)
| PItem (o : obj)
| PExport (t : tag) (l : list obj)
| PListing (l : list entry)
| PBusy (l : list obj).              (* free-busy answer: the events whose periods it is computed from *)

Definition response := (status * payload)%type.

(* ---- PUT ---- *)
Definition ptag := option tag.       (* None = Python None; Some t with t <> TNone = "VCALENDAR"/"VADDRESSBOOK" *)

Definition predict_whole (b : body) (ct : ctype) : ptag :=
  match b with
  | BCal _ => Some TCal
  | BCards (_ :: _) => Some TAdr
  | BCards [] | BEmpty | BBad =>
      match ct with CTNone => Some TAdr | CTCal => Some TCal | CTCard => Some TAdr end
  end.

Definition predict_parent (b : body) : ptag :=
  match b with
  | BCal _ => Some TCal
  | BCards [_] => Some TAdr
  | _ => None
  end.

Definition cal_comp (o : obj) : bool := match o_comp o with CCard => false | _ => true end.
Definition card_comp (o : obj) : bool := match o_comp o with CCard => true | _ => false end.

Fixpoint nodup_uids (l : list obj) : bool :=
  match l with
  | [] => true
  | o :: r => negb (existsb (fun o' => N.eqb (o_uid o') (o_uid o)) r) && nodup_uids r
  end.

(* check_and_sanitize_items + the item construction of prepare(): None = an exception was stored *)
Definition validate (b : body) (whole : bool) (t : tag) : option (list obj) :=
  match t with
  | TCal =>
      match b with
      | BCal l => if forallb cal_comp l then
                    if whole then Some l
                    else match l with [o] => Some [o] | _ => None end
                  else None
      | _ => None
      end
  | TAdr =>
      match b with
      | BCards l => if forallb card_comp l then
                      if whole then (if nodup_uids l then Some l else None)   (* duplicate UIDs are refused *)
                      else match l with [o] => Some [o] | _ => None end
                    else None
      | BEmpty => if whole then Some [] else None
      | _ => None
      end
  | TNone => None
  end.

Inductive prep :=
| PRaise                                                   (* ValueError outside the try block: 500 *)
| PRes (t : ptag) (wwc : option bool) (items : option (list obj)).   (* items = None: stored exception *)

Definition prepare (b : body) (ct : ctype) (permission parent_permission : bool)
                   (t0 : ptag) (wwc0 : option bool) : prep :=
  let branch1 := match wwc0 with Some true => true | _ => false end || (permission && negb parent_permission) in
  let branch2 := match wwc0 with Some false => true | _ => false end || (negb permission && parent_permission) in
  if branch1 then
    match predict_whole b ct with
    | None => PRaise
    | Some t => PRes (Some t) (Some true) (validate b true t)
    end
  else if branch2 then
    let t := match t0 with None => predict_parent b | Some _ => t0 end in
    match t with
    | Some t' => PRes t (Some false) (validate b false t')
    | None => PRes None (Some false) (Some [])
    end
  else PRes t0 wwc0 (Some []).

Definition ptag_eqb (a b : ptag) : bool :=
  match a, b with None, None => true | Some x, Some y => tag_eqb x y | _, _ => false end.
Definition obool_eqb (a : option bool) (b : bool) : bool :=
  match a with Some x => Bool.eqb x b | None => false end.

(* hrefs of a whole-collection upload are derived from the UIDs: name k <-> uid k (harness convention) *)
Definition name_of_uid (c : comp) (u : N) : name := (match c with CCard => 200 | _ => 100 end) + u.
(* a calendar component stored through a whole-collection upload is re-wrapped in its own VCALENDAR with
   Radicale's PRODID: a different text (hence ETag) than the same component uploaded alone: content id + 10 *)
Definition regroup (o : obj) : obj :=
  match o_comp o with CCard => o | _ => mkObj (o_uid o) (o_comp o) (o_cid o + 10) end.
Definition items_of_objs (l : list obj) : list (name * obj) :=
  fold_left (fun acc o => assoc_set acc (name_of_uid (o_comp o) (o_uid o)) (regroup o)) l [].

(* the second call of prepare(), made when the tag or the mode found under the lock differ from the prediction *)
Definition put_prep (b : body) (ct : ctype) (permission parent_permission : bool) (t : ptag) (wwc : bool) (p1 : prep) : prep :=
  match p1 with
  | PRaise => PRaise
  | PRes ptag1 pwwc1 pitems1 =>
      if negb (ptag_eqb t ptag1) || negb (obool_eqb pwwc1 wwc)
      then prepare b ct permission parent_permission t (Some wwc)
      else p1
  end.

Definition do_put (cfg : config) (pol : policy) (s : store) (p : path) (ct : ctype) (b : body)
                  (im : cond) (inm : bool) : store * response :=
  let pm := pol p in let ppm := pperms_of pol p in
  if negb (check pol p lw NoItem) then (s, (S403NA, PNone)) else
  match b with BBad => (s, (S400, PNone)) | _ =>
  let permission := inter pm [lW; lw] in
  let parent_permission := inter ppm [lw] in
  match prepare b ct permission parent_permission None None with
  | PRaise => (s, (S500, PNone))
  | PRes ptag1 pwwc1 pitems1 =>
    let item := resolve s p in
    match resolve s (parent p) with
    | NColl parent_c =>
      let wwc := match item with NColl _ => true | _ => false end
                 || match c_tag parent_c with TNone => true | _ => false end in
      if wwc && is_root p then (s, (S403F, PNone)) else     (* the root collection cannot be replaced *)
      let t : ptag := if wwc then ptag1 else Some (c_tag parent_c) in
      let tag_truthy := match t with Some TNone | None => false | _ => true end in
      if (if wwc then
            negb (has (if tag_truthy then lw else lW) pm)
            || (if permit_overwrite cfg then has lo pm else negb (has lO pm))
          else negb (has lw ppm))
      then (s, (S403NA, PNone)) else
      let exists_ := match item with NNothing => false | _ => true end in
      let im_fails := match im with
                      | CNone => false
                      | CStar => true                     (* PUT compares the literal "*" with the etag *)
                      | CTag e => negb (exists_ && etag_eqb_current item e)
                      end in
      if im_fails then (s, (S412, PNone)) else
      if exists_ && inm then (s, (S412, PNone)) else
      match put_prep b ct permission parent_permission t wwc (PRes ptag1 pwwc1 pitems1) with
      | PRaise => (s, (S500, PNone))
      | PRes t2 _ oitems =>
        let tag2_truthy := match t2 with Some TNone | None => false | _ => true end in
        (* the type of the new collection may only be known now: test the permission again *)
        if wwc && negb (has (if tag2_truthy then lw else lW) pm) then (s, (S403NA, PNone)) else
        match oitems with
        | None => (s, (S400, PNone))
        | Some objs =>
        if wwc then
          let tg := match t2 with Some x => x | None => TNone end in
          let newc := mkColl tg [] (items_of_objs objs) in
          (set_coll (del_subtree s p) p newc, (S201, PEtag (EtColl newc)))
        else
          match objs with
          | [o] =>
            let conflict := match item with
                            | NItem _ old => negb (N.eqb (o_uid old) (o_uid o))
                            | _ => has_uid parent_c (o_uid o)
                            end in
            if conflict then (s, (S409Uid, PNone)) else
            let c' := mkColl (c_tag parent_c) (c_props parent_c) (assoc_set (c_items parent_c) (last_name p) o) in
            (set_coll s (parent p) c', (S201, PEtag (EtItem o)))
          | _ => (s, (S500, PNone))               (* `prepared_item, = prepared_items` fails *)
          end
        end
      end
    | _ => (s, (S409, PNone))
    end
  end
  end.

(* ---- DELETE ---- *)
Definition do_delete (cfg : config) (pol : policy) (s : store) (p : path) (im : cond) : store * response :=
  if negb (check pol p lw NoItem) then (s, (S403NA, PNone)) else
  let item := resolve s p in
  match item with
  | NNothing => (s, (S404, PNone))
  | _ =>
    if negb (check pol p lw (kind_of item)) then (s, (S403NA, PNone)) else
    let im_ok := match im with CNone | CStar => true | CTag e => etag_eqb_current item e end in
    if negb im_ok then (s, (S412, PNone)) else
    match item with
    | NColl _ =>
        if (if permit_delete cfg then has ld (pol p) else negb (has lD (pol p)))     (* the flags are tested literally *)
        then (s, (S403NA, PNone))
        else ((if is_root p then empty_store else del_subtree s p), (S200, PNone))   (* the root folder is re-created on the next access *)
    | NItem pc _ =>
        let c' := mkColl (c_tag pc) (c_props pc) (assoc_del (c_items pc) (last_name p)) in
        (set_coll s (parent p) c', (S200, PNone))
    | NNothing => (s, (S404, PNone))
    end
  end.

(* ---- MOVE ---- (dest_ok = Destination names this server and lies below the base prefix) *)
Definition do_move (pol : policy) (s : store) (p : path) (dest_remote dest_outside : bool) (to : path) (overwrite : bool)
  : store * response :=
  if dest_remote then (s, (S502, PNone)) else
  if negb (check pol p lw NoItem) then (s, (S403NA, PNone)) else
  if dest_outside then (s, (S403NA, PNone)) else
  if negb (check pol to lw NoItem) then (s, (S403NA, PNone)) else
  let item := resolve s p in
  match item with
  | NNothing => (s, (S404, PNone))
  | _ =>
    if negb (check pol p lw (kind_of item)) || negb (check pol to lw (kind_of item)) then (s, (S403NA, PNone)) else
    match item with
    | NColl _ => (s, (S405, PNone))
    | NNothing => (s, (S404, PNone))
    | NItem from_c o =>
      let to_item := resolve s to in
      match to_item with
      | NColl _ => (s, (S403F, PNone))
      | _ =>
        match resolve s (parent to) with
        | NNothing => (s, (S409, PNone))
        | NItem _ _ => (s, (S500, PNone))                 (* assert isinstance(to_collection, BaseCollection) *)
        | NColl to_c =>
          if tag_eqb (c_tag from_c) TNone then (s, (S403F, PNone)) else
            if negb (tag_eqb (c_tag from_c) (c_tag to_c)) then (s, (S403F, PNone)) else
            let to_exists := match to_item with NItem _ _ => true | _ => false end in
            if to_exists && negb overwrite then (s, (S412, PNone)) else
            let conflict := match to_item with
                            | NItem _ old => negb (N.eqb (o_uid o) (o_uid old))
                            | _ => negb (path_eqb (parent to) (parent p)) && has_uid to_c (o_uid o)
                            end in
            if conflict then (s, (S409Uid, PNone)) else
            (* storage.move: rename over the destination, then the source is gone *)
            let s1 := set_coll s (parent p) (mkColl (c_tag from_c) (c_props from_c) (assoc_del (c_items from_c) (last_name p))) in
            match lookup s1 (parent to) with
            | Some tc =>
                let s2 := set_coll s1 (parent to) (mkColl (c_tag tc) (c_props tc) (assoc_set (c_items tc) (last_name to) o)) in
                (s2, ((if to_exists then S204 else S201), PNone))
            | None => (s, (S500, PNone))
            end
        end
      end
    end
  end.

(* ---- MKCOL / MKCALENDAR ---- *)
Definition apply_props (base : list (N * N)) (l : list (N * option N)) : list (N * N) :=
  fold_left (fun acc kv => match snd kv with Some v => assoc_set acc (fst kv) v | None => assoc_del acc (fst kv) end) l base.

Definition tag_of_req (t : tagreq) : tag := match t with TRSet x => x | _ => TNone end.

Definition do_mkcol (pol : policy) (s : store) (p : path) (x : xbody) : store * response :=
  let pm := pol p in
  if negb (inter pm [lW; lw]) then (s, (S403NA, PNone)) else
  match x with
  | XBad => (s, (S400, PNone))
  | _ =>
    let '(tg, props) := match x with XProps t l => (tag_of_req t, apply_props [] l) | _ => (TNone, []) end in
    let tagged := match tg with TNone => false | _ => true end in
    if tagged && negb (has lw pm) then (s, (S403NA, PNone)) else
    if negb tagged && negb (has lW pm) then (s, (S403NA, PNone)) else
    match resolve s p with
    | NNothing =>
      match resolve s (parent p) with
      | NNothing => (s, (S409, PNone))
      | NItem _ _ => (s, (S403F, PNone))
      | NColl pc =>
        match c_tag pc with
        | TNone => (set_coll s p (mkColl tg props []), (S201, PNone))
        | _ => (s, (S403F, PNone))
        end
      end
    | _ => (s, (S405, PNone))
    end
  end.

Definition do_mkcalendar (pol : policy) (s : store) (p : path) (x : xbody) : store * response :=
  let pm := pol p in
  if negb (has lw pm) then (s, (S403NA, PNone)) else
  match x with
  | XBad => (s, (S400, PNone))
  | _ =>
    let props := match x with XProps _ l => apply_props [] l | _ => [] end in
    match resolve s p with
    | NNothing =>
      match resolve s (parent p) with
      | NNothing => (s, (S409, PNone))
      | NItem _ _ => (s, (S403F, PNone))
      | NColl pc =>
        match c_tag pc with
        | TNone => (set_coll s p (mkColl TCal props []), (S201, PNone))
        | _ => (s, (S403F, PNone))
        end
      end
    | _ => (s, (S409Null, PNone))
    end
  end.

(* ---- PROPPATCH ---- (as repaired: the response is built before the write, so a request that names
   D:resourcetype answers 400 without writing) *)
Definition do_proppatch (pol : policy) (s : store) (p : path) (x : xbody) : store * response :=
  if negb (check pol p lw NoItem) then (s, (S403NA, PNone)) else
  match x with
  | XBad => (s, (S400, PNone))
  | _ =>
    let item := resolve s p in
    match item with
    | NNothing => (s, (S404, PNone))
    | _ =>
      if negb (check pol p lw (kind_of item)) then (s, (S403NA, PNone)) else
      match item with
      | NColl c =>
        match x with
        | XProps TRNone l =>
            (set_coll s p (mkColl (c_tag c) (apply_props (c_props c) l) (c_items c)), (S207, PNone))
        | XProps _ _ => (s, (S400, PNone))
        | _ => (set_coll s p c, (S207, PNone))
        end
      | _ => (s, (S403F, PNone))
      end
    end
  end.

(* ---- GET ---- *)
Definition do_get (pol : policy) (s : store) (p : path) : response :=
  if negb (check pol p lr NoItem) && negb (has li (pol p)) then (S403NA, PNone) else
  let item := resolve s p in
  match item with
  | NNothing => (S404, PNone)
  | _ =>
    let full := check pol p lr (kind_of item) in
    if negb full && negb (has li (pol p)) then (S403NA, PNone) else
    let limited := negb full in
    match item with
    | NColl c =>
      match c_tag c with
      | TNone => if limited then (S403NA, PNone) else (S403Dir, PNone)
      | t => (S200, PExport t (map snd (c_items c)))
      end
    | NItem _ o => if limited then (S403NA, PNone) else (S200, PItem o)
    | NNothing => (S404, PNone)
    end
  end.

(* ---- PROPFIND ---- *)
Definition entry_allowed (pol : policy) (e_coll_path : path) (tagged : bool) : option bool :=
  (* Some writable when visible *)
  let pm := pol e_coll_path in
  let vis_w := if tagged then has lw pm else has lW pm in
  let vis_r := if tagged then has lr pm else has lR pm in
  if vis_w then Some true else if vis_r then Some false else None.

Definition do_propfind (pol : policy) (s : store) (p : path) (depth1 : bool) : response :=
  if negb (check pol p lr NoItem) then (S403NA, PNone) else
  let item := resolve s p in
  match item with
  | NNothing => (S404, PNone)
  | _ =>
    if negb (check pol p lr (kind_of item)) then (S403NA, PNone) else
    match item with
    | NItem pc o =>
      match entry_allowed pol (parent p) true with
      | Some w => (S207, PListing [EItemE p o w])
      | None => (S207, PListing [])
      end
    | NColl c =>
      let tagged := match c_tag c with TNone => false | _ => true end in
      let self := match entry_allowed pol p tagged with
                  | Some w => [ECollE p (c_tag c) (c_props c) w] | None => [] end in
      if negb depth1 then (S207, PListing self) else
      let items := match entry_allowed pol p true with
                   | Some w => map (fun no => EItemE (p ++ [fst no]) (snd no) w) (c_items c)
                   | None => [] end in
      let kids := flat_map (fun qc =>
                     let t := match c_tag (snd qc) with TNone => false | _ => true end in
                     match entry_allowed pol (fst qc) t with
                     | Some w => [ECollE (fst qc) (c_tag (snd qc)) (c_props (snd qc)) w]
                     | None => [] end) (child_colls s p) in
      (S207, PListing (self ++ items ++ kids))
    | NNothing => (S404, PNone)
    end
  end.

(* ---- REPORT calendar-multiget / addressbook-multiget ---- *)
Fixpoint dedup_paths (l : list path) : list path :=          (* hreferences is a Python set *)
  match l with
  | [] => []
  | h :: r => if existsb (path_eqb h) r then dedup_paths r else h :: dedup_paths r
  end.
Definition do_multiget (pol : policy) (s : store) (p : path) (cal : bool) (hrefs : list path) : response :=
  if negb (check pol p lr NoItem) then (S403NA, PNone) else
  let item := resolve s p in
  match item with
  | NNothing => (S404, PNone)
  | _ =>
    if negb (check pol p lr (kind_of item)) then (S403NA, PNone) else
    let '(cp, c) := match item with
                    | NColl c => (p, c)
                    | NItem pc _ => (parent p, pc)
                    | NNothing => (p, mkColl TNone [] [])
                    end in
    if negb (tag_eqb (c_tag c) (if cal then TCal else TAdr)) then (S403Report, PNone) else
    let step (h : path) : list entry * bool :=
      if path_eqb h cp then ([], true)
      else if path_eqb (parent h) cp && negb (is_root h) then
        match assoc (c_items c) (last_name h) with
        | Some o => ([EItemE h o false], false)
        | None => ([E404 h], false)
        end
      else ([E404 h], false) in
    let res := map step (dedup_paths hrefs) in
    let whole := existsb snd res in
    (S207, PListing (flat_map fst res ++
                     (if whole then map (fun no => EItemE (cp ++ [fst no]) (snd no) false) (c_items c) else [])))
  end.

(* ---- REPORT calendar-query / addressbook-query / sync-collection / free-busy-query ---- (app/report.py)
   do_REPORT: access.check("r") -> 403; discover: nothing -> 404; access.check("r", item) -> 403; collection := the
   target or the collection of the target item.
   free-busy-query: collection.tag != VCALENDAR -> 403 supported-report; a missing C:time-range fails an assert (500);
     the answer is computed from the VEVENT items of the collection that pass the time-range filter.
   xml_report: sync-collection on a collection that is neither calendar nor address book -> 403 supported-report
     (the two query reports have NO tag test); hreferences = every name of the collection (sync without token) or
     (path,); retrieve_items: an item reference -> get_multi -> (item, False); the collection itself ->
     get_filtered(filters), which yields nothing for a collection without tag; then every candidate that was not
     pre-matched goes through test_filter when the request has a filter: that raises ValueError (400) when the filter
     does not suit the collection's tag (no tag at all; comp-filter on an address book; prop-filter on a calendar). *)
Definition is_event (o : obj) : bool := match o_comp o with CEvent => true | _ => false end.
Definition style_ok (k : qkind) (t : tag) : bool :=
  match k, t with
  | QAdr, TAdr => true
  | QAdr, _ => false
  | _, TCal => true
  | _, _ => false
  end.
Definition do_query (pol : policy) (s : store) (p : path) (k : qkind) (flt : option (obj -> bool)) : response :=
  if negb (check pol p lr NoItem) then (S403NA, PNone) else
  let item := resolve s p in
  match item with
  | NNothing => (S404, PNone)
  | _ =>
    if negb (check pol p lr (kind_of item)) then (S403NA, PNone) else
    let '(cp, c) := match item with
                    | NColl c => (p, c)
                    | NItem pc _ => (parent p, pc)
                    | NNothing => (p, mkColl TNone [] [])
                    end in
    match k with
    | QFreeBusy =>
        if negb (tag_eqb (c_tag c) TCal) then (S403Report, PNone) else
        match flt with
        | None => (S500, PNone)
        | Some sel => (S200, PBusy (filter (fun o => is_event o && sel o) (map snd (c_items c))))
        end
    | _ =>
        let untagged := tag_eqb (c_tag c) TNone in
        if (match k with QSync => true | _ => false end) && untagged then (S403Report, PNone) else
        let cands : list (name * obj) :=
          match k, item with
          | QSync, _ => c_items c
          | _, NItem _ o => [(last_name p, o)]
          | _, _ => if untagged then [] else c_items c
          end in
        let listing (l : list (name * obj)) := PListing (map (fun no => EItemE (cp ++ [fst no]) (snd no) false) l) in
        match flt with
        | None => (S207, listing cands)
        | Some sel =>
            if negb (style_ok k (c_tag c)) && negb (match cands with [] => true | _ => false end)
            then (S400, PNone)
            else (S207, listing (filter (fun no => sel (snd no)) cands))
        end
    end
  end.

(* ---- the gate's automatic home creation (app/__init__.py) and dispatch ---- *)
Definition ensure_home (pol : policy) (s : store) (user : option name) : store :=
  match user with
  | None => s
  | Some u =>
    match resolve s [u] with
    | NNothing => if has lW (pol [u]) then set_coll s [u] (mkColl TNone [] []) else s
    | _ => s
    end
  end.

Definition handle (cfg : config) (pol : policy) (user : option name) (s0 : store) (r : request) : store * response :=
  let s := ensure_home pol s0 user in
  match r with
  | RPut p ct b im inm => do_put cfg pol s p ct b im inm
  | RDelete p im => do_delete cfg pol s p im
  | RMove p dest_ok to ow => do_move pol s p (negb dest_ok) false to ow
  | RMkcol p x => do_mkcol pol s p x
  | RMkcalendar p x => do_mkcalendar pol s p x
  | RProppatch p x => do_proppatch pol s p x
  | RGet p => (s, do_get pol s p)
  | RPropfind p d => (s, do_propfind pol s p d)
  | RMultiget p cal hs => (s, do_multiget pol s p cal hs)
  | RQuery p k flt => (s, do_query pol s p k flt)
  end.

Fixpoint run_history (cfg : config) (pol : policy) (user : option name) (s : store) (rs : list request)
  : store * list response :=
  match rs with
  | [] => (s, [])
  | r :: rest =>
      let '(s', out) := handle cfg pol user s r in
      let '(s'', outs) := run_history cfg pol user s' rest in
      (s'', out :: outs)
  end.
