(* The storage operations of radicale/storage/multifilesystem as step programs (Lib/Prog.v over
   Model/Fs.v), transcribed line by line from base.py (_atomic_write, _makedirs_synced, _fsync,
   _sync_directory), upload.py, create_collection.py, delete.py, move.py, meta.py, cache.py, history.py,
   get.py, pathutils.py (rename_exchange) and the home creation of app/__init__.py, with
   [storage] _filesystem_fsync = True.  Checked against `strace -f -y` of the real server on every run
   (checks/C12.py, checks/C02.py).  No proofs here. *)
From Coq Require Import List NArith Bool.
Import ListNotations.
Require Import RV.Lib.Prog RV.Model.Fs.
Open Scope N_scope.

Definition P := prog step errno path (option node).
Definition machine_run := run step errno path (option node) fs apply look ls.
Definition machine_wp := wp step errno path (option node) fs apply look ls.

(* use_cache_subfolder_for_item / _for_history *)
Record layout := { l_item : bool; l_hist : bool }.

(* _get_collection_cache_subfolder(path, ".Radicale.cache", sub): str.replace of the root folder by the
   cache folder when the option for `sub` is set *)
Definition cache_dir (lay : layout) (sub : name) (c : path) : path :=
  let moved := match sub with CItem => l_item lay | CHist => l_hist lay | _ => false end in
  (if moved then match c with Root :: r => CRoot :: r | _ => c end else c) ++ [Cache; sub].

Fixpoint seqs (l : list P) : P := match l with [] => Ret | [p] => p | p :: r => Seq p (seqs r) end.

(* _fsync / _sync_directory: OSError -> RuntimeError *)
Definition fsyncF (q : path) : P := Try (FsyncF q) Ret (fun _ => Raise ERun).
Definition fsyncD (q : path) : P := Try (FsyncD q) Ret (fun _ => Raise ERun).

(* contextlib.suppress(PermissionError) *)
Definition suppress_perm (p : P) : P :=
  Catch p (fun e => match e with EOS EACCES => Ret | _ => Raise e end).

(* with TemporaryDirectory(prefix=".Radicale.tmp-", dir=d) as t: body *)
Definition with_tmp (d : path) (body : path -> P) : P :=
  Fresh (fun k => let t := d ++ [Tmp k] in Seq (Do (Mkdir t)) (Finally (body t) (Do (Rmtree t)))).

(* _atomic_write(d/x) with content c *)
Definition AW (d : path) (x : name) (c : N) : P :=
  Seq (with_tmp d (fun t =>
         seqs [Do (Create (t ++ [x])); Do (Write (t ++ [x]) c); fsyncF (t ++ [x]);
               Do (Rename (t ++ [x]) (d ++ [x]))]))
      (fsyncD d).

(* _makedirs_synced(p), recursion on the reversed path; [] is the storage folder (exists) *)
Fixpoint md_rev (rp : list name) : P :=
  match rp with
  | [] => Ret
  | x :: rest =>
      Read (rev rp) (fun n => match n with
                              | Some D => Ret
                              | _ => seqs [md_rev rest; Do (Mkdir (rev rp)); fsyncD (rev rest)]
                              end)
  end.
Definition MD (p : path) : P := md_rev (rev p).

(* content codes of derived files: item-cache entry for content v, history entry for etag of v / deleted *)
Definition cache_code (v : N) : N := v + 1.
Definition hist_code (ov : option N) : N := match ov with None => 1 | Some v => v + 2 end.

(* _store_item_cache *)
Definition store_cache (lay : layout) (c : path) (x : name) (v : N) : P :=
  let cd := cache_dir lay CItem c in Seq (MD cd) (suppress_perm (AW cd x (cache_code v))).

(* _clean_cache(folder d, names l, no age limit / ages decided by the caller) *)
Fixpoint clean_list (d : path) (l : list name) (modified : bool) : P :=
  match l with
  | [] => if modified then fsyncD d else Ret
  | x :: r => Try (Unlink (d ++ [x])) (clean_list d r true)
                  (fun e => match e with
                            | ENOENT | EACCES => clean_list d r modified
                            | _ => Raise (EOS e)
                            end)
  end.

Definition last_name (q : path) : name := List.last q (Other 0).

(* _clean_item_cache: entries of the cache folder without an item file of that name *)
Fixpoint stale_names (c : path) (qs : list path) (k : list name -> P) : P :=
  match qs with
  | [] => k []
  | q :: r => let x := last_name q in
              Read (c ++ [x]) (fun n =>
                match n with
                | Some (F _) => stale_names c r k
                | _ => if is_safe x then stale_names c r (fun l => k (x :: l)) else stale_names c r k
                end)
  end.
(* os.scandir of a cache folder that is missing (its creation just failed: c5ee502 goes on with the parsed
   content and still cleans) raises: the request ends with an error *)
Definition clean_item_cache (lay : layout) (c : path) : P :=
  let cd := cache_dir lay CItem c in
  Read cd (fun n => match n with
                    | Some D => Ls cd (fun qs => stale_names c qs (fun l => clean_list cd l false))
                    | _ => Raise (EOS ENOENT)
                    end).

(* _get for each name of xs (discover of an item, get_all, has_uid): a cache miss stores the entry and,
   once per collection object, cleans the item cache.  An OSError while the entry is stored is logged and
   the parsed content is used (radicale c5ee502); a failing fsync is a RuntimeError and ends the request. *)
Definition os_ignored (e : exn errno) : P := match e with EOS _ => Ret | _ => Raise e end.

Fixpoint get_many (lay : layout) (c : path) (xs : list name) (cleaned : bool) : P :=
  match xs with
  | [] => Ret
  | x :: r =>
      Read (c ++ [x]) (fun n =>
        match n with
        | Some (F v) =>
            Read (cache_dir lay CItem c ++ [x]) (fun cn =>
              match cn with
              | Some (F cv) =>
                  if N.eqb cv (cache_code v) then get_many lay c r cleaned
                  else seqs [Catch (store_cache lay c x v) os_ignored;
                             (if cleaned then Ret else clean_item_cache lay c); get_many lay c r true]
              | _ => seqs [Catch (store_cache lay c x v) os_ignored;
                           (if cleaned then Ret else clean_item_cache lay c); get_many lay c r true]
              end)
        | _ => get_many lay c r cleaned
        end)
  end.

(* discover(path) of the item a request targets: one _get.  An I/O error while the cache entry is stored is
   logged and the item is served from the parsed content (radicale c5ee502; before that fix _get returned
   None -- "skip broken item" -- and the handler took the item for absent). *)
Definition get_target (lay : layout) (c : path) (x : name) : P := get_many lay c [x] false.

(* _update_history_etag(href x, item with content ov) *)
Definition update_history (lay : layout) (c : path) (x : name) (ov : option N) : P :=
  let hd := cache_dir lay CHist c in
  Read (hd ++ [x]) (fun n =>
    let same := match n with
                | Some (F e) => N.eqb e (hist_code ov) || (N.eqb e 0 && negb (is_some ov))
                | _ => negb (is_some ov)
                end in
    if same then Ret else Seq (MD hd) (suppress_perm (AW hd x (hist_code ov)))).

(* _clean_history: exp = expired history entries of deleted items, in scandir order *)
Definition clean_history (lay : layout) (c : path) (exp : list name) : P :=
  clean_list (cache_dir lay CHist c) exp false.

(* Collection.upload(href h, item with content v) *)
Definition upload (lay : layout) (c : path) (h : name) (v : N) (exp : list name) : P :=
  seqs [Catch (AW c h v) (fun _ => Raise EVal);
        Catch (store_cache lay c h v) (fun _ => Raise EVal);
        update_history lay c h (Some v);
        clean_history lay c exp;
        get_many lay c [h] false].

(* Collection.delete(href h) *)
Definition delete_item (lay : layout) (c : path) (h : name) (exp : list name) : P :=
  let cd := cache_dir lay CItem c in
  Read (c ++ [h]) (fun n =>
    match n with
    | Some (F _) =>
        seqs [Do (Unlink (c ++ [h])); fsyncD c; update_history lay c h None; clean_history lay c exp;
              Read (cd ++ [h]) (fun cn => match cn with
                                          | Some (F _) => Seq (Do (Unlink (cd ++ [h]))) (fsyncD cd)
                                          | _ => Ret
                                          end)]
    | _ => Raise EVal
    end).

(* Collection.delete() *)
Definition delete_coll (c : path) : P :=
  Try (Rmdir c) (fsyncD (parent c))
      (fun _ => with_tmp (parent c) (fun t => Seq (Do (Rename c (t ++ [last_name c]))) (fsyncD (parent c)))).

(* Storage.move(item h of c with content v -> h' of c') *)
Definition move (lay : layout) (c : path) (h : name) (c' : path) (h' : name) (v : N)
           (exp exp' : list name) : P :=
  let same := path_eqb c c' in
  let cd := cache_dir lay CItem c in
  let cd' := cache_dir lay CItem c' in
  seqs [Catch (Do (Rename (c ++ [h]) (c' ++ [h']))) (fun _ => Raise EVal);
        fsyncD c';
        (if same then Ret else fsyncD c);
        MD cd';
        Try (Rename (cd ++ [h]) (cd' ++ [h']))
            (Seq (MD cd') (if path_eqb cd cd' then Ret else MD cd))
            (fun _ => Ret);
        update_history lay c' h' (Some v);
        update_history lay c h None;
        clean_history lay c' exp';
        (if same then Ret else clean_history lay c exp)].

(* Collection.set_meta: except OSError -> ValueError *)
Definition set_meta (c : path) (pv : N) : P :=
  Catch (AW c Props pv) (fun e => match e with EOS _ => Raise EVal | _ => Raise e end).

(* the fixed names used inside temp directories *)
Definition n_collection : name := Safe 0.     (* "collection" *)
Definition n_interim : name := Safe 1.        (* "interim" *)

(* _upload_all_nonatomic into the staging collection tc *)
Definition upload_one (tc cd : path) (it : name * N) : P :=
  let (h, v) := it in
  seqs [Do (Create (tc ++ [h]));
        Catch (Seq (Do (Write (tc ++ [h]) v)) (fsyncF (tc ++ [h]))) (fun _ => Raise EVal);
        Do (Create (cd ++ [h])); Do (Write (cd ++ [h]) (cache_code v)); fsyncF (cd ++ [h])].
Fixpoint upload_each (tc cd : path) (its : list (name * N)) : P :=
  match its with
  | [] => Ret
  | it :: r => Seq (upload_one tc cd it) (upload_each tc cd r)
  end.
Definition upload_all (lay : layout) (tc : path) (its : list (name * N)) : P :=
  let cd := cache_dir lay CItem tc in
  seqs [MD cd; upload_each tc cd its; fsyncD cd; fsyncD tc].

(* pathutils.rename_exchange: renameat2(RENAME_EXCHANGE) (Linux), or the three-rename fall-back *)
Definition exchange_fallback (tc p : path) : P :=
  with_tmp (parent tc) (fun t2 =>
    seqs [Do (Rename p (t2 ++ [n_interim])); Do (Rename tc p); Do (Rename (t2 ++ [n_interim]) tc)]).

(* Storage.create_collection(p, items, props) *)
Definition create_collection_gen (exch : path -> path -> P) (lay : layout) (p : path)
           (items : option (list (name * N))) (props : option N) : P :=
  match props with
  | None => MD p
  | Some pv =>
      Seq (MD (parent p))
          (Catch (with_tmp (parent p) (fun t =>
                    let tc := t ++ [n_collection] in
                    seqs [Do (Mkdir tc);
                          set_meta tc pv;
                          match items with Some its => upload_all lay tc its | None => Ret end;
                          Read p (fun n => match n with
                                           | Some _ => exch tc p
                                           | None => Do (Rename tc p)
                                           end);
                          fsyncD (parent p)]))
                 (fun _ => Raise EVal))
  end.
Definition create_collection := create_collection_gen (fun tc p => Do (Exchange tc p)).
Definition create_collection_fallback := create_collection_gen exchange_fallback.

(* ------------------------------------------------------------------ the units (one atomic change each) *)
Inductive unit_op :=
| UUpload (c : path) (h : name) (v : N) (exp : list name)
| UDeleteItem (c : path) (h : name) (exp : list name)
| UDeleteColl (c : path)
| UMove (c : path) (h : name) (c' : path) (h' : name) (v : N) (exp exp' : list name)
| USetMeta (c : path) (pv : N)
| UMkdir (p : path)                                        (* one level of _makedirs_synced *)
| UCreate (p : path) (items : option (list (name * N))) (pv : N).

Definition mkdir_synced (p : path) : P :=
  Read p (fun n => match n with Some D => Ret | _ => Seq (Do (Mkdir p)) (fsyncD (parent p)) end).

Definition unit_prog (lay : layout) (u : unit_op) : P :=
  match u with
  | UUpload c h v exp => upload lay c h v exp
  | UDeleteItem c h exp => delete_item lay c h exp
  | UDeleteColl c => delete_coll c
  | UMove c h c' h' v exp exp' => move lay c h c' h' v exp exp'
  | USetMeta c pv => set_meta c pv
  | UMkdir p => mkdir_synced p
  | UCreate p items pv => create_collection lay p items (Some pv)
  end.

(* ------------------------------------------------------------------ requests = reads with cache side effects + units *)
Inductive request :=
| RPutItem (c : path) (h : name) (v : N) (names : list name) (exp : list name)
| RDeleteItem (c : path) (h : name) (exp : list name)
| RDeleteColl (c : path) (names : list name)
| RMove (c : path) (h : name) (c' : path) (h' : name) (v : N) (names' : list name) (exp exp' : list name)
| RPropPatch (c : path) (pv : N)
| RMkcol (p : path)
| RMkcalendar (p : path) (pv : N)
| RPutColl (p : path) (its : list (name * N)) (pv : N) (names_after : list name)
| RHome (home : path) (predefined : list (name * N)).

Fixpoint predefined_prog (lay : layout) (home : path) (l : list (name * N)) : P :=
  match l with
  | [] => Ret
  | (x, pv) :: r =>
      Seq (Catch (create_collection lay (home ++ [x]) None (Some pv))
                 (fun e => match e with EVal => Ret | _ => Raise e end))
          (predefined_prog lay home r)
  end.

Definition request_prog (lay : layout) (r : request) : P :=
  match r with
  | RPutItem c h v names exp =>
      (* discover(path) -> _get(h); new item: has_uid -> get_all; upload *)
      Read (c ++ [h]) (fun n =>
        match n with
        | Some (F _) => Seq (get_target lay c h) (upload lay c h v exp)
        | _ => Seq (get_many lay c names false) (upload lay c h v exp)
        end)
  | RDeleteItem c h exp => Seq (get_target lay c h) (delete_item lay c h exp)
  | RDeleteColl c names =>
      (* item.etag -> get_all; get_all for the hook notifications; delete *)
      seqs [get_many lay c names false; get_many lay c names true; delete_coll c]
  | RMove c h c' h' v names' exp exp' =>
      seqs [get_target lay c h;
            Read (c' ++ [h']) (fun n =>
              match n with
              | Some (F _) => get_target lay c' h'      (* the destination item is loaded (Overwrite, UID check) *)
              | _ => if path_eqb c c' then Ret else get_many lay c' names' false
              end);
            move lay c h c' h' v exp exp']
  | RPropPatch c pv => set_meta c pv
  | RMkcol p => create_collection lay p None None
  | RMkcalendar p pv => create_collection lay p None (Some pv)
  | RPutColl p its pv names_after =>
      Seq (create_collection lay p (Some its) (Some pv)) (get_many lay p names_after false)
  | RHome home predefined =>
      Catch (Seq (create_collection lay home None None) (predefined_prog lay home predefined))
            (fun e => match e with EVal => Ret | _ => Raise e end)
  end.

(* ------------------------------------------------------------------ evaluation helpers for the correspondence *)
Definition init_fs (entries : list (path * node)) : fs :=
  {| look := fun q => match find (fun e => path_eqb (fst e) q) entries with Some e => Some (snd e) | None => None end;
     dom := map fst entries |}.

Definition dump (s : fs) : list (path * node) :=
  flat_map (fun q => match look s q with Some n => [(q, n)] | None => [] end) (dedup (dom s)).

Definition out_code (o : outcome errno) : N :=
  match o with ONorm => 0 | OExn (EOS _) => 1 | OExn ERun => 2 | OExn EVal => 3 | OKilled => 4 end.

(* run a request from the given entries under an oracle: (events, outcome code, final entries) *)
Definition run_request (lay : layout) (entries : list (path * node)) (o : oracle errno) (r : request)
  : list (step * bool) * N * list (path * node) :=
  let '(c, out) := machine_run o (request_prog lay r) (start (init_fs entries)) in
  (c_tr c, out_code out, dump (c_st c)).

(* executable check of the weak invariant on an explicit entry list (every entry's parent is a directory) *)
Definition inv_check (entries : list (path * node)) : bool :=
  match look (init_fs entries) [] with Some D => true | _ => false end &&
  forallb (fun e => match fst e with
                    | [] => true
                    | _ => match look (init_fs entries) (parent (fst e)) with Some D => true | _ => false end
                    end) entries.
