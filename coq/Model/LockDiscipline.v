(* C10 / C19 -- lock discipline of the request handlers.

   This file holds ONLY definitions (no proofs):
     * the event alphabet and the skeleton terms that translate/t_skeleton.py regenerates from
       radicale/app/*.py (Gen/Skeleton.v),
     * the big-step trace semantics [exec] of skeleton terms -- it is the model of Python's
       control flow (if / loops / try-except / with / return / inlined calls) and of
       storage/multifilesystem/lock.py's [acquire_lock] (hook after a normal exit of a "w" section),
     * a generic abstract interpreter [chk] over the product of the lock state with any finite
       event automaton,
     * the two automata used: [A10] (lock discipline) and [A19] (parse first),
     * the declarative statement [discipline] of the property on traces,
     * the table [sop_access] of what each storage API operation may touch (C10_storage_ops),
     * the model of the props / etag cache of a collection object (C10_meta_cache),
     * an executable matcher [accepts] used by the correspondence check (real event streams of the
       server must be paths of the regenerated skeleton).
   Proofs: Proofs/LockDisciplineProofs.v. *)
From Coq Require Import List NArith Bool.
Import ListNotations.

(* ------------------------------------------------------------------ alphabet *)
Inductive mode := R | W.

(* what a storage operation may do to the folder *)
Inductive access := ARead      (* reads collection data only *)
                  | ACache     (* reads data, may write below .Radicale.cache *)
                  | AWrite.    (* creates / changes / renames / deletes collection data *)

(* the storage API as the application layer uses it (radicale/storage/__init__.py) *)
Inductive sop := Discover | GetAll | GetMulti | GetFiltered | GetMeta | SetMeta | Tag | Etag | Sync
               | HasUid | Upload | Delete | Move | CreateCollection | Serialize | LastModified | Verify.

(* C10_storage_ops: which operations write what.  Tied to the implementation by the trace
   correspondence of checks/C10.py (system calls attributed to the API call in progress). *)
Definition sop_access (k : sop) : access :=
  match k with
  | SetMeta | Upload | Delete | Move | CreateCollection => AWrite
  | GetMeta | Tag | LastModified => ARead
  | Discover | GetAll | GetMulti | GetFiltered | Etag | Sync | HasUid | Serialize | Verify => ACache
  end.

Inductive status := StCode (n : N) | StAny.

Inductive event :=
| EParse                      (* request body read and parsed *)
| EParseFail                  (* reading / parsing the body raised *)
| EAcquire (m : mode)
| ERelease
| EHook                       (* the storage hook command is started *)
| EStorage (k : sop)
| EReturn (st : status)       (* a handler (or the gate) returns a response *)
| ERaise                      (* an exception starts to propagate *)
| ECatch.                     (* an except clause takes it *)

(* ------------------------------------------------------------------ skeleton terms *)
Inductive skel :=
| SSkip
| SParse
| SStorage (k : sop)
| SEnter (m : mode)           (* lock_stack.enter_context(self._storage.acquire_lock(m, ..)) *)
| SUnlock                     (* lock_stack.close() / unlock_storage_fn() *)
| SSeq (a b : skel)
| SAlt (a b : skel)           (* if / else, short-circuit operators: either branch *)
| SLoop (body : skel)         (* for / while / comprehension: zero or more rounds *)
| SWith (m : mode) (body : skel)   (* with self._storage.acquire_lock(m, ..): body *)
| SStack (body : skel)        (* with contextlib.ExitStack() as lock_stack: body *)
| STry (body handlers : skel) (* try: body  except ..: handlers (an SAlt of the clauses) *)
| SReturn (st : option status)     (* Some: return of a do_* handler / the gate; None: return of an inlined helper *)
| SRaise
| SBreak
| SContinue
| SCall (body : skel).        (* inlined call: a return inside ends the call only *)

Inductive outcome := ONormal | OReturn | ORaise | OBreak | OContinue.

(* lock.py: the hook is started after `yield` returned normally, inside `with self._lock.acquire(mode)`,
   for the modes listed by the regenerated Gen.Skeleton.hook_modes; the model takes the worst case
   "a hook command is configured". *)
Definition hook_mode (m : mode) : bool := match m with W => true | R => false end.

Definition release_events (normal : bool) (m : mode) : list event :=
  (if normal && hook_mode m then [EHook] else []) ++ [ERelease].

Definition is_raise (o : outcome) : bool := match o with ORaise => true | _ => false end.

(* what leaving a `with acquire_lock` / ExitStack block emits, given the lock the thread still holds *)
Definition exit_events (o : outcome) (h : option mode) : list event :=
  match h with Some m => release_events (negb (is_raise o)) m | None => [] end.

(* exec s h t o h' : from "this request holds h", s can emit t, ending with outcome o and holding h'.
   The state is one optional lock: the model is faithful for non-nested locking only, and every
   checker below rejects a term that can acquire while holding. *)
Inductive exec : skel -> option mode -> list event -> outcome -> option mode -> Prop :=
| x_raise_any : forall s h, exec s h [ERaise] ORaise h      (* any statement may raise before doing anything *)
| x_skip : forall h, exec SSkip h [] ONormal h
| x_parse : forall h, exec SParse h [EParse] ONormal h
| x_parse_fail : forall h, exec SParse h [EParseFail; ERaise] ORaise h
| x_storage : forall k h, exec (SStorage k) h [EStorage k] ONormal h
| x_storage_raise : forall k h, exec (SStorage k) h [EStorage k; ERaise] ORaise h
| x_enter : forall m h, exec (SEnter m) h [EAcquire m] ONormal (Some m)
| x_unlock : forall h, exec SUnlock h (exit_events ONormal h) ONormal None
| x_seq_n : forall a b h t1 h1 t2 o h2,
    exec a h t1 ONormal h1 -> exec b h1 t2 o h2 -> exec (SSeq a b) h (t1 ++ t2) o h2
| x_seq_x : forall a b h t o h1, exec a h t o h1 -> o <> ONormal -> exec (SSeq a b) h t o h1
| x_alt_l : forall a b h t o h1, exec a h t o h1 -> exec (SAlt a b) h t o h1
| x_alt_r : forall a b h t o h1, exec b h t o h1 -> exec (SAlt a b) h t o h1
| x_loop_0 : forall b h, exec (SLoop b) h [] ONormal h
| x_loop_n : forall b h t1 o1 h1 t2 o h2,
    exec b h t1 o1 h1 -> (o1 = ONormal \/ o1 = OContinue) ->
    exec (SLoop b) h1 t2 o h2 -> exec (SLoop b) h (t1 ++ t2) o h2
| x_loop_break : forall b h t h1, exec b h t OBreak h1 -> exec (SLoop b) h t ONormal h1
| x_loop_x : forall b h t o h1, exec b h t o h1 -> (o = OReturn \/ o = ORaise) -> exec (SLoop b) h t o h1
| x_with : forall m b h t o h1,
    exec b (Some m) t o h1 -> exec (SWith m b) h (EAcquire m :: t ++ exit_events o h1) o None
| x_stack : forall b h t o h1,
    exec b h t o h1 -> exec (SStack b) h (t ++ exit_events o h1) o None
| x_try_ok : forall b hd h t o h1, exec b h t o h1 -> o <> ORaise -> exec (STry b hd) h t o h1
| x_try_pass : forall b hd h t h1, exec b h t ORaise h1 -> exec (STry b hd) h t ORaise h1
| x_try_catch : forall b hd h t h1 t2 o h2,
    exec b h t ORaise h1 -> exec hd h1 t2 o h2 -> exec (STry b hd) h (t ++ ECatch :: t2) o h2
| x_return_some : forall st h, exec (SReturn (Some st)) h [EReturn st] OReturn h
| x_return_none : forall h, exec (SReturn None) h [] OReturn h
| x_raise : forall h, exec SRaise h [ERaise] ORaise h
| x_break : forall h, exec SBreak h [] OBreak h
| x_continue : forall h, exec SContinue h [] OContinue h
| x_call_ret : forall b h t h1, exec b h t OReturn h1 -> exec (SCall b) h t ONormal h1
| x_call : forall b h t o h1, exec b h t o h1 -> o <> OReturn -> exec (SCall b) h t o h1.

(* the traces of a whole request: it starts holding nothing *)
Definition trace_of (s : skel) (t : list event) : Prop := exists o h, exec s None t o h.

(* ------------------------------------------------------------------ equality tests *)
Definition mode_eqb (a b : mode) : bool := match a, b with R, R | W, W => true | _, _ => false end.
Definition omode_eqb (a b : option mode) : bool :=
  match a, b with None, None => true | Some x, Some y => mode_eqb x y | _, _ => false end.
Definition outcome_eqb (a b : outcome) : bool :=
  match a, b with ONormal, ONormal | OReturn, OReturn | ORaise, ORaise | OBreak, OBreak | OContinue, OContinue => true
  | _, _ => false end.

(* ------------------------------------------------------------------ generic abstract interpreter *)
Section Checker.
  Variable Q : Type.
  Variable qeqb : Q -> Q -> bool.
  Variable qstep : Q -> event -> option Q.

  Fixpoint steps (q : Q) (t : list event) : option Q :=
    match t with [] => Some q | e :: r => match qstep q e with Some q' => steps q' r | None => None end end.

  Definition ast := (option mode * Q)%type.
  Definition res := list (outcome * ast).

  Definition ast_eqb (a b : ast) : bool := omode_eqb (fst a) (fst b) && qeqb (snd a) (snd b).
  Definition item_eqb (a b : outcome * ast) : bool := outcome_eqb (fst a) (fst b) && ast_eqb (snd a) (snd b).

  Definition add (x : outcome * ast) (l : res) : res := if existsb (item_eqb x) l then l else x :: l.
  Definition union (a b : res) : res := fold_right add b a.

  (* emit a concrete little trace from an abstract state *)
  Definition emit (st : ast) (t : list event) (h' : option mode) : option ast :=
    match steps (snd st) t with Some q' => Some (h', q') | None => None end.

  Definition ounion (a b : option res) : option res :=
    match a, b with Some x, Some y => Some (union x y) | _, _ => None end.

  (* run [f] from every state of [r] whose outcome satisfies [sel]; keep the others *)
  Fixpoint bind (sel : outcome -> bool) (f : outcome -> ast -> option res) (r : res) : option res :=
    match r with
    | [] => Some []
    | (o, st) :: r' =>
        ounion (if sel o then f o st else Some [(o, st)]) (bind sel f r')
    end.

  Definition one (o : outcome) (x : option ast) : option res :=
    match x with Some st => Some [(o, st)] | None => None end.

  Definition is_normal (o : outcome) : bool := match o with ONormal => true | _ => false end.
  Definition any_outcome (o : outcome) : bool := true.

  Definition leave (o : outcome) (st : ast) : option res := one o (emit st (exit_events o (fst st)) None).

  Definition loop_back (st : ast) (x : outcome * ast) : bool :=
    match fst x with ONormal | OContinue => ast_eqb (snd x) st | _ => true end.
  Definition loop_out (x : outcome * ast) : res :=
    match fst x with
    | ONormal | OContinue => []
    | OBreak => [(ONormal, snd x)]
    | o => [(o, snd x)]
    end.

  Fixpoint chk (s : skel) (st : ast) {struct s} : option res :=
    ounion (one ORaise (emit st [ERaise] (fst st)))
    match s with
    | SSkip => Some [(ONormal, st)]
    | SParse => ounion (one ONormal (emit st [EParse] (fst st))) (one ORaise (emit st [EParseFail; ERaise] (fst st)))
    | SStorage k => ounion (one ONormal (emit st [EStorage k] (fst st)))
                           (one ORaise (emit st [EStorage k; ERaise] (fst st)))
    | SEnter m => one ONormal (emit st [EAcquire m] (Some m))
    | SUnlock => one ONormal (emit st (exit_events ONormal (fst st)) None)
    | SSeq a b => match chk a st with Some ra => bind is_normal (fun _ => chk b) ra | None => None end
    | SAlt a b => ounion (chk a st) (chk b st)
    | SLoop b =>
        match chk b st with
        | Some rb => if forallb (loop_back st) rb then Some (add (ONormal, st) (flat_map loop_out rb)) else None
        | None => None
        end
    | SWith m b =>
        match emit st [EAcquire m] (Some m) with
        | Some st1 => match chk b st1 with Some rb => bind any_outcome leave rb | None => None end
        | None => None
        end
    | SStack b => match chk b st with Some rb => bind any_outcome leave rb | None => None end
    | STry b hd =>
        match chk b st with
        | Some rb => bind is_raise (fun _ st1 => match emit st1 [ECatch] (fst st1) with
                                                  | Some st2 => ounion (Some [(ORaise, st1)]) (chk hd st2)
                                                  | None => None end) rb
        | None => None
        end
    | SReturn (Some c) => one OReturn (emit st [EReturn c] (fst st))
    | SReturn None => Some [(OReturn, st)]
    | SRaise => one ORaise (emit st [ERaise] (fst st))
    | SBreak => Some [(OBreak, st)]
    | SContinue => Some [(OContinue, st)]
    | SCall b => match chk b st with
                 | Some rb => Some (fold_right (fun x acc => add (match fst x with OReturn => ONormal | o => o end, snd x) acc) [] rb)
                 | None => None
                 end
    end.

  Definition check_from (q0 : Q) (s : skel) : bool :=
    match chk s (None, q0) with Some _ => true | None => false end.
End Checker.

Arguments steps {Q}. Arguments chk {Q}. Arguments check_from {Q}.

(* ------------------------------------------------------------------ automaton of C10 *)
(* held lock, exception pending, previous event was EHook *)
Definition q10 := (option mode * bool * bool)%type.
Definition q10_0 : q10 := (None, false, false).

Definition access_eqb (a b : access) : bool :=
  match a, b with ARead, ARead | ACache, ACache | AWrite, AWrite => true | _, _ => false end.

Definition sufficientb (h : option mode) (k : sop) : bool :=
  match h with
  | None => false
  | Some W => true
  | Some R => negb (access_eqb (sop_access k) AWrite)
  end.

Definition step10 (q : q10) (e : event) : option q10 :=
  let '(h, p, ah) := q in
  match e with
  | ERelease =>
      match h with
      | None => None
      | Some m => if hook_mode m && negb p && negb ah then None else Some (None, p, false)
      end
  | _ =>
      if ah then None else
      match e with
      | EAcquire m => match h with None => Some (Some m, p, false) | Some _ => None end
      | EHook => match h with Some W => if p then None else Some (h, p, true) | _ => None end
      | EStorage k => if sufficientb h k then Some (h, p, false) else None
      | ERaise => Some (h, true, false)
      | ECatch => Some (h, false, false)
      | _ => Some (h, p, false)
      end
  end.

Definition q10_eqb (a b : q10) : bool :=
  let '(h1, p1, a1) := a in let '(h2, p2, a2) := b in omode_eqb h1 h2 && Bool.eqb p1 p2 && Bool.eqb a1 a2.

Definition check_skel (s : skel) : bool := check_from q10_eqb step10 q10_0 s.

(* the discipline decided on one concrete trace (used on the real event streams) *)
Definition disciplineb (t : list event) : bool :=
  match steps step10 q10_0 t with Some (_, _, false) => true | _ => false end.

(* ------------------------------------------------------------------ declarative statement (C10) *)
Definition held_after (t : list event) : option mode :=
  fold_left (fun h e => match e with EAcquire m => Some m | ERelease => None | _ => h end) t None.
Definition pending_after (t : list event) : bool :=
  fold_left (fun p e => match e with ERaise => true | ECatch => false | _ => p end) t false.

Definition sufficient (h : option mode) (k : sop) : Prop :=
  match h with
  | None => False                         (* no storage access without the lock *)
  | Some W => True
  | Some R => sop_access k <> AWrite      (* under the shared lock: reads, and writes below the cache only *)
  end.

Definition event_ok (pre : list event) (e : event) (post : list event) : Prop :=
  match e with
  | EStorage k => sufficient (held_after pre) k
  | EAcquire _ => held_after pre = None
  | ERelease => exists m, held_after pre = Some m /\
                 (m = W -> pending_after pre = false -> exists pre', pre = pre' ++ [EHook])
                 (* a "w" section whose body ended normally runs the hook right before unlocking *)
  | EHook => held_after pre = Some W /\ pending_after pre = false /\ exists post', post = ERelease :: post'
                 (* the hook runs only under the exclusive lock, after a normal end, and the unlock follows *)
  | _ => True
  end.

Definition discipline (t : list event) : Prop :=
  forall pre e post, t = pre ++ e :: post -> event_ok pre e post.

(* ------------------------------------------------------------------ automaton of C19 (parse first) *)
Inductive q19 := PNot | PDone | PFailed.
Definition q19_eqb (a b : q19) : bool :=
  match a, b with PNot, PNot | PDone, PDone | PFailed, PFailed => true | _, _ => false end.
Definition step19 (q : q19) (e : event) : option q19 :=
  match e with
  | EParse => match q with PNot => Some PDone | _ => None end          (* the body is read once *)
  | EParseFail => match q with PNot => Some PFailed | _ => None end
  | EAcquire _ | EStorage _ | EHook => match q with PDone => Some q | _ => None end
  | _ => Some q
  end.
Definition check_parse_first (s : skel) : bool := check_from q19_eqb step19 PNot s.

Definition is_lock_or_storage (e : event) : Prop :=
  match e with EAcquire _ | EStorage _ | EHook => True | _ => False end.
Definition parse_first (t : list event) : Prop :=
  forall pre e post, t = pre ++ e :: post -> is_lock_or_storage e -> In EParse pre /\ ~ In EParseFail pre.

(* ------------------------------------------------------------------ C10_meta_cache *)
(* `locked` as the collection object sees it: RwLock.locked of the PROCESS, not of the thread *)
Inductive lockview := LNone | LRead | LWrite.
(* get_meta / etag: re-read the folder iff the condition below; the condition itself is
   regenerated from meta.py / multifilesystem/__init__.py as Gen.Skeleton.meta_reread / etag_reread *)
Definition reread (locked_is_w cache_is_none : bool) : bool := locked_is_w || cache_is_none.
Definition view_is_w (v : lockview) : bool := match v with LWrite => true | _ => false end.
(* a collection object: has the props file been loaded into _meta_cache? *)
Definition get_meta_reads (v : lockview) (cached : bool) : bool := reread (view_is_w v) (negb cached).

(* ------------------------------------------------------------------ matcher for the correspondence *)
(* Control projection: the real server's event stream of one request (Parse, ParseFail, Acquire, Release,
   Hook, Return) must be a path of the skeleton with EStorage / ERaise / ECatch erased, and every storage
   operation observed while holding h must occur in the skeleton.  [accepts] explores the skeleton
   against the stream; results are (outcome, held, rest of the stream). *)
Definition ctl_eqb (a b : event) : bool :=
  match a, b with
  | EParse, EParse | EParseFail, EParseFail | ERelease, ERelease | EHook, EHook => true
  | EAcquire x, EAcquire y => mode_eqb x y
  | EReturn (StCode x), EReturn (StCode y) => N.eqb x y
  | EReturn _, EReturn _ => true      (* StAny on either side *)
  | _, _ => false
  end.

Definition is_ctl (e : event) : bool :=
  match e with EStorage _ | ERaise | ECatch => false | _ => true end.

Fixpoint eat (want got : list event) : option (list event) :=
  match want with
  | [] => Some got
  | w :: want' => if is_ctl w then
                    match got with g :: got' => if ctl_eqb w g then eat want' got' else None | [] => None end
                  else eat want' got
  end.

(* A result: outcome, lock held, status of a pending handler return, rest of the stream.
   The observable `Return status` of the real server is logged when the handler function has RETURNED, i.e.
   after the exits of the enclosing `with` blocks; the matcher therefore keeps the status of an SReturn
   pending and consumes it where the function boundary is crossed (SCall, or the end of the request). *)
Definition mitem := (outcome * option mode * option status * list event)%type.
Definition mres := list mitem.

Definition status_eqb (a b : status) : bool :=
  match a, b with StCode x, StCode y => N.eqb x y | StAny, StAny => true | _, _ => false end.
Definition ostatus_eqb (a b : option status) : bool :=
  match a, b with None, None => true | Some x, Some y => status_eqb x y | _, _ => false end.

(* results are kept duplicate-free; the rest of the stream is always a suffix of the same stream,
   so two rests of equal length are equal *)
Definition m_same (a b : mitem) : bool :=
  let '(o1, h1, p1, r1) := a in let '(o2, h2, p2, r2) := b in
  outcome_eqb o1 o2 && omode_eqb h1 h2 && ostatus_eqb p1 p2 && Nat.eqb (length r1) (length r2).
Definition m_add (x : mitem) (l : mres) : mres := if existsb (m_same x) l then l else x :: l.
Definition m_union (a b : mres) : mres := fold_right m_add b a.
Definition m_bind (f : mitem -> mres) (l : mres) : mres := fold_right (fun x acc => m_union (f x) acc) [] l.

Definition m_emit (o : outcome) (h' : option mode) (p : option status) (want rest : list event) : mres :=
  match eat want rest with Some r => [(o, h', p, r)] | None => [] end.

Definition m_leave (x : mitem) : mres := let '(o, h1, p, r1) := x in m_emit o None p (exit_events o h1) r1.

Fixpoint m_loop (body : option mode -> list event -> mres) (fuel : nat) (h : option mode) (rest : list event) : mres :=
  m_add (ONormal, h, None, rest)
  match fuel with
  | O => []
  | S f =>
      m_bind (fun x => let '(o, h1, p, r1) := x in
                       match o with
                       | ONormal | OContinue => if Nat.ltb (length r1) (length rest) then m_loop body f h1 r1 else []
                       | OBreak => [(ONormal, h1, None, r1)]
                       | _ => [x]
                       end) (body h rest)
  end.

Fixpoint mtch (s : skel) (h : option mode) (rest : list event) {struct s} : mres :=
  m_add (ORaise, h, None, rest)
  match s with
  | SSkip => [(ONormal, h, None, rest)]
  | SParse => m_union (m_emit ONormal h None [EParse] rest) (m_emit ORaise h None [EParseFail] rest)
  | SStorage _ => [(ONormal, h, None, rest)]
  | SEnter m => m_emit ONormal (Some m) None [EAcquire m] rest
  | SUnlock => m_emit ONormal None None (exit_events ONormal h) rest
  | SSeq a b => m_bind (fun x => let '(o, h1, _, r1) := x in
                                 match o with ONormal => mtch b h1 r1 | _ => [x] end) (mtch a h rest)
  | SAlt a b => m_union (mtch a h rest) (mtch b h rest)
  | SLoop b => m_loop (mtch b) (S (length rest)) h rest
  | SWith m b =>
      match eat [EAcquire m] rest with
      | Some r0 => m_bind m_leave (mtch b (Some m) r0)
      | None => []
      end
  | SStack b => m_bind m_leave (mtch b h rest)
  | STry b hd => m_bind (fun x => let '(o, h1, _, r1) := x in
                                  match o with ORaise => m_add x (mtch hd h1 r1) | _ => [x] end) (mtch b h rest)
  | SReturn c => [(OReturn, h, c, rest)]
  | SRaise => []
  | SBreak => [(OBreak, h, None, rest)]
  | SContinue => [(OContinue, h, None, rest)]
  | SCall b => m_bind (fun x => let '(o, h1, p, r1) := x in
                                match o, p with
                                | OReturn, Some c => m_emit ONormal h1 None [EReturn c] r1
                                | OReturn, None => [(ONormal, h1, None, r1)]
                                | _, _ => [x]
                                end) (mtch b h rest)
  end.

Definition accepts (s : skel) (t : list event) : bool :=
  existsb (fun x => let '(o, _, p, r) := x in
                    match o, p with
                    | OReturn, Some c => match eat [EReturn c] r with Some [] => true | _ => false end
                    | _, _ => match r with [] => true | _ => false end
                    end)
          (mtch s None (filter is_ctl t)).

(* storage operations that occur in a term, with the lock they are syntactically under
   (None = outside every lock block; after an SUnlock everything counts as None) *)
Fixpoint ops_under (s : skel) (h : option mode) : list (option mode * sop) * bool (* unlocked inside *) :=
  match s with
  | SStorage k => ([(h, k)], false)
  | SUnlock => ([], true)
  | SEnter m => ([], false)
  | SSeq a b => let '(la, ua) := ops_under a h in
                let '(lb, ub) := ops_under b (if ua then None else match a with SEnter m => Some m | _ => h end) in
                (la ++ lb, ua || ub)
  | SAlt a b | STry a b => let '(la, ua) := ops_under a h in let '(lb, ub) := ops_under b h in (la ++ lb, ua || ub)
  | SLoop b | SCall b | SStack b => ops_under b h
  | SWith m b => (fst (ops_under b (Some m)), false)
  | _ => ([], false)
  end.

Definition sop_eqb (a b : sop) : bool :=
  match a, b with
  | Discover, Discover | GetAll, GetAll | GetMulti, GetMulti | GetFiltered, GetFiltered | GetMeta, GetMeta
  | SetMeta, SetMeta | Tag, Tag | Etag, Etag | Sync, Sync | HasUid, HasUid | Upload, Upload | Delete, Delete
  | Move, Move | CreateCollection, CreateCollection | Serialize, Serialize | LastModified, LastModified
  | Verify, Verify => true
  | _, _ => false
  end.

(* the storage operations of an observed stream, each with the lock held when it was called *)
Fixpoint obs_ops (h : option mode) (t : list event) : list (option mode * sop) :=
  match t with
  | [] => []
  | EAcquire m :: r => obs_ops (Some m) r
  | ERelease :: r => obs_ops None r
  | EStorage k :: r => (h, k) :: obs_ops h r
  | _ :: r => obs_ops h r
  end.

Definition ops_included (s : skel) (t : list event) : bool :=
  let syn := fst (ops_under s None) in
  forallb (fun x => existsb (fun y => omode_eqb (fst x) (fst y) && sop_eqb (snd x) (snd y)) syn) (obs_ops None t).

(* correspondence verdict for one observed request stream against its skeleton:
   (the stream satisfies the discipline, it is a path of the skeleton, its storage calls occur in the skeleton) *)
Definition corr (s : skel) (t : list event) : bool * bool * bool :=
  (disciplineb t, accepts s t, ops_included s t).
