(* L0: the ideal in-memory DAV store of C01 (DESIGN section 3 "Store spec").
   A store is an association list from collection paths (lists of safe names, [] = root) to
   collections; an item lives in the collection that holds it.  No proofs here. *)
From Coq Require Import List NArith Bool.
Import ListNotations.
Open Scope N_scope.

Definition name := N.
Definition path := list name.

Inductive tag := TNone | TCal | TAdr.
Inductive comp := CEvent | CTodo | CJournal | CCard.

(* A stored object: one calendar component or one card.  (uid, component kind, content id)
   determine the serialised text, hence the ETag (hash modelled as injective: trusted base). *)
Record obj := mkObj { o_uid : N; o_comp : comp; o_cid : N }.

Record coll := mkColl { c_tag : tag; c_props : list (N * N); c_items : list (name * obj) }.

Definition store := list (path * coll).

Definition tag_eqb (a b : tag) : bool :=
  match a, b with TNone, TNone | TCal, TCal | TAdr, TAdr => true | _, _ => false end.
Definition comp_eqb (a b : comp) : bool :=
  match a, b with CEvent, CEvent | CTodo, CTodo | CJournal, CJournal | CCard, CCard => true | _, _ => false end.
Definition obj_eqb (a b : obj) : bool :=
  N.eqb (o_uid a) (o_uid b) && comp_eqb (o_comp a) (o_comp b) && N.eqb (o_cid a) (o_cid b).

Fixpoint path_eqb (a b : path) : bool :=
  match a, b with
  | [], [] => true
  | x :: a', y :: b' => N.eqb x y && path_eqb a' b'
  | _, _ => false
  end.

Fixpoint is_prefix (a b : path) : bool :=           (* a is a prefix of b (not nec. strict) *)
  match a, b with
  | [], _ => true
  | x :: a', y :: b' => N.eqb x y && is_prefix a' b'
  | _ :: _, [] => false
  end.

Definition parent (p : path) : path := removelast p.
Definition is_root (p : path) : bool := match p with [] => true | _ => false end.

Fixpoint lookup (s : store) (p : path) : option coll :=
  match s with
  | [] => None
  | (q, c) :: r => if path_eqb q p then Some c else lookup r p
  end.

Fixpoint assoc {A} (l : list (N * A)) (k : N) : option A :=
  match l with
  | [] => None
  | (k', v) :: r => if N.eqb k' k then Some v else assoc r k
  end.

Fixpoint assoc_set {A} (l : list (N * A)) (k : N) (v : A) : list (N * A) :=
  match l with
  | [] => [(k, v)]
  | (k', v') :: r => if N.eqb k' k then (k, v) :: r else (k', v') :: assoc_set r k v
  end.

Definition assoc_del {A} (l : list (N * A)) (k : N) : list (N * A) :=
  filter (fun kv => negb (N.eqb (fst kv) k)) l.

(* replace-or-insert a collection *)
Fixpoint set_coll (s : store) (p : path) (c : coll) : store :=
  match s with
  | [] => [(p, c)]
  | (q, c') :: r => if path_eqb q p then (p, c) :: r else (q, c') :: set_coll r p c
  end.

(* remove the collection at p together with everything below it *)
Definition del_subtree (s : store) (p : path) : store :=
  filter (fun qc => negb (is_prefix p (fst qc))) s.

(* what a path denotes *)
Inductive node := NColl (c : coll) | NItem (parent_coll : coll) (o : obj) | NNothing.

Definition last_name (p : path) : name := last p 0.

Definition resolve (s : store) (p : path) : node :=
  match lookup s p with
  | Some c => NColl c
  | None =>
      match p with
      | [] => NNothing
      | _ => match lookup s (parent p) with
             | Some pc => match assoc (c_items pc) (last_name p) with
                          | Some o => NItem pc o
                          | None => NNothing
                          end
             | None => NNothing
             end
      end
  end.

Definition has_uid (c : coll) (u : N) : bool :=
  existsb (fun no => N.eqb (o_uid (snd no)) u) (c_items c).

Definition empty_store : store := [([], mkColl TNone [] [])].

(* direct child collections of p *)
Definition child_colls (s : store) (p : path) : list (path * coll) :=
  filter (fun qc => match fst qc with [] => false | _ => path_eqb (parent (fst qc)) p end) s.
