(* C11 -- WHICH FILE is flock()ed by the storage lock of a multifilesystem instance, as a function of its [storage]
   configuration.  Definitions only.

   radicale/storage/multifilesystem/lock.py : StoragePartLock.__init__
       lock_path = os.path.join(self._filesystem_folder, ".Radicale.lock")
       self._lock = pathutils.RwLock(lock_path)
   where self._filesystem_folder = configuration.get("storage", "filesystem_folder") (config.filepath: absolute).

   Model/RwLockFile.v has ONE kernel lock (k_sh, k_ex) shared by all processes.  That is the model of a deployment
   (several instances = processes serving one filesystem_folder, each with its own configuration) only if every
   instance flock()s the same file.  Here the kernel's flock table is keyed by the lock path of the requesting instance
   (`compat_id`); Proofs/C11LockIdentProofs.v shows that for instances serving one folder the keyed table grants
   exactly what the single lock of RwLockFile.v grants, whatever the other options of the instances are -- and that a
   lock path that depends on filesystem_cache_folder does not have this property. *)
From Coq Require Import List NArith Bool String.
Import ListNotations.
Require Import RV.Lib.PyStr RV.Model.C11Base.
Open Scope string_scope.
Open Scope nat_scope.

(* the [storage] options an instance of the multifilesystem back-end reads (radicale/storage/multifilesystem/base.py) *)
Record sconf := SConf {
  sc_folder : pystr;        (* filesystem_folder *)
  sc_cache : pystr;         (* filesystem_cache_folder, [] = not configured *)
  sc_sub_item : bool;       (* use_cache_subfolder_for_item *)
  sc_sub_history : bool;    (* use_cache_subfolder_for_history *)
  sc_sub_sync : bool;       (* use_cache_subfolder_for_synctoken *)
  sc_mtime : bool;          (* use_mtime_and_size_for_item_cache *)
  sc_umask : pystr          (* folder_umask *)
}.

Definition lock_name : pystr := str ".Radicale.lock".

(* the path handed to pathutils.RwLock by StoragePartLock.__init__ *)
Definition lock_path (c : sconf) : pystr := posix_join (sc_folder c) lock_name.

(* what a "runtime files next to the cache" layout would flock: NOT what the code does; kept to show what breaks *)
Definition lock_path_by_cache (c : sconf) : pystr :=
  posix_join (if nonempty (sc_cache c) then sc_cache c else sc_folder c) lock_name.

(* a deployment: the configurations of the instances (processes), numbered like the processes of RwLockFile.v *)
Definition deployment := list sconf.
Definition sconf_def := SConf [] [] false false false false [].
Definition conf_of (d : deployment) (p : nat) : sconf := nth p d sconf_def.
Definition same_store (d : deployment) : Prop :=
  forall p q, p < List.length d -> q < List.length d -> sc_folder (conf_of d p) = sc_folder (conf_of d q).

(* kernel flock table keyed by file: entries (instance that holds, mode); the file of an entry is the lock path of
   its instance.  A request of instance p in mode m is granted iff no entry ON THE SAME FILE conflicts. *)
Definition modes_compat (a b : mode) : bool := match a, b with R, R => true | _, _ => false end.
Definition compat_id (lp : sconf -> pystr) (d : deployment) (m : mode) (p : nat) (held : list (nat * mode)) : bool :=
  forallb (fun e => negb (eqs (lp (conf_of d (fst e))) (lp (conf_of d p))) || modes_compat m (snd e)) held.

(* the single lock of RwLockFile.v (kcompat): counts of LOCK_SH / LOCK_EX holders over ALL instances *)
Definition is_mode (m : mode) (e : nat * mode) : bool := mode_eqb (snd e) m.
Definition compat_single (m : mode) (held : list (nat * mode)) : bool :=
  match m with
  | R => Nat.eqb (count (is_mode W) held) 0
  | W => Nat.eqb (count (is_mode W) held) 0 && Nat.eqb (count (is_mode R) held) 0
  end.

(* correspondence interface: (folder, cache, flags, umask) -> lock path *)
Definition lock_path_case (x : pystr * pystr * (bool * bool * bool * bool) * pystr) : pystr :=
  match x with
  | (f, c, (a, b, s, m), u) => lock_path (SConf f c a b s m u)
  end.

(* example deployment used by the witnesses: shared data folder, node-local cache folders *)
Definition ex_node (cache : string) (sub : bool) : sconf :=
  SConf (str "/srv/data") (str cache) sub false false false [].
Definition ex_deployment : deployment := [ex_node "/var/cache/a" true; ex_node "/var/cache/b" true; ex_node "" false].
Definition ex_lock_file : pystr := str "/srv/data/.Radicale.lock".
