(* C14 -- content lines (RFC 5545 3.1 / RFC 6350 3.2-3.3) as the third-party library `vobject` 0.9.x
   writes and reads them.  This file is a MODEL of vobject/base.py for the generator grammar
   (foldOneLine, defaultSerialize for a ContentLine, dquoteEscape, logical_lines_re / wrap_re,
   getLogicalLines(allowQP=True), line_re / params_re / param_values_re, ContentLine.__init__,
   backslashEscape, stringToTextValues).  It is tied to the real library only by the differential
   correspondence check (checks/C14.py), never by translation.  No proofs in this file. *)
From Coq Require Import List NArith Bool String.
Import ListNotations.
Require Import RV.Lib.PyStr.
Open Scope N_scope.

Definition CR : N := 13.   Definition LF : N := 10.    Definition SP : N := 32.   Definition TAB : N := 9.
Definition DQ : N := 34.   Definition COMMA : N := 44. Definition SEMI : N := 59. Definition COLON : N := 58.
Definition EQ : N := 61.   Definition BSL : N := 92.   Definition USC : N := 95.  Definition DASH : N := 45.

Definition is_wsp (c : N) : bool := (c =? SP) || (c =? TAB).
Definition is_brk (c : N) : bool := (c =? CR) || (c =? LF).

(* ------------------------------------------------------------------ content line *)
Record cl := mkCl { cl_group : option pystr; cl_name : pystr;
                    cl_params : list (pystr * list pystr); cl_value : pystr }.

(* ------------------------------------------------------------------ printing one logical line *)
(* dquoteEscape: quote when ',' ';' or ':' occurs (a DQUOTE inside raises in vobject: excluded by wf) *)
Definition needs_quote (p : pystr) : bool :=
  contains_char COMMA p || contains_char SEMI p || contains_char COLON p.
Definition dquote_escape (p : pystr) : pystr := if needs_quote p then DQ :: p ++ [DQ] else p.

Definition print_param (kv : pystr * list pystr) : pystr :=
  SEMI :: fst kv ++ EQ :: join [COMMA] (map dquote_escape (snd kv)).

(* sorted(obj.params.keys()): insertion sort by code-point order on the key *)
Fixpoint str_ltb (a b : pystr) : bool :=
  match a, b with
  | [], [] => false
  | [], _ :: _ => true
  | _ :: _, [] => false
  | x :: a', y :: b' => (x <? y) || ((x =? y) && str_ltb a' b')
  end.
Definition str_leb (a b : pystr) : bool := negb (str_ltb b a).

Fixpoint insert_param (kv : pystr * list pystr) (l : list (pystr * list pystr)) :=
  match l with
  | [] => [kv]
  | h :: t => if str_leb (fst h) (fst kv) then h :: insert_param kv t else kv :: l
  end.
Definition sort_params (l : list (pystr * list pystr)) := fold_right insert_param [] l.

Definition print_cl (l : cl) : pystr :=
  (match cl_group l with Some g => g ++ [dot] | None => [] end)
  ++ cl_name l ++ List.concat (map print_param (sort_params (cl_params l))) ++ COLON :: cl_value l.

(* ------------------------------------------------------------------ folding (foldOneLine) *)
Definition utf8_len (c : N) : N :=
  if c <? 128 then 1 else if c <? 2048 then 2 else if c <? 65536 then 3 else 4.

(* the while loop: `counter` counts the OCTETS already on the current physical line *)
Fixpoint fold_loop (s : pystr) (counter : N) : pystr :=
  match s with
  | [] => []
  | c :: r =>
      let size := utf8_len c in
      if 75 <? counter + size
      then CR :: LF :: SP :: c :: fold_loop r (1 + size)
      else c :: fold_loop r (counter + size)
  end.

(* `if len(input) < lineLength` counts CHARACTERS: a line of fewer than 75 characters is never folded,
   however many octets it has. *)
Definition fold_line (s : pystr) : pystr :=
  (if N.of_nat (List.length s) <? 75 then s else fold_loop s 0) ++ [CR; LF].

Definition print_lines (ls : list cl) : pystr := List.concat (map (fun l => fold_line (print_cl l)) ls).

(* ------------------------------------------------------------------ unfolding, allowQP=False
   (vobject.readOne as used by Item.vobject_item: logical_lines_re + wrap_re.subn) *)
(* acc = current logical line reversed.  A line break is CRLF, CR or LF; followed by SPACE/TAB it is a
   fold and all three characters disappear; otherwise it ends the logical line.  Empty lines are dropped. *)
Definition emit (acc : pystr) (rest : list pystr) : list pystr :=
  match acc with [] => rest | _ => rev acc :: rest end.

Fixpoint unfold_std_aux (acc : pystr) (t : pystr) : list pystr :=
  match t with
  | [] => emit acc []
  | c :: r =>
      if c =? CR then
        match r with
        | d :: r' =>
            if d =? LF then
              match r' with
              | e :: r'' => if is_wsp e then unfold_std_aux acc r'' else emit acc (unfold_std_aux [] r')
              | [] => emit acc []
              end
            else if is_wsp d then unfold_std_aux acc r' else emit acc (unfold_std_aux [] r)
        | [] => emit acc []
        end
      else if c =? LF then
        match r with
        | d :: r' => if is_wsp d then unfold_std_aux acc r' else emit acc (unfold_std_aux [] r)
        | [] => emit acc []
        end
      else unfold_std_aux (c :: acc) r
  end.
Definition unfold_std (t : pystr) : list pystr := unfold_std_aux [] t.

(* ------------------------------------------------------------------ unfolding, allowQP=True
   (radicale.item.read_components -> vobject.readComponents(s, allowQP=True): readline based) *)
(* physical lines as io.StringIO.readline yields them with universal-newline translation OFF
   (StringIO(newline="\n") default for str input: only LF ends a line), then line.rstrip("\r\n"). *)
Fixpoint readlines_aux (acc : pystr) (t : pystr) : list pystr :=
  match t with
  | [] => match acc with [] => [] | _ => [rev acc] end
  | c :: r => if c =? LF then rev (c :: acc) :: readlines_aux [] r else readlines_aux (c :: acc) r
  end.
Definition readlines (t : pystr) : list pystr := readlines_aux [] t.

Fixpoint lstrip_brk (s : pystr) : pystr :=
  match s with c :: r => if is_brk c then lstrip_brk r else s | [] => [] end.
Definition rstrip_brk (s : pystr) : pystr := rev (lstrip_brk (rev s)).

(* str.rstrip() / str.isspace() for the characters that can occur: TAB LF VT FF CR, FS GS RS US, SPACE,
   NEL, NBSP and the Unicode space separators *)
Definition is_pyspace (c : N) : bool :=
  ((9 <=? c) && (c <=? 13)) || ((28 <=? c) && (c <=? 32)) || (c =? 133) || (c =? 160) || (c =? 5760)
  || ((8192 <=? c) && (c <=? 8202)) || (c =? 8232) || (c =? 8233) || (c =? 8239) || (c =? 8287) || (c =? 12288).
Definition all_space (s : pystr) : bool := forallb is_pyspace s.

Definition lower_c' (c : N) : N := if (65 <=? c) && (c <=? 90) then c + 32 else c.
Definition qp_word : pystr := str "quoted-printable".
Definition ends_with_eq (s : pystr) : bool := match rev s with c :: _ => c =? EQ | [] => false end.
Definition qp_pending (logical : pystr) : bool :=
  ends_with_eq logical && contains_sub qp_word (map lower_c' logical).

(* state: logical line so far (None = buffer empty), quotedPrintable flag *)
Fixpoint unfold_qp_aux (cur : pystr) (qp : bool) (lines : list pystr) : list pystr :=
  match lines with
  | [] => match cur with [] => [] | _ => [cur] end
  | raw :: rest =>
      let line := rstrip_brk raw in
      if all_space line then
        (* blank (or whitespace-only!) physical line: flush *)
        match cur with
        | [] => unfold_qp_aux [] false rest
        | _ => cur :: unfold_qp_aux [] false rest
        end
      else if qp then
        let cur' := cur ++ LF :: line in
        unfold_qp_aux cur' (qp_pending cur') rest
      else
        match line with
        | c :: tl =>
            if is_wsp c then
              let cur' := cur ++ tl in
              (* `val[-1]` on an empty buffer would raise IndexError; cur' is non-empty here unless cur = [] and tl = [],
                 which all_space excludes *)
              unfold_qp_aux cur' (qp_pending cur') rest
            else
              match cur with
              | [] => unfold_qp_aux line (qp_pending line) rest
              | _ => cur :: unfold_qp_aux line (qp_pending line) rest
              end
        | [] => unfold_qp_aux cur qp rest   (* unreachable: all_space [] = true *)
        end
  end.
Definition unfold_qp (t : pystr) : list pystr := unfold_qp_aux [] false (readlines t).

(* ------------------------------------------------------------------ parsing one logical line
   (line_re, parseParams, ContentLine.__init__) for lines of the shape
       [group "."] name *(";" pname ["=" pvalue *("," pvalue)]) ":" value                              *)
Definition is_name_char (c : N) : bool :=
  ((48 <=? c) && (c <=? 57)) || ((65 <=? c) && (c <=? 90)) || ((97 <=? c) && (c <=? 122)) || (c =? DASH) || (c =? USC).

Fixpoint span (p : N -> bool) (s : pystr) : pystr * pystr :=
  match s with
  | c :: r => if p c then let '(a, b) := span p r in (c :: a, b) else ([], s)
  | [] => ([], [])
  end.

Definition upper_name (s : pystr) : pystr := map upper_c s.
Definition dash_name (s : pystr) : pystr := map (fun c => if c =? USC then DASH else c) s.

Definition is_safe_char (c : N) : bool := negb ((c =? DQ) || (c =? SEMI) || (c =? COLON) || (c =? COMMA)).
Definition is_qsafe_char (c : N) : bool := negb (c =? DQ).

(* one parameter value at the head of s: quoted (true, text) or a possibly empty run of safe characters (false, text) *)
Definition parse_pvalue (s : pystr) : option (bool * pystr * pystr) :=
  match s with
  | c :: r => if c =? DQ then
                let '(v, r') := span is_qsafe_char r in
                match r' with _ :: r'' => Some (true, v, r'') | [] => None end
              else let '(v, r') := span is_safe_char s in Some (false, v, r')
  | [] => Some (false, [], [])
  end.

(* the values after '=': v1 *("," v)  -- fuel = length of the input.
   `param_values_re.findall` never yields an empty UNQUOTED value: those vanish; a quoted "" stays. *)
Fixpoint parse_pvalues (fuel : nat) (s : pystr) : option (list pystr * pystr) :=
  match fuel with
  | O => None
  | S f =>
      match parse_pvalue s with
      | None => None
      | Some (q, v, r) =>
          let keep := fun vs => if q || nonempty v then v :: vs else vs in
          match r with
          | c :: r' => if c =? COMMA then
                         match parse_pvalues f r' with
                         | Some (vs, r'') => Some (keep vs, r'')
                         | None => None
                         end
                       else Some (keep [], r)
          | [] => Some (keep [], r)
          end
      end
  end.

(* a parameter left without values is a vCard-2.1 "singleton" which vobject keeps aside and never serialises:
   it disappears. *)
Definition raw_param := (pystr * list pystr)%type.

Fixpoint parse_params (fuel : nat) (s : pystr) : option (list raw_param * pystr) :=
  match fuel with
  | O => None
  | S f =>
      match s with
      | c :: r =>
          if c =? SEMI then
            let '(pn, r1) := span is_name_char r in
            if negb (nonempty pn) then None else
            match r1 with
            | d :: r2 =>
                if d =? EQ then
                  match parse_pvalues (S (List.length r2)) r2 with
                  | Some (vs, r3) =>
                      match parse_params f r3 with
                      | Some (ps, r4) => Some ((pn, vs) :: ps, r4)
                      | None => None
                      end
                  | None => None
                  end
                else
                  (* a name without '=' (vCard 2.1 singleton); line_re lets ", value" groups follow it, parseParams ignores them *)
                  let r1' := if d =? COMMA then
                               match parse_pvalues (S (List.length r2)) r2 with Some (_, r3) => Some r3 | None => None end
                             else Some r1 in
                  match r1' with
                  | Some r1'' =>
                      match parse_params f r1'' with
                      | Some (ps, r4) => Some ((pn, []) :: ps, r4)
                      | None => None
                      end
                  | None => None
                  end
            | [] => None
            end
          else if c =? COLON then Some ([], r) else None
      | [] => None
      end
  end.

(* ContentLine.__init__: keys upper-cased, values of equal keys appended in order of appearance;
   quoted values keep their text, unquoted empty values vanish (findall), parameters without any value
   are singletons (dropped on output) *)
Fixpoint add_param (k : pystr) (vs : list pystr) (l : list (pystr * list pystr)) :=
  match l with
  | [] => [(k, vs)]
  | (k', vs') :: t => if eqs k k' then (k', vs' ++ vs) :: t else (k', vs') :: add_param k vs t
  end.

Definition merge_params (raw : list raw_param) : list (pystr * list pystr) :=
  fold_left (fun acc p => match snd p with [] => acc | vs => add_param (upper_name (fst p)) vs acc end) raw [].

Definition has_qp (ps : list (pystr * list pystr)) : bool :=
  existsb (fun kv => eqs (fst kv) (str "ENCODING") && mem_str (str "QUOTED-PRINTABLE") (snd kv)) ps.

Definition parse_cl (s : pystr) : option cl :=
  let '(n1, r1) := span is_name_char s in
  if negb (nonempty n1) then None else
  let '(grp, nm, r) :=
    match r1 with
    | c :: r2 => if c =? dot then
                   let '(n2, r3) := span is_name_char r2 in
                   if nonempty n2 then (Some n1, n2, r3) else (None, n1, r1)
                 else (None, n1, r1)
    | [] => (None, n1, r1)
    end in
  (* line_re: `;?` before the parameters tolerates one extra semicolon (before a parameter or before the colon) *)
  let r := match r with c :: (d :: _) as r' => if (c =? SEMI) && ((d =? SEMI) || (d =? COLON)) then r' else r | _ => r end in
  match parse_params (S (List.length r)) r with
  | Some (raw, v) =>
      let ps := merge_params raw in
      if has_qp ps then None     (* quoted-printable (vCard 2.1) is outside the model *)
      else Some (mkCl grp (upper_name (dash_name nm)) ps v)
  | None => None
  end.

Fixpoint map_opt {A B} (f : A -> option B) (l : list A) : option (list B) :=
  match l with
  | [] => Some []
  | x :: r => match f x, map_opt f r with Some y, Some ys => Some (y :: ys) | _, _ => None end
  end.

Definition parse_lines (t : pystr) : option (list cl) := map_opt parse_cl (unfold_std t).
Definition parse_lines_qp (t : pystr) : option (list cl) := map_opt parse_cl (unfold_qp t).

(* ------------------------------------------------------------------ TEXT values *)
(* backslashEscape *)
Fixpoint backslash_escape (s : pystr) : pystr :=
  match s with
  | [] => []
  | c :: r =>
      if c =? BSL then BSL :: BSL :: backslash_escape r
      else if c =? SEMI then BSL :: SEMI :: backslash_escape r
      else if c =? COMMA then BSL :: COMMA :: backslash_escape r
      else if c =? CR then
        match r with
        | d :: r' => if d =? LF then BSL :: 110 :: backslash_escape r' else BSL :: 110 :: backslash_escape r
        | [] => [BSL; 110]
        end
      else if c =? LF then BSL :: 110 :: backslash_escape r
      else c :: backslash_escape r
  end.

(* stringToTextValues(s, listSeparator): the state machine.  escapableCharList = backslash ; , N n DQUOTE *)
Definition escapable (c : N) : bool :=
  (c =? BSL) || (c =? SEMI) || (c =? COMMA) || (c =? 78) || (c =? 110) || (c =? DQ).

(* cur = current value reversed, res = finished values reversed, esc = "read escaped char" *)
Fixpoint text_values_aux (sep : N) (s : pystr) (esc : bool) (cur : pystr) (res : list pystr) : list pystr :=
  match s with
  | [] =>
      (* eof.  In the escaped state vobject appends "\" ++ "eof" (the literal word); excluded by callers
         via `text_wf`; modelled as a dangling backslash followed by the three letters. *)
      let cur := if esc then rev (str "eof") ++ BSL :: cur else cur in
      if nonempty cur || negb (nonempty res) then rev (rev cur :: res) else rev res
  | c :: r =>
      if esc then
        if escapable c then
          text_values_aux sep r false ((if (c =? 78) || (c =? 110) then LF else c) :: cur) res
        else text_values_aux sep r false (c :: BSL :: cur) res
      else if c =? BSL then text_values_aux sep r true cur res
      else if c =? sep then text_values_aux sep r false [] (rev cur :: res)
      else text_values_aux sep r false (c :: cur) res
  end.
Definition text_values (sep : N) (s : pystr) : list pystr := text_values_aux sep s false [] [].

(* TextBehavior.decode keeps only the FIRST value: an unescaped comma truncates the text *)
Definition text_decode (s : pystr) : pystr := match text_values COMMA s with v :: _ => v | [] => [] end.
Definition text_encode (s : pystr) : pystr := backslash_escape s.
(* what parse-then-serialise does to the raw value of a property handled by TextBehavior *)
Definition text_canon (raw : pystr) : pystr := text_encode (text_decode raw).

(* MultiTextBehavior (CATEGORIES, RESOURCES: ","; REQUEST-STATUS: ";") *)
Definition multitext_canon (sep : N) (raw : pystr) : pystr :=
  join [sep] (map backslash_escape (text_values sep raw)).
