(* C14 -- specification-side definitions (well-formedness predicates used in the theorem statements).
   No proofs in this file. *)
From Coq Require Import List NArith Bool String Sorted.
Import ListNotations.
Require Import RV.Lib.PyStr RV.Model.ContentLine RV.Model.Vobj.
Open Scope N_scope.

Definition no_brk (s : pystr) : Prop := Forall (fun c => is_brk c = false) s.
Definition all_name_chars (s : pystr) : Prop := Forall (fun c => is_name_char c = true) s.

(* a parameter value vobject can write and read back: non-empty, no DQUOTE, no line break *)
Definition wf_pvalue (v : pystr) : Prop := v <> [] /\ contains_char DQ v = false /\ no_brk v.

(* a parameter as ContentLine.params holds it: upper-case name, at least one value *)
Definition wf_param (kv : pystr * list pystr) : Prop :=
  fst kv <> [] /\ all_name_chars (fst kv) /\ upper_name (fst kv) = fst kv /\ snd kv <> [] /\ Forall wf_pvalue (snd kv).

(* a content line in the form vobject holds after parsing: upper-case name without '_', parameters with
   distinct names in the order it prints them (sorted), no line break anywhere, not quoted-printable *)
Definition wf_cl (l : cl) : Prop :=
  match cl_group l with Some g => g <> [] /\ all_name_chars g | None => True end /\
  cl_name l <> [] /\ all_name_chars (cl_name l) /\ upper_name (dash_name (cl_name l)) = cl_name l /\
  Forall wf_param (cl_params l) /\
  StronglySorted (fun a b => str_ltb (fst a) (fst b) = true) (cl_params l) /\
  has_qp (cl_params l) = false /\
  no_brk (cl_value l).

(* the physical lines of a serialised text, without their CRLF *)
Definition phys_lines (t : pystr) : list pystr := map rstrip_brk (readlines t).

(* known class C14:fold-ws: a physical line that is not empty and consists of white space only *)
Definition ws_only_line (p : pystr) : bool := nonempty p && all_space p.
Definition no_ws_only_lines (t : pystr) : Prop := Forall (fun p => ws_only_line p = false) (phys_lines t).
(* vCard 2.1 soft line breaks: a logical line that mentions quoted-printable *)
Definition mentions_qp (s : pystr) : bool := contains_sub qp_word (map lower_c' s).

(* TEXT values: decoded text without a bare CR (backslashEscape writes CR, LF and CRLF alike as \n) *)
Definition no_cr (s : pystr) : Prop := Forall (fun c => (c =? CR) = false) s.
