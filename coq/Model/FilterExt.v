(* C16 extension -- RDATE and rescheduled instances (override components carrying RECURRENCE-ID) of a VEVENT,
   as radicale/item/filter.py `visit_time_ranges` treats them (get_children / getrruleset / the VEVENT branch),
   with the visitors of `time_range_match` and `find_time_range` of Model/Filter.v.
   UTC DATE-TIME values only: for DATE values the pinned code never removes an overridden instance
   (`dtstart not in ignore` compares the datetime from the recurrence set with a date), which is a different
   behaviour and is not modelled here.
   dateutil's rruleset iteration (NOT Radicale code) is modelled as the ascending, duplicate-free merge of the
   arithmetic progression of the rule with the RDATE list (+ DTSTART, vobject's addRDate=True), minus EXDATE;
   tied by the correspondence check only.
   No proofs in this file. *)
From Coq Require Import ZArith List Bool.
Import ListNotations.
Require Import RV.Model.Rfc4791 RV.Model.Filter.
Open Scope Z_scope.

(* an override component: RECURRENCE-ID, DTSTART, DTEND (all UTC DATE-TIME) *)
Record xover := { ov_rid : Z; ov_start : Z; ov_end : Z }.

(* the object: one master VEVENT (UTC DATE-TIME) + override components in document order *)
Record xevent := { xe_start : Z; xe_end : ending; xe_rule : option rrule;
                   xe_rdate : list Z; xe_ex : list Z; xe_over : list xover }.

(* the master / an override as a vevent of the base grammar (only ev_kind, ev_start, ev_end are read by vevent_calls) *)
Definition xe_master (o : xevent) : vevent :=
  {| ev_kind := KDateTime; ev_start := xe_start o; ev_end := xe_end o; ev_rec := None |}.
Definition over_ev (v : xover) : vevent :=
  {| ev_kind := KDateTime; ev_start := ov_start v; ev_end := EDtend (ov_end v); ev_rec := None |}.

(* get_children: `recurrences` = the RECURRENCE-ID values *)
Definition xe_rids (o : xevent) : list Z := map ov_rid (xe_over o).

(* ------------------------------------------------------------------ child.getrruleset(addRDate=True)
   vobject: the rule; the RDATE values; and, when there is an RDATE line whose first value is not DTSTART,
   DTSTART itself.  dateutil iterates the union in ascending order without duplicates. *)
Fixpoint insert (x : Z) (l : list Z) : list Z :=
  match l with
  | [] => [x]
  | y :: r => if x <? y then x :: l else if x =? y then l else y :: insert x r
  end.
Definition sort_dedup (l : list Z) : list Z := fold_right insert [] l.

Definition xe_extras (o : xevent) : list Z :=
  match xe_rdate o with [] => [] | _ => sort_dedup (xe_start o :: xe_rdate o) end.

(* state of the iteration: next candidate index of the rule, remaining dates of the RDATE list *)
Definition xstate := (Z * list Z)%type.

Definition rule_cand (s0 : Z) (rule : option rrule) (k : Z) : option Z :=
  match rule with
  | Some rr => if in_bound (r_bound rr) s0 (r_period rr) k then Some (s0 + k * r_period rr) else None
  | None => None
  end.

(* one step of the merged iteration: the smallest remaining date, and the state after it *)
Definition xnext (s0 : Z) (rule : option rrule) (st : xstate) : option (Z * xstate) :=
  let '(k, xs) := st in
  match rule_cand s0 rule k, xs with
  | None, [] => None
  | None, x :: xs' => Some (x, (k, xs'))
  | Some d, [] => Some (d, (k + 1, []))
  | Some d, x :: xs' =>
      if x <? d then Some (x, (k, xs'))
      else if x =? d then Some (d, (k + 1, xs'))
      else Some (d, (k + 1, xs))
  end.

(* removed from the iteration: EXDATE (inside dateutil) and `dtstart not in ignore` (Radicale's filter lambda) *)
Definition xskip (o : xevent) (d : Z) : bool := mem d (xe_ex o) || mem d (xe_rids o).

Section XVisit.
  Context {St : Type}.
  Variable range_fn : call -> St -> St * bool.
  Variable infinity_fn : Z -> St -> St * bool.

  (* `for dtstart in dtstarts:` over the filtered recurrence set; None = out of fuel *)
  Fixpoint xvisit_set (fuel : nat) (o : xevent) (s : xstate) (st : St) : option (St * bool) :=
    match fuel with
    | O => None
    | S f =>
        match xnext (xe_start o) (xe_rule o) s with
        | None => Some (st, false)
        | Some (d, s') =>
            if xskip o d then xvisit_set f o s' st
            else let '(st', stop) := run_calls range_fn (vevent_calls (xe_master o) false d) st in
                 if stop then Some (st', true) else xvisit_set f o s' st'
        end
    end.

  (* getrruleset, infinite branch: the first date of the recurrence set that is not in `ignore`;
     Some None = the set is exhausted without one *)
  Fixpoint xfirst (fuel : nat) (o : xevent) (s : xstate) : option (option Z) :=
    match fuel with
    | O => None
    | S f =>
        match xnext (xe_start o) (xe_rule o) s with
        | None => Some None
        | Some (d, s') => if xskip o d then xfirst f o s' else Some (Some d)
        end
    end.

  Definition xe_infinite (o : xevent) : bool :=
    match xe_rule o with Some rr => match r_bound rr with RForever => true | _ => false end | None => false end.

  (* `if child.rruleset:` -- vobject builds a rruleset as soon as there is an RRULE, RDATE or EXDATE line *)
  Definition xe_has_set (o : xevent) : bool :=
    match xe_rule o, xe_rdate o, xe_ex o with None, [], [] => false | _, _, _ => true end.

  (* the master component (yielded LAST by get_children, is_recurrence = False, recurrences = all RECURRENCE-IDs) *)
  Definition xvisit_master (fuel : nat) (o : xevent) (st : St) : option (St * bool) :=
    if xe_has_set o then
      let s := (0, xe_extras o) in
      if xe_infinite o then
        match xfirst fuel o s with
        | Some (Some d0) =>
            let '(st', stop) := infinity_fn d0 st in
            if stop then Some (st', true) else xvisit_set fuel o s st'
        | Some None => xvisit_set fuel o s st
        | None => None
        end
      else xvisit_set fuel o s st
    else Some (run_calls range_fn (vevent_calls (xe_master o) false (xe_start o)) st)   (* dtstarts = (dtstart,) *)
  .

  (* an override component: no rruleset, dtstarts = (dtstart,), has DTEND: Line 1 with is_recurrence = True *)
  Definition over_calls (v : xover) : list call := vevent_calls (over_ev v) true (ov_start v).

  (* visit_time_ranges(vobject_item, "VEVENT", range_fn, infinity_fn): the override components first (document
     order), then the master; `return` at the first True *)
  Definition xvisit (fuel : nat) (o : xevent) (st : St) : option (St * bool) :=
    let '(st1, stop) := run_calls range_fn (flat_map over_calls (xe_over o)) st in
    if stop then Some (st1, true) else xvisit_master fuel o st1.
End XVisit.

(* ------------------------------------------------------------------ the three users *)
Definition xtime_range_match (fuel : nat) (o : xevent) (r : trange) : option bool :=
  if negb (tr_bounded r) then Some false
  else option_map fst (xvisit (match_fn (tr_start r) (tr_end r)) no_infinity fuel o false).

Definition xfind_time_range (fuel : nat) (o : xevent) : option (xt * xt) :=
  match xvisit hull_fn hull_inf fuel o (None, None) with
  | Some ((start, end_), _) =>
      Some (match start with Some s => s | None => MInf end, match end_ with Some e => e | None => PInf end)
  | None => None
  end.

(* a recording range_fn that never cancels (the visitor of the correspondence check) *)
Definition rec_all (c : call) (st : list call) : list call * bool := (st ++ [c], false).
(* ... and one that cancels after `limit` calls (unbounded rules) *)
Definition rec_lim (limit : nat) (c : call) (st : list call) : list call * bool := (st ++ [c], Nat.leb limit (S (length st))).
Definition xrecord (limit fuel : nat) (o : xevent) : option (list call) :=
  option_map fst (xvisit (rec_lim limit) no_infinity fuel o []).

(* ------------------------------------------------------------------ fuel
   number of steps of the merged iteration that suffices (Proofs/C16Ext.v: *_total): every RDATE and every rule candidate
   of a bounded rule, + 1; for an unbounded rule see xinf_fuel *)
Definition xrule_len (o : xevent) : Z :=
  match xe_rule o with
  | Some rr => match r_bound rr with
               | RCount n => Z.max 0 n
               | RUntil u => Z.max 0 ((u - xe_start o) / r_period rr + 1)
               | RForever => 0
               end
  | None => 0
  end.
Definition xe_period (o : xevent) : Z := match xe_rule o with Some rr => r_period rr | None => 1 end.
(* no removed date (EXDATE, RECURRENCE-ID) lies beyond this *)
Definition xskip_bound (o : xevent) (b : Z) : Z := ex_bound (ex_bound b (xe_ex o)) (xe_rids o).
(* unbounded rule: every RDATE, the rule candidates up to the first one beyond b and beyond every removed date, + 2 *)
Definition xinf_fuel (o : xevent) (b : Z) : nat :=
  S (S (length (xe_extras o) + Z.to_nat ((xskip_bound o b - xe_start o) / xe_period o + 1))).
Definition xhull_fuel (o : xevent) : nat :=
  if xe_infinite o then xinf_fuel o (xe_start o)
  else S (length (xe_extras o) + Z.to_nat (xrule_len o)).
Definition xmatch_fuel (o : xevent) (r : trange) : nat :=
  if xe_infinite o then xinf_fuel o (range_bound r) else xhull_fuel o.
