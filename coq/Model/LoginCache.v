(* C17 -- executable model of radicale/auth/__init__.py :: BaseAuth.login (the login cache).

   NO proofs in this file.  The function is modelled line by line, including
   - both dictionaries (`_cache_successful`: login -> (digest, time_ns[, user]);
     `_cache_failed`: login ":" digest -> (time_ns, login)) as insertion-ordered association
     lists with Python `dict` semantics (update keeps the position, insert appends, `d[k]` /
     `del d[k]` raise KeyError when the key is absent);
   - the expiry sweep with its loop variables scoped as in Python: the two `for` loops rebind the
     function-level names `digest`, `time_ns_cache`, `login_cache`, `age_failed` and (in the code
     as pinned) `login`; they are carried in the record `locals`;
   - the failed look-up, the successful look-up with the salted digest, the back-end call and the
     cache updates;
   - the clock in integer nanoseconds (Z); `int((a - b) / 1000 / 1000 / 1000)` is truncation
     towards zero (`Z.quot`), validated against CPython's float arithmetic for |a-b| < 10^16 ns;
   - digests are symbolic but keep the code's key FORMAT: a digest is a free constructor over (salt, login ++ password)
     -- the hash covers the concatenation only -- and the failed-cache key is (login prefix, digest);
   - "raised KeyError" is an explicit value of the result type.

   The pinned code has three defects (see notes/C17.md).  The record `variant` selects, at exactly
   the three places the fix patches touch, between the line as pinned (`false`) and the repaired
   line (`true`):
     fix1  sweep, second loop:  `(login, age_failed) = cache_failed_cleanup[digest]`
                             -> `(login_cache, age_failed) = cache_failed_cleanup[digest]`
     fix2  failed look-up:      `self._cache_failed[digest]` -> `self._cache_failed[digest_failed]`
     fix3  successful look-up:  `result = login` -> the user the back-end returned when the entry
                                was stored (`_cache_successful[login] = (digest, time_ns, result)`)
   `Vorig` is the code as pinned, `Vfix` the code after notes/fixes/C17-*.patch.  The theorems of
   Props/C17.v are about `Vfix`; the `_refuted` ones exhibit the witnesses on `Vorig`. *)
From Coq Require Import List ZArith NArith Bool.
Import ListNotations.
Require Import RV.Lib.PyStr.
Open Scope Z_scope.

(* ---------------------------------------------------------------- values *)

(* The Python variable `digest` holds "" , a digest str(sha3_512(salt ++ login ++ password).digest()), or
   (inside/after the sweep loops) a key of `_cache_failed`, i.e. login ++ ":" ++ digest. *)
Inductive dval :=
| DEmpty
| DHash (salt : Z) (cat : pystr)                 (* str(sha3_512(salt ++ cat).digest()) *)
| DKey (kl : pystr) (salt : Z) (cat : pystr).     (* kl ++ ":" ++ str(sha3_512(salt ++ cat).digest()) *)

Definition dval_eqb (a b : dval) : bool :=
  match a, b with
  | DEmpty, DEmpty => true
  | DHash s c, DHash s' c' => Z.eqb s s' && eqs c c'
  | DKey k s c, DKey k' s' c' => eqs k k' && Z.eqb s s' && eqs c c'
  | _, _ => false
  end.

(* self._cache_digest(login, password, str(salt)): h.update(salt); h.update(login); h.update(password) hashes the
   CONCATENATION, so the digest determines salt and login ++ password, not login and password separately
   ("ab","c" and "a","bc" have the same digest).  (That str(salt) has a fixed width, 19 digits, is an assumption.) *)
Definition cache_digest (login pw : pystr) (salt : Z) : dval := DHash salt (login ++ pw).
(* digest_failed = login + ":" + self._cache_digest(login, password, str(salt0)): the readable login prefix is what
   makes the key determine (login, password) -- Proofs/LoginCacheDict.v, failed_key_inj. *)
Definition failed_key (salt : Z) (login pw : pystr) : dval := DKey login salt (login ++ pw).

Inductive exn := KeyError | BackendError | OtherError.   (* BackendError: whatever self._login raised, propagated *)
(* OtherError: never produced by the model; lets the harness state "some other exception" *)
Inductive res (A : Type) := Ok (a : A) | Err (e : exn).
Arguments Ok {A} a.
Arguments Err {A} e.

(* ---------------------------------------------------------------- Python dict *)
Section Dict.
  Context {K V : Type} (keqb : K -> K -> bool).
  Fixpoint dget (d : list (K * V)) (k : K) : option V :=
    match d with
    | [] => None
    | (k', v) :: r => if keqb k' k then Some v else dget r k
    end.
  Fixpoint dset (d : list (K * V)) (k : K) (v : V) : list (K * V) :=
    match d with
    | [] => [(k, v)]
    | (k', v') :: r => if keqb k' k then (k', v) :: r else (k', v') :: dset r k v
    end.
  Fixpoint ddel (d : list (K * V)) (k : K) : list (K * V) :=
    match d with
    | [] => []
    | (k', v') :: r => if keqb k' k then r else (k', v') :: ddel r k
    end.
End Dict.

Definition sentry := (dval * Z * pystr)%type.      (* (digest, time_ns, user) *)
Definition fentry := (Z * pystr)%type.              (* (time_ns, login) *)
Definition sdict := list (pystr * sentry).          (* _cache_successful *)
Definition fdict := list (dval * fentry).           (* _cache_failed *)
Definition cdict := list (dval * (pystr * Z)).      (* cache_failed_cleanup: key -> (login_cache, age_failed) *)
Record cache := mkCache { succ : sdict; failed : fdict }.
Definition empty_cache : cache := mkCache [] [].

Record config := mkConfig {
  c_lc : bool;        (* [auth] lc_username *)
  c_uc : bool;        (* [auth] uc_username *)
  c_strip : bool;     (* [auth] strip_domain *)
  c_cache : bool;     (* self._cache_logins after __init__ (cache_logins and type in CACHE_LOGIN_TYPES) *)
  c_exp_s : Z;        (* cache_successful_logins_expiry, seconds *)
  c_exp_f : Z;        (* cache_failed_logins_expiry, seconds *)
  c_salt : Z          (* _cache_failed_logins_salt_ns = time.time_ns() at start-up *)
}.

Record variant := mkVariant { fix1 : bool; fix2 : bool; fix3 : bool }.
Definition Vorig : variant := mkVariant false false false.
Definition Vfix : variant := mkVariant true true true.

(* function-level names rebound by the sweep loops *)
Record locals := mkLocals {
  v_login : pystr;
  v_digest : dval;
  v_login_cache : pystr;      (* unbound until the first loop runs; every read is dominated by an assignment *)
  v_time_ns_cache : Z;        (* idem *)
  v_age_failed : Z            (* idem *)
}.

Inductive outcome := ORet (user : pystr) (cached : bool) | ORaise (e : exn).
Record lresult := mkResult {
  r_cache : cache;       (* the cache afterwards (also after a raise: what had been changed stays changed) *)
  r_out : outcome;       (* (user, "<type> / cached" or "<type>") or the exception *)
  r_called : bool        (* whether self._login was called *)
}.

(* ---------------------------------------------------------------- pieces *)

(* int((time_ns - time_ns_cache) / 1000 / 1000 / 1000) *)
Definition age_s (now t : Z) : Z := Z.quot (now - t) 1000000000.

(* lines 218-223 of login: lower / upper / strip domain (ASCII case mapping) *)
Definition map_login (cfg : config) (l : pystr) : pystr :=
  let l := if c_lc cfg then lower_ascii l else l in
  let l := if c_uc cfg then upper_ascii l else l in
  if c_strip cfg then fst (split1 64%N l) else l.

(* for digest in self._cache_failed:
       (time_ns_cache, login_cache) = self._cache_failed[digest]
       age_failed = int((time_ns - time_ns_cache) / 1000 / 1000 / 1000)
       if age_failed > self._cache_failed_logins_expiry:
           cache_failed_cleanup[digest] = (login_cache, age_failed) *)
Fixpoint sweep_loop1 (fd : fdict) (exp_f now : Z) (keys : list dval) (lo : locals) (cl : cdict)
  : res (locals * cdict) :=
  match keys with
  | [] => Ok (lo, cl)
  | k :: keys' =>
      match dget dval_eqb fd k with
      | None => Err KeyError
      | Some (t, lc) =>
          let a := age_s now t in
          let lo' := mkLocals (v_login lo) k lc t a in
          sweep_loop1 fd exp_f now keys' lo' (if a >? exp_f then dset dval_eqb cl k (lc, a) else cl)
      end
  end.

(* for digest in cache_failed_cleanup:
       (login, age_failed) = cache_failed_cleanup[digest]        <- pinned code (fix1 = false)
       (login_cache, age_failed) = cache_failed_cleanup[digest]  <- repaired  (fix1 = true)
       del self._cache_failed[digest] *)
Fixpoint sweep_loop2 (v : variant) (cl : cdict) (keys : list dval) (lo : locals) (fd : fdict)
  : res (locals * fdict) :=
  match keys with
  | [] => Ok (lo, fd)
  | k :: keys' =>
      match dget dval_eqb cl k with
      | None => Err KeyError
      | Some (l', a) =>
          let lo' := if fix1 v
                     then mkLocals (v_login lo) k l' (v_time_ns_cache lo) a
                     else mkLocals l' k (v_login_cache lo) (v_time_ns_cache lo) a in
          match dget dval_eqb fd k with
          | None => Err KeyError
          | Some _ => sweep_loop2 v cl keys' lo' (ddel dval_eqb fd k)
          end
      end
  end.

(* lines 229-248 *)
Definition sweep (v : variant) (exp_f now : Z) (fd : fdict) (lo : locals) : res (locals * fdict) :=
  match fd with
  | [] => Ok (lo, fd)                                  (* cache_failed_entries > 0 is false *)
  | _ :: _ =>
      match sweep_loop1 fd exp_f now (map fst fd) lo [] with
      | Err e => Err e
      | Ok (lo1, cl) =>
          match cl with
          | [] => Ok (lo1, fd)                         (* cache_failed_cleanup_entries > 0 is false *)
          | _ :: _ => sweep_loop2 v cl (map fst cl) lo1 fd
          end
      end
  end.

Definition is_dempty (d : dval) : bool := match d with DEmpty => true | _ => false end.

(* lines 278-308: `if result == "":` ... with the values of `digest`, `result`, `result_from_cache`
   reached by the successful look-up *)
Definition backend_part (cfg : config) (bk : pystr -> pystr -> pystr) (now : Z)
           (sd : sdict) (fd : fdict) (login pw : pystr) (digest_failed digest : dval)
           (result : pystr) (from_cache : bool) : lresult :=
  if nonempty result then mkResult (mkCache sd fd) (ORet result from_cache) false
  else
    let result := bk login pw in
    if nonempty result then
      let digest := if is_dempty digest then cache_digest login pw now else digest in
      let sd := dset eqs sd login (digest, now, result) in
      let fd := match dget dval_eqb fd digest_failed with
                | Some _ => ddel dval_eqb fd digest_failed
                | None => fd
                end in
      mkResult (mkCache sd fd) (ORet result from_cache) true
    else
      mkResult (mkCache sd (dset dval_eqb fd digest_failed (now, login))) (ORet [] from_cache) true.

(* lines 249-308, after the sweep; `login` and `digest` are the function-level names as the sweep left them *)
Definition after_sweep (v : variant) (cfg : config) (bk : pystr -> pystr -> pystr) (now : Z)
           (sd : sdict) (fd : fdict) (login : pystr) (digest : dval) (pw : pystr) : lresult :=
  let digest_failed := failed_key (c_salt cfg) login pw in
  match dget dval_eqb fd digest_failed with
  | Some _ =>
      (* (time_ns_cache, login_cache) = self._cache_failed[digest]   /  [digest_failed] after the fix *)
      match dget dval_eqb fd (if fix2 v then digest_failed else digest) with
      | None => mkResult (mkCache sd fd) (ORaise KeyError) false
      | Some _ => mkResult (mkCache sd fd) (ORet [] true) false
      end
  | None =>
      match dget eqs sd login with
      | Some (digest_cache, time_ns_cache, user_cache) =>
          let digest := cache_digest login pw time_ns_cache in
          if dval_eqb digest digest_cache then
            if age_s now time_ns_cache >? c_exp_s cfg then
              backend_part cfg bk now (ddel eqs sd login) fd login pw digest_failed DEmpty [] false
            else
              backend_part cfg bk now sd fd login pw digest_failed digest
                           (if fix3 v then user_cache else login) true
          else
            backend_part cfg bk now sd fd login pw digest_failed digest [] false
      | None =>
          backend_part cfg bk now sd fd login pw digest_failed (cache_digest login pw now) [] false
      end
  end.

(* BaseAuth.login(login, password) at clock value `now`, back-end answer function `bk` *)
Definition login_body (v : variant) (cfg : config) (bk : pystr -> pystr -> pystr) (now : Z)
           (c : cache) (login0 pw : pystr) : lresult :=
  let login := map_login cfg login0 in
  if negb (c_cache cfg) then mkResult c (ORet (bk login pw) false) true
  else
    match sweep v (c_exp_f cfg) now (failed c) (mkLocals login DEmpty [] 0 0) with
    | Err e => mkResult c (ORaise e) false          (* unreachable: Proofs/LoginCacheSweep.v, sweep_total *)
    | Ok (lo, fd) => after_sweep v cfg bk now (succ c) fd (v_login lo) (v_digest lo) pw
    end.

(* A login during which the back-end RAISES (connection error, htpasswd file missing for a moment, ...): `login` has no
   try/except around `self._login`, the exception propagates and nothing is recorded -- neither as a success nor as a
   rejection.  Everything before the call has happened (housekeeping, deletion of an expired successful entry).
   Defined through the run with a back-end that rejects: if the back-end was reached, drop the failed entry that run
   appended (it is the last one: the key was absent, else the failed look-up would have answered) and raise. *)
Definition login_body_fault (v : variant) (cfg : config) (now : Z) (c : cache) (login0 pw : pystr) : lresult :=
  let r := login_body v cfg (fun _ _ => []) now c login0 pw in
  if r_called r then
    mkResult (if c_cache cfg then mkCache (succ (r_cache r)) (removelast (failed (r_cache r))) else r_cache r)
             (ORaise BackendError) true
  else r.

(* ---------------------------------------------------------------- histories *)
Section History.
  Context {B : Type} (backend : B -> pystr -> pystr -> pystr).

  Inductive event :=
  | Attempt (l p : pystr)       (* login(l, p) *)
  | Tick (dt : Z)               (* the clock moves by dt nanoseconds *)
  | Change (b : B).             (* the credentials in the back-end change *)

  Record state := mkState { s_cache : cache; s_now : Z; s_bk : B }.

  (* one observation per attempt: the login as mapped, the outcome, whether the back-end was asked *)
  Record obs := mkObs { o_login : pystr; o_out : outcome; o_called : bool }.

  Definition step (v : variant) (cfg : config) (s : state) (e : event) : state * list obs :=
    match e with
    | Attempt l p =>
        let r := login_body v cfg (backend (s_bk s)) (s_now s) (s_cache s) l p in
        (mkState (r_cache r) (s_now s) (s_bk s), [mkObs (map_login cfg l) (r_out r) (r_called r)])
    | Tick dt => (mkState (s_cache s) (s_now s + dt) (s_bk s), [])
    | Change b => (mkState (s_cache s) (s_now s) b, [])
    end.

  Fixpoint run (v : variant) (cfg : config) (s : state) (h : list event) : state * list obs :=
    match h with
    | [] => (s, [])
    | e :: h' =>
        let '(s1, o1) := step v cfg s e in
        let '(s2, o2) := run v cfg s1 h' in
        (s2, o1 ++ o2)
    end.

  (* the (clock, back-end) pairs the system passes through, the initial one included *)
  Fixpoint moments (v : variant) (cfg : config) (s : state) (h : list event) : list (Z * B) :=
    (s_now s, s_bk s) ::
    match h with
    | [] => []
    | e :: h' => moments v cfg (fst (step v cfg s e)) h'
    end.

  Definition init (t0 : Z) (b0 : B) : state := mkState empty_cache t0 b0.
End History.

Arguments Attempt {B} l p.
Arguments Tick {B} dt.
Arguments Change {B} b.

(* ---------------------------------------------------------------- a concrete back-end for running the model *)
(* credentials table: (login, password, user returned) ; first match wins *)
Definition creds := list (pystr * pystr * pystr).
Fixpoint table_backend (tbl : creds) (l p : pystr) : pystr :=
  match tbl with
  | [] => []
  | (l', p', u) :: r => if eqs l' l then (if eqs p' p then u else []) else table_backend r l p
  end.

(* ---------------------------------------------------------------- observations for the correspondence *)
(* per attempt: outcome code, back-end called, sizes of both dictionaries afterwards *)
Record cobs := mkCobs {
  co_out : outcome; co_called : bool; co_nsucc : N; co_nfailed : N
}.

(* events of the correspondence runs: those of the theorems, plus an attempt during which the back-end raises *)
Inductive cevent := CE (e : @event creds) | CFault (l p : pystr).

Definition cobs_of (r : lresult) : cobs :=
  mkCobs (r_out r) (r_called r) (N.of_nat (List.length (succ (r_cache r)))) (N.of_nat (List.length (failed (r_cache r)))).

Definition cstep (v : variant) (cfg : config) (s : @state creds) (e : cevent)
  : @state creds * list cobs :=
  match e with
  | CE (Attempt l p) =>
      let r := login_body v cfg (table_backend (s_bk s)) (s_now s) (s_cache s) l p in
      (mkState (r_cache r) (s_now s) (s_bk s), [cobs_of r])
  | CFault l p =>
      let r := login_body_fault v cfg (s_now s) (s_cache s) l p in
      (mkState (r_cache r) (s_now s) (s_bk s), [cobs_of r])
  | CE (Tick dt) => (mkState (s_cache s) (s_now s + dt) (s_bk s), [])
  | CE (Change b) => (mkState (s_cache s) (s_now s) b, [])
  end.

Fixpoint crun (v : variant) (cfg : config) (s : @state creds) (h : list cevent)
  : @state creds * list cobs :=
  match h with
  | [] => (s, [])
  | e :: h' =>
      let '(s1, o1) := cstep v cfg s e in
      let '(s2, o2) := crun v cfg s1 h' in
      (s2, o1 ++ o2)
  end.

(* final cache snapshot without the stored user (the pinned code does not store it) *)
Definition snap_succ (c : cache) : list (pystr * (dval * Z)) :=
  map (fun e => (fst e, (fst (fst (snd e)), snd (fst (snd e))))) (succ c).

Definition outcome_eqb (a b : outcome) : bool :=
  match a, b with
  | ORet u c, ORet u' c' => eqs u u' && Bool.eqb c c'
  | ORaise KeyError, ORaise KeyError => true
  | ORaise OtherError, ORaise OtherError => true
  | ORaise BackendError, ORaise BackendError => true
  | _, _ => false
  end.

Definition cobs_eqb (a b : cobs) : bool :=
  outcome_eqb (co_out a) (co_out b) && Bool.eqb (co_called a) (co_called b)
  && N.eqb (co_nsucc a) (co_nsucc b) && N.eqb (co_nfailed a) (co_nfailed b).

Fixpoint list_eqb {A} (f : A -> A -> bool) (a b : list A) : bool :=
  match a, b with
  | [], [] => true
  | x :: a', y :: b' => f x y && list_eqb f a' b'
  | _, _ => false
  end.

Definition ssnap_eqb (a b : pystr * (dval * Z)) : bool :=
  eqs (fst a) (fst b) && dval_eqb (fst (snd a)) (fst (snd b)) && Z.eqb (snd (snd a)) (snd (snd b)).
Definition fsnap_eqb (a b : dval * fentry) : bool :=
  dval_eqb (fst a) (fst b) && Z.eqb (fst (snd a)) (fst (snd b)) && eqs (snd (snd a)) (snd (snd b)).

(* what the harness compares: observations per attempt + final contents of both dictionaries *)
Definition ccase := (config * Z * creds * list cevent)%type.
Definition cexpect := (list cobs * list (pystr * (dval * Z)) * list (dval * fentry))%type.

Definition crun_case (v : variant) (c : ccase) : cexpect :=
  let '(cfg, t0, tbl, h) := c in
  let '(s, o) := crun v cfg (init t0 tbl) h in
  (o, snap_succ (s_cache s), failed (s_cache s)).

Definition cexpect_eqb (a b : cexpect) : bool :=
  let '(oa, sa, fa) := a in
  let '(ob, sb, fb) := b in
  list_eqb cobs_eqb oa ob && list_eqb ssnap_eqb sa sb && list_eqb fsnap_eqb fa fb.
