(* C09 -- the shape of a request's critical sections, decided on the regenerated skeleton (Gen/Skeleton.v)
   with the generic abstract interpreter of Model/LockDiscipline.v.  Definitions only.

   For a method whose handler locks in mode hm, the sequence of lock acquisitions of one request is a prefix of
        R  W  hm      (home check, home creation, handler)
        R  hm         (home exists)
        hm            (no user)
   and inside an exclusive section nothing is written before the state has been re-read (Discover) under
   that lock -- "handlers re-resolve the target and re-check preconditions after taking the lock"; this is what
   the unchanged gate violates in its "w" section (DESIGN F8). *)
From Coq Require Import List NArith Bool String.
Import ListNotations.
Require Import RV.Model.LockDiscipline.

(* sections so far (oldest first), a section is open, the open exclusive section has re-read the state *)
Definition q09 := (list mode * bool * bool)%type.
Definition q09_0 : q09 := ([], false, false).

Definition is_mode (a : mode) (hm : option mode) : bool := match hm with Some m => mode_eqb a m | None => false end.

Definition allowed (hm : option mode) (secs : list mode) : bool :=
  match secs with
  | [] => true
  | [a] => mode_eqb a R || is_mode a hm
  | [a; b] => mode_eqb a R && (mode_eqb b W || is_mode b hm)
  | [a; b; c] => mode_eqb a R && mode_eqb b W && is_mode c hm
  | _ => false
  end.

Definition last_is_w (secs : list mode) : bool := match rev secs with W :: _ => true | _ => false end.

(* a handler on its own (as the gate calls it): at most ONE critical section, in the handler's mode *)
Definition allowed_handler (hm : option mode) (secs : list mode) : bool :=
  match secs with
  | [] => true
  | [a] => is_mode a hm
  | _ => false
  end.

Definition step09 (pat : list mode -> bool) (q : q09) (e : event) : option q09 :=
  let '(secs, open, seen) := q in
  match e with
  | EAcquire m => if open then None
                  else if pat (secs ++ [m]) then Some (secs ++ [m], true, false) else None
  | ERelease => Some (secs, false, false)
  | EStorage k =>
      if negb open then None else              (* no storage access outside a critical section *)
      if open && last_is_w secs then
        match k with
        | Discover => Some (secs, open, true)
        | _ => if access_eqb (sop_access k) AWrite && negb seen then None else Some q
        end
      else Some q
  | _ => Some q
  end.

Fixpoint modes_eqb (a b : list mode) : bool :=
  match a, b with [], [] => true | x :: a', y :: b' => mode_eqb x y && modes_eqb a' b' | _, _ => false end.
Definition q09_eqb (a b : q09) : bool :=
  let '(s1, o1, n1) := a in let '(s2, o2, n2) := b in modes_eqb s1 s2 && Bool.eqb o1 o2 && Bool.eqb n1 n2.

Definition check09 (hm : option mode) (s : skel) : bool := check_from q09_eqb (step09 (allowed hm)) q09_0 s.
Definition check09h (hm : option mode) (s : skel) : bool := check_from q09_eqb (step09 (allowed_handler hm)) q09_0 s.

(* the lock mode of each handler, as the concurrency model (ConcHandlers.hmode) assumes it *)
Definition mode_of_method (m : string) : option mode :=
  if existsb (String.eqb m) ["GET"; "HEAD"; "PROPFIND"; "REPORT"]%string then Some R
  else if existsb (String.eqb m) ["PUT"; "DELETE"; "MOVE"; "MKCOL"; "MKCALENDAR"; "PROPPATCH"]%string then Some W
  else None.

(* ---- the declarative statement ---- *)
Definition acquires (t : list event) : list mode :=
  flat_map (fun e => match e with EAcquire m => [m] | _ => [] end) t.

(* since the last lock event there was a Discover *)
Definition reread_after (t : list event) : bool :=
  fold_left (fun b e => match e with EAcquire _ | ERelease => false | EStorage Discover => true | _ => b end) t false.

Definition sections_pat (pat : list mode -> bool) (t : list event) : Prop :=
  pat (acquires t) = true /\
  (forall pre k post, t = pre ++ EStorage k :: post -> held_after pre <> None) /\
  (forall pre k post, t = pre ++ EStorage k :: post -> sop_access k = AWrite -> held_after pre = Some W ->
                      reread_after pre = true).
Definition sections_ok (hm : option mode) (t : list event) : Prop := sections_pat (allowed hm) t.
(* a handler alone: ONE critical section containing all its storage events *)
Definition one_section_ok (hm : option mode) (t : list event) : Prop := sections_pat (allowed_handler hm) t.

(* decided on one concrete event stream (used on the real server's streams) *)
Definition sections_okb (hm : option mode) (t : list event) : bool :=
  match steps (step09 (allowed hm)) q09_0 t with Some _ => true | None => false end.
