(* C11 -- model of radicale/storage/multifilesystem_nolock.py : class LockDict (keyed FIFO lock used as the
   per-collection cache lock), as the code implements it, for an ARBITRARY number of threads and keys.
   Definitions only.

   Objects: the mutex `_lock`; `_dict` maps a key to a deque OBJECT (deques have identity: the release path
   asserts `self._dict[key] is waiters`), so the model keeps a heap of deques addressed by number and every
   thread keeps the reference `waiters` it obtained (l_dq).  A deque holds one-shot binary locks; the lock created
   by thread t for its current acquisition is represented by t itself; `unlocked` lists the threads whose
   current waiter lock is unlocked.

   Python (acquire)                                          pc
     with self._lock:                                        D_Lock     mutex.acquire()      [blocks while owned]
       waiters = self._dict.get(key)
       if waiters is None: self._dict[key] = waiters = deque()
       wait = bool(waiters)
       waiter = threading.Lock()                             D_Get
       waiter.acquire()                                      D_WInit    (fresh lock: never blocks)
       waiters.append(waiter)                                (same step)
     (end of with)                                           D_Unlock   mutex.release()
     if wait: waiter.acquire()                               D_Wait     [blocks until released by a leaver]
     yield                                                   D_InCS
   (release)
     with self._lock:                                        D_InCS     mutex.acquire()      [blocks while owned]
       assert waiters[0] is waiter and self._dict[key] is waiters
       del waiters[0]
       if waiters: ...  else: del self._dict[key]            D_Del      (assertion failure -> D_ErrUnlock)
       waiters[0].release()                                  D_Wake     (release of an unlocked lock -> D_ErrUnlock)
     (end of with)                                           D_Unlock2  mutex.release()
   error path: (end of with)                                 D_ErrUnlock  mutex.release(), then D_Failed
*)
From Coq Require Import List Arith Bool ZArith Uint63.
Import ListNotations.
Require Import RV.Model.C11Base.

Inductive lpc :=
| D_Lock | D_Get | D_WInit | D_Unlock | D_Wait | D_InCS | D_Del | D_Wake | D_Unlock2
| D_ErrUnlock | D_Failed | D_Done.

Record lthread := LTh {
  l_pc : lpc;
  l_key : nat;           (* key of the current acquisition *)
  l_dq : nat;            (* the local variable `waiters`: a reference to a deque object *)
  l_wait : bool;         (* the local variable `wait` *)
  l_todo : list nat      (* keys to acquire after the current cycle *)
}.

Record lgst := LG {
  d_mutex : option nat;          (* owner of LockDict._lock *)
  d_dict : list (nat * nat);     (* LockDict._dict: key -> deque reference *)
  d_deques : list (list nat);    (* heap of deque objects *)
  d_unlocked : list nat          (* threads whose current waiter lock is unlocked *)
}.

Fixpoint lookup (k : nat) (d : list (nat * nat)) : option nat :=
  match d with [] => None | (k', v) :: r => if Nat.eqb k k' then Some v else lookup k r end.
Fixpoint remove_key (k : nat) (d : list (nat * nat)) : list (nat * nat) :=
  match d with [] => [] | (k', v) :: r => if Nat.eqb k k' then remove_key k r else (k', v) :: remove_key k r end.
Definition dq (g : lgst) (d : nat) : list nat := nth d (d_deques g) [].
Definition is_nil {A} (l : list A) : bool := match l with [] => true | _ => false end.

Definition lset_pc (th : lthread) (p : lpc) : lthread := LTh p (l_key th) (l_dq th) (l_wait th) (l_todo th).
Definition lset_mutex (g : lgst) (o : option nat) : lgst := LG o (d_dict g) (d_deques g) (d_unlocked g).
Definition lnext_cycle (th : lthread) : lthread :=
  match l_todo th with
  | [] => LTh D_Done (l_key th) (l_dq th) false []
  | k :: r => LTh D_Lock k (l_dq th) false r
  end.

Definition ltstep (t : nat) (g : lgst) (th : lthread) : option (lgst * lthread) :=
  match l_pc th with
  | D_Lock =>
      match d_mutex g with None => Some (lset_mutex g (Some t), lset_pc th D_Get) | Some _ => None end
  | D_Get =>
      match lookup (l_key th) (d_dict g) with
      | Some d => Some (g, LTh D_WInit (l_key th) d (negb (is_nil (dq g d))) (l_todo th))
      | None =>
          let d := List.length (d_deques g) in
          Some (LG (d_mutex g) ((l_key th, d) :: d_dict g) (d_deques g ++ [[]]) (d_unlocked g),
                LTh D_WInit (l_key th) d false (l_todo th))
      end
  | D_WInit =>
      Some (LG (d_mutex g) (d_dict g) (upd (l_dq th) (dq g (l_dq th) ++ [t]) (d_deques g)) (remove_nat t (d_unlocked g)),
            lset_pc th D_Unlock)
  | D_Unlock => Some (lset_mutex g None, lset_pc th (if l_wait th then D_Wait else D_InCS))
  | D_Wait =>
      if memb t (d_unlocked g)
      then Some (LG (d_mutex g) (d_dict g) (d_deques g) (remove_nat t (d_unlocked g)), lset_pc th D_InCS)
      else None
  | D_InCS =>
      match d_mutex g with None => Some (lset_mutex g (Some t), lset_pc th D_Del) | Some _ => None end
  | D_Del =>
      match dq g (l_dq th) with
      | h :: rest =>
          if Nat.eqb h t && opt_is Nat.eqb (lookup (l_key th) (d_dict g)) (l_dq th)
          then match rest with
               | _ :: _ => Some (LG (d_mutex g) (d_dict g) (upd (l_dq th) rest (d_deques g)) (d_unlocked g),
                                 lset_pc th D_Wake)
               | [] => Some (LG (d_mutex g) (remove_key (l_key th) (d_dict g)) (upd (l_dq th) rest (d_deques g)) (d_unlocked g),
                             lset_pc th D_Unlock2)
               end
          else Some (g, lset_pc th D_ErrUnlock)          (* AssertionError *)
      | [] => Some (g, lset_pc th D_ErrUnlock)            (* IndexError *)
      end
  | D_Wake =>
      match dq g (l_dq th) with
      | w :: _ =>
          if memb w (d_unlocked g) then Some (g, lset_pc th D_ErrUnlock)    (* RuntimeError: release unlocked lock *)
          else Some (LG (d_mutex g) (d_dict g) (d_deques g) (w :: d_unlocked g), lset_pc th D_Unlock2)
      | [] => Some (g, lset_pc th D_ErrUnlock)
      end
  | D_Unlock2 => Some (lset_mutex g None, lnext_cycle th)
  | D_ErrUnlock => Some (lset_mutex g None, lset_pc th D_Failed)
  | D_Failed | D_Done => None
  end.

Definition lstate := @C11Base.state lgst lthread.
Definition lstep : lstate -> nat -> option lstate := C11Base.step ltstep.
Definition lrun_sched : list nat -> lstate -> option lstate := C11Base.run ltstep.
Definition lrun_n : nat -> nat -> lstate -> option lstate := C11Base.run_n ltstep.
Definition lenabled : lstate -> nat -> bool := C11Base.enabled ltstep.

Definition lstart (p : list nat) : lthread :=
  match p with
  | [] => LTh D_Done 0 0 false []
  | k :: r => LTh D_Lock k 0 false r
  end.
Definition linit (progs : list (list nat)) : lstate := St (LG None [] [] []) (map lstart progs).
Definition lreachable (s : lstate) : Prop := exists progs, reach ltstep (linit progs) s.

(* ------------------------------------------------------------------ vocabulary of the theorems *)
Definition lowns_mutex (p : lpc) : bool :=
  match p with D_Get | D_WInit | D_Unlock | D_Del | D_Wake | D_Unlock2 | D_ErrUnlock => true | _ => false end.
(* the thread's waiter lock is in the deque *)
Definition enq_pc (p : lpc) : bool := match p with D_Unlock | D_Wait | D_InCS | D_Del => true | _ => false end.
(* the thread uses its reference `waiters` and expects the dict to agree *)
Definition refs_pc (p : lpc) : bool := enq_pc p || match p with D_WInit | D_Wake => true | _ => false end.
(* the thread holds the key's lock: it has passed (or will not execute) `waiter.acquire()` and has not yet
   removed itself from the deque *)
Definition entered (th : lthread) : bool :=
  match l_pc th with D_InCS | D_Del => true | D_Unlock => negb (l_wait th) | _ => false end.
Definition in_body (th : lthread) : bool := match l_pc th with D_InCS => true | _ => false end.
Definition waiting_pc (p : lpc) : bool := match p with D_Unlock | D_Wait => true | _ => false end.
(* parked: will block / blocks in `waiter.acquire()`; woken: its waiter lock has been released *)
Definition parked (g : lgst) (t : nat) (th : lthread) : Prop :=
  l_wait th = true /\ waiting_pc (l_pc th) = true /\ ~ In t (d_unlocked g).
Definition woken (g : lgst) (t : nat) (th : lthread) : Prop :=
  l_wait th = true /\ waiting_pc (l_pc th) = true /\ In t (d_unlocked g).
Definition lfailed_pc (p : lpc) : bool := match p with D_ErrUnlock | D_Failed => true | _ => false end.

(* ------------------------------------------------------------------ correspondence interface (tie K) *)
Definition linternal (th : lthread) : bool := match l_pc th with D_Get | D_Del => true | _ => false end.
Fixpoint lsettle (fuel : nat) (t : nat) (s : lstate) : lstate :=
  match fuel with
  | O => s
  | S f =>
      match nth_error (thr s) t with
      | Some th => if linternal th then match lstep s t with Some s' => lsettle f t s' | None => s end else s
      | None => s
      end
  end.
Definition lmacro (s : lstate) (t : nat) : option lstate :=
  match lstep s t with Some s' => Some (lsettle 3 t s') | None => None end.

Open Scope Z_scope.
Definition lpc_code (p : lpc) : Z :=
  match p with
  | D_Lock => 1 | D_Get => 2 | D_WInit => 3 | D_Unlock => 4 | D_Wait => 5 | D_InCS => 6 | D_Del => 7 | D_Wake => 8
  | D_Unlock2 => 9 | D_ErrUnlock => 10 | D_Failed => 11 | D_Done => 0
  end.
Definition lzb (b : bool) : Z := if b then 1 else 0.
Definition lzopt (o : option nat) : Z := match o with Some t => Z.of_nat t | None => -1 end.

(* observation: [mutex] ++ dict as sorted-by-insertion (key, deque contents) ++ [-2] ++ per thread [pc; enabled; unlocked]
   The deque NUMBER is not observable on the implementation; the contents are. *)
Definition lobserve (s : lstate) : list Z :=
  let g := glob s in
  [lzopt (d_mutex g)]
  ++ concat (map (fun kd => [Z.of_nat (fst kd); Z.of_nat (List.length (dq g (snd kd)))] ++ map Z.of_nat (dq g (snd kd)))
                 (d_dict g)) ++ [-2]
  ++ concat (map (fun '(i, th) => [lpc_code (l_pc th); lzb (lenabled s i); lzb (memb i (d_unlocked g))])
                 (combine (seq 0 (List.length (thr s))) (thr s))).

Fixpoint ltrace (sched : list nat) (s : lstate) : list (list Z) :=
  match sched with
  | [] => []
  | t :: r => match lmacro s t with
              | Some s' => lobserve s' :: ltrace r s'
              | None => [[-9]]
              end
  end.

Definition lrun_case (c : list (list nat) * list nat) : list (list Z) :=
  let s0 := linit (fst c) in lobserve s0 :: ltrace (snd c) s0.

(* compact form used by the generated correspondence files: schedule and trace packed in 63-bit words *)
Definition lrun_case_z (c : list (list nat) * (nat * list Uint63.int)) : list Uint63.int :=
  map Uint63.of_Z (enc_trace (lrun_case (fst c, decode_sched (fst (snd c)) (map Uint63.to_Z (snd (snd c)))))).
