(* C04: the declarative language of a regex of Model/Regex.v -- the SPECIFICATION the backtracking
   matcher is proved against (Proofs/RegexMatchProofs.v).  Greediness and group numbers are
   irrelevant to the language.  Definitions only. *)
From Coq Require Import List NArith Bool.
Import ListNotations.
Require Import RV.Lib.PyStr RV.Model.Regex.
Open Scope N_scope.

Definition le_opt (n : N) (mx : option N) : Prop :=
  match mx with None => True | Some x => (n <= x)%N end.

(* number of iterations allowed by {mn,mx}; when mn > mx (never produced by the parser) the engine
   does exactly mn *)
Definition rep_ok (mn : N) (mx : option N) (n : nat) : Prop :=
  (mn <= N.of_nat n)%N /\ (le_opt (N.of_nat n) mx \/ N.of_nat n = mn).

Inductive M : regex -> pystr -> Prop :=
| M_Eps : M Eps []
| M_Chr c : M (Chr c) [c]
| M_Any c : c <> 10%N -> M Any [c]
| M_Set neg items c : set_match neg items c = true -> M (CSet neg items) [c]
| M_Cat a b w1 w2 : M a w1 -> M b w2 -> M (Cat a b) (w1 ++ w2)
| M_AltL a b w : M a w -> M (Alt a b) w
| M_AltR a b w : M b w -> M (Alt a b) w
| M_Group i r w : M r w -> M (Group i r) w
| M_Rep mn mx g body n w : MN body n w -> rep_ok mn mx n -> M (Rep mn mx g body) w
with MN : regex -> nat -> pystr -> Prop :=
| MN_0 r : MN r 0 []
| MN_S r n w1 w2 : M r w1 -> MN r n w2 -> MN r (S n) (w1 ++ w2).

Scheme M_mind := Minimality for M Sort Prop
  with MN_mind := Minimality for MN Sort Prop.

