(* C16 -- executable model of radicale/item/filter.py (visit_time_ranges, time_range_match, time_range_fill),
   radicale/item/__init__.py (find_time_range), radicale/storage/__init__.py (get_filtered),
   radicale/app/report.py (test_filter, the filtering loop of xml_report, free_busy_report),
   following the Python line by line (as it is AFTER the fixes notes/fixes/C16-F3, F4, F12, F13, F16).
   dateutil's rrule expansion is NOT Radicale code: it is modelled as the arithmetic progression of
   Rfc4791.in_bound and tied by the correspondence check only.
   No proofs in this file. *)
From Coq Require Import ZArith List Bool.
Import ListNotations.
Require Import RV.Model.Rfc4791.
Open Scope Z_scope.

(* one invocation range_fn(range_start, range_end, is_recurrence) *)
Record call := mkcall { c_s : xt; c_e : xt; c_rec : bool }.
Definition fcall (a b : Z) (rec : bool) : call := mkcall (Fin a) (Fin b) rec.

(* ------------------------------------------------------------------ the ranges handed to range_fn for one reference date *)

(* VEVENT, body of `for dtstart in dtstarts` (d = date_to_datetime(dtstart)) *)
Definition vevent_calls (ev : vevent) (rec : bool) (d : Z) : list call :=
  match ev_end ev with
  | EDtend t =>
      (* original_duration = (dtend - dtstart).total_seconds(); dtend = dtstart + timedelta(seconds=original_duration) *)
      [fcall d (d + (t - ev_start ev)) rec]                       (* Line 1 *)
  | EDuration dur =>
      if 0 <? dur                                                  (* duration > timedelta(0)   [fix F3] *)
      then [fcall d (d + dur) rec]                                 (* Line 2 *)
      else [fcall d (d + 1) rec]                                   (* Line 3 *)
  | ENone =>
      match ev_kind ev with                                        (* dtstart_is_datetime of the master [fix F12] *)
      | KDateTime => [fcall d (d + 1) rec]                         (* Line 4 *)
      | KDate => [fcall d (d + DAY) rec]                           (* Line 5 *)
      end
  end.

(* the code as pinned (before fix F3): `duration.seconds > 0` *)
Definition vevent_calls_legacy (ev : vevent) (rec : bool) (d : Z) : list call :=
  match ev_end ev with
  | EDuration dur => if 0 <? td_secs (td_of_total dur) then [fcall d (d + dur) rec] else [fcall d (d + 1) rec]
  | _ => vevent_calls ev rec d
  end.

Definition vjournal_calls (k : vkind) (rec : bool) (d : Z) : list call :=
  match k with
  | KDateTime => [fcall d (d + 1) rec]                             (* Line 1 *)
  | KDate => [fcall d (d + DAY) rec]                               (* Line 2 *)
  end.

(* VTODO, body of `for reference_date in reference_dates`, the if/elif chain in the code's order *)
Definition vtodo_calls (t : vtodo) (rec : bool) (d : Z) : list call :=
  match td_dtstart t, td_duration t, td_due t, td_completed t, td_created t with
  | Some _, Some dur, _, _, _ =>                                   (* Line 1 *)
      [fcall d (d + dur + 1) rec; fcall (d + dur - 1) (d + dur + 1) rec]
  | Some s0, None, Some due, _, _ =>                               (* Line 2 *)
      let due' := d + (due - s0) in                                (* due = reference_date + original_duration *)
      [fcall d due' rec; fcall d (d + 1) rec; fcall (due' - 1) due' rec; fcall (due' - 1) (d + 1) rec]
  | Some _, None, None, _, _ => [fcall d (d + 1) rec]              (* Line 3 *)
  | None, _, Some _, _, _ => [fcall (d - 1) d rec]                 (* Line 4 *)
  | None, _, None, Some c, Some r =>                               (* Line 5 [fix F4]: reference = CREATED *)
      let c' := d + (c - r) in                                     (* completed = reference_date + original_duration *)
      [fcall (d - 1) (d + 1) rec; fcall (d - 1) (c' + 1) rec; fcall (c' - 1) (c' + 1) rec; fcall (c' - 1) (d + 1) rec]
  | None, _, None, Some _, None => [fcall (d - 1) (d + 1) rec]     (* Line 6 *)
  | None, _, None, None, Some _ => [mkcall (Fin d) PInf rec]       (* Line 7 *)
  | None, _, None, None, None => []
  end.

(* the code as pinned (before fix F4): reference = COMPLETED, two of the four disjuncts repeated *)
Definition vtodo_calls_legacy (t : vtodo) (rec : bool) (d : Z) : list call :=
  match td_dtstart t, td_due t, td_completed t, td_created t with
  | None, None, Some c, Some r =>
      let c' := d + (c - r) in
      [fcall (d - 1) (d + 1) rec; fcall (c' - 1) (c' + 1) rec; fcall (d - 1) (d + 1) rec; fcall (c' - 1) (c' + 1) rec]
  | _, _, _, _ => vtodo_calls t rec d
  end.

(* ------------------------------------------------------------------ reference dates *)
Inductive dates :=
| DOne (d : Z)                      (* (dtstart,) *)
| DNone                             (* () *)
| DRule (s0 : Z) (rc : recur).      (* child.getrruleset(addRDate=True) filtered *)

Definition is_infinite (rc : recur) : bool :=      (* getrruleset: no UNTIL and no COUNT part [fix F16] *)
  match r_bound (rc_rule rc) with RForever => true | _ => false end.

(* candidates removed by EXDATE cost fuel too: none lies beyond the largest EXDATE *)
Definition ex_bound (b : Z) (ex : list Z) : Z := fold_right Z.max b ex.
Definition first_fuel (s0 : Z) (rc : recur) : nat :=
  S (Z.to_nat ((ex_bound s0 (rc_ex rc) - s0) / r_period (rc_rule rc) + 1)).

(* ------------------------------------------------------------------ the visitor, generic in the state of range_fn *)
Section Visit.
  Context {St : Type}.
  Variable range_fn : call -> St -> St * bool.
  Variable infinity_fn : Z -> St -> St * bool.

  (* a block of `if range_fn(...): return` / `range_fn(..) or range_fn(..)`: stop everything at the first True *)
  Fixpoint run_calls (l : list call) (st : St) : St * bool :=
    match l with
    | [] => (st, false)
    | c :: r => let '(st', stop) := range_fn c st in if stop then (st', true) else run_calls r st'
    end.

  (* iteration over the recurrence set from candidate index k on; None = out of fuel *)
  Fixpoint visit_rule (fuel : nat) (per_date : Z -> list call) (s0 : Z) (rc : recur) (k : Z) (st : St)
    : option (St * bool) :=
    match fuel with
    | O => None
    | S f =>
        let p := r_period (rc_rule rc) in
        let d := s0 + k * p in
        if negb (in_bound (r_bound (rc_rule rc)) s0 p k) then Some (st, false)
        else if mem d (rc_ex rc) then visit_rule f per_date s0 rc (k + 1) st
        else let '(st', stop) := run_calls (per_date d) st in
             if stop then Some (st', true) else visit_rule f per_date s0 rc (k + 1) st'
    end.

  (* first date of the recurrence set (for infinity_fn); no candidate beyond the largest EXDATE is removed *)
  Fixpoint first_date (fuel : nat) (s0 : Z) (rc : recur) (k : Z) : option Z :=
    match fuel with
    | O => None
    | S f => let d := s0 + k * r_period (rc_rule rc) in
             if mem d (rc_ex rc) then first_date f s0 rc (k + 1) else Some d
    end.

  Definition visit_dates (fuel : nat) (per_date : Z -> list call) (ds : dates) (st : St) : option (St * bool) :=
    match ds with
    | DNone => Some (st, false)
    | DOne d => Some (run_calls (per_date d) st)
    | DRule s0 rc =>
        if is_infinite rc then
          match first_date (first_fuel s0 rc) s0 rc 0 with
          | Some d0 =>
              let '(st', stop) := infinity_fn d0 st in
              if stop then Some (st', true) else visit_rule fuel per_date s0 rc 0 st'
          | None => None
          end
        else visit_rule fuel per_date s0 rc 0 st
    end.

  Definition dates_of (s0 : Z) (rc : option recur) : dates :=
    match rc with Some r => DRule s0 r | None => DOne s0 end.

  (* reference dates of a VTODO: the rule (vobject anchors it at DTSTART, else at DUE; with neither there is no
     rruleset), else the first of DTSTART, DUE, CREATED-if-COMPLETED [fix F4], COMPLETED, CREATED *)
  Definition vtodo_dates (t : vtodo) : option dates :=
    let anchor := match td_dtstart t, td_due t with Some s, _ => Some s | None, Some u => Some u | None, None => None end in
    match td_rec t, anchor with
    | Some rc, Some a => Some (DRule a rc)
    | _, _ =>
        match td_dtstart t, td_due t, td_completed t, td_created t with
        | Some s, _, _, _ => Some (DOne s)
        | None, Some u, _, _ => Some (DOne u)
        | None, None, Some c, Some r => Some (DOne r)
        | None, None, Some c, None => Some (DOne c)
        | None, None, None, Some r => Some (DOne r)
        | None, None, None, None => None                 (* Line 8 *)
        end
    end.

  (* visit_time_ranges(vobject_item, child_name, range_fn, infinity_fn) for an object with one (main) component *)
  Definition visit (fuel : nat) (o : obj) (st : St) : option (St * bool) :=
    match o with
    | OEvent ev => visit_dates fuel (vevent_calls ev false) (dates_of (ev_start ev) (ev_rec ev)) st
    | OTodo t =>
        match vtodo_dates t with
        | Some ds => visit_dates fuel (vtodo_calls t false) ds st
        | None => Some (run_calls [mkcall MInf PInf false] st)      (* Line 8: range_fn(DATETIME_MIN, DATETIME_MAX) *)
        end
    | OJournal j =>
        match jn_start j with
        | Some (k, s0) => visit_dates fuel (vjournal_calls k false) (dates_of s0 (jn_rec j)) st
        | None => Some (st, false)
        end
    end.
End Visit.

(* ------------------------------------------------------------------ time_range_match *)
Definition overlap (s e : xt) (c : call) : bool := xlt s (c_e c) && xlt (c_s c) e.

Definition match_fn (s e : xt) (c : call) (matched : bool) : bool * bool :=
  if overlap s e c then (true, true)
  else if xlt e (c_s c) && negb (c_rec c) then (matched, true)
  else (matched, false).

Definition no_infinity {St} (_ : Z) (st : St) : St * bool := (st, false).

Definition time_range_match (fuel : nat) (o : obj) (r : trange) : option bool :=
  if negb (tr_bounded r) then Some false
  else option_map fst (visit (match_fn (tr_start r) (tr_end r)) no_infinity fuel o false).

(* ------------------------------------------------------------------ time_range_fill *)
Definition fill_fn (s e : xt) (n : Z) (c : call) (ranges : list (xt * xt)) : list (xt * xt) * bool :=
  if overlap s e c then
    let ranges' := ranges ++ [(c_s c, c_e c)] in
    if (0 <? n) && (n <=? Z.of_nat (length ranges')) then (ranges', true)
    else if xlt e (c_s c) && negb (c_rec c) then (ranges', true) else (ranges', false)
  else if xlt e (c_s c) && negb (c_rec c) then (ranges, true) else (ranges, false).

Definition time_range_fill (fuel : nat) (o : obj) (r : trange) (n : Z) : option (list (xt * xt)) :=
  if negb (tr_bounded r) then Some []
  else option_map fst (visit (fill_fn (tr_start r) (tr_end r) n) no_infinity fuel o []).

(* ------------------------------------------------------------------ find_time_range *)
Definition hull_st := (option xt * option xt)%type.
Definition hull_fn (c : call) (st : hull_st) : hull_st * bool :=
  let '(start, end_) := st in
  let start' := match start with None => Some (c_s c) | Some s => if xlt (c_s c) s then Some (c_s c) else Some s end in
  let end' := match end_ with None => Some (c_e c) | Some e => if xlt e (c_e c) then Some (c_e c) else Some e end in
  ((start', end'), false).
Definition hull_inf (d : Z) (st : hull_st) : hull_st * bool :=
  let '(start, _) := st in
  let start' := match start with None => Some (Fin d) | Some s => if xlt (Fin d) s then Some (Fin d) else Some s end in
  ((start', Some PInf), true).

Definition find_time_range (fuel : nat) (o : obj) : option (xt * xt) :=
  match visit hull_fn hull_inf fuel o (None, None) with
  | Some ((start, end_), _) =>
      Some (match start with Some s => s | None => MInf end, match end_ with Some e => e | None => PInf end)
  | None => None
  end.

(* fuel that always suffices for find_time_range: bounded rules are walked completely *)
Definition rule_len (s0 : Z) (rc : recur) : Z :=
  match r_bound (rc_rule rc) with
  | RCount n => Z.max 0 n
  | RUntil u => Z.max 0 ((u - s0) / r_period (rc_rule rc) + 1)
  | RForever => 0
  end.
Definition obj_rule (o : obj) : option (Z * recur) :=
  match o with
  | OEvent ev => match ev_rec ev with Some rc => Some (ev_start ev, rc) | None => None end
  | OTodo t => match vtodo_dates t with Some (DRule a rc) => Some (a, rc) | _ => None end
  | OJournal j => match jn_start j, jn_rec j with Some (_, s0), Some rc => Some (s0, rc) | _, _ => None end
  end.
Definition hull_fuel (o : obj) : nat :=
  match obj_rule o with Some (s0, rc) => S (Z.to_nat (rule_len s0 rc)) | None => 1%nat end.

(* fuel that suffices for time_range_match / time_range_fill on an unbounded rule: candidates up to the
   first one whose date is beyond the finite bound of the range (plus one) and beyond every EXDATE *)
Definition range_bound (r : trange) : Z :=
  match r with
  | (_, Some e) => e + 1
  | (Some s, None) => s
  | (None, None) => 0
  end.
Definition match_fuel (o : obj) (r : trange) : nat :=
  match obj_rule o with
  | Some (s0, rc) =>
      if is_infinite rc then S (S (Z.to_nat ((ex_bound (range_bound r) (rc_ex rc) - s0) / r_period (rc_rule rc) + 1)))
      else S (Z.to_nat (rule_len s0 rc))
  | None => 1%nat
  end.

(* ------------------------------------------------------------------ filters (XML elements, abstracted) *)
Inductive cname := NCal | NEvent | NTodo | NJournal | NOther (n : Z).   (* upper-cased name attribute *)
Definition cname_eqb (a b : cname) : bool :=
  match a, b with
  | NCal, NCal | NEvent, NEvent | NTodo, NTodo | NJournal, NJournal => true
  | NOther x, NOther y => x =? y
  | _, _ => false
  end.
Definition is3 (n : cname) : bool := match n with NEvent | NTodo | NJournal => true | _ => false end.

(* The `name` attribute as the client spelled it: component names are compared after `.upper()`, so the raw text is
   abstracted as its upper-casing plus whether it already was upper case ("vevent", "Vevent" -> (NEvent, false)).
   `upper` is str.upper(); `raw_is` is the comparison WITHOUT folding (what the code would do if a site forgot it). *)
Record rawname := { rn_upper : cname; rn_is_upper : bool }.
Definition upper (n : rawname) : cname := rn_upper n.
Definition raw_is (n : rawname) (c : cname) : bool := rn_is_upper n && cname_eqb (rn_upper n) c.
Definition U (c : cname) : rawname := {| rn_upper := c; rn_is_upper := true |}.
(* the value of a name expression of the code: folded, or the raw text *)
Inductive folded := Folded (c : cname) | Raw (n : rawname).

(* children of a comp-filter (or of a filter) element *)
Inductive elem :=
| EIsNotDefined
| ETimeRange (r : trange)
| EPropFilter (p : Z)                 (* opaque: identified by a number, evaluated by a parameter *)
| ECompFilter (name : rawname) (children : list elem)
| EUnknown.                           (* any other element *)

Record item := { it_comp : cname;     (* item.component_name (find_tag) *)
                 it_obj : obj;        (* item.vobject_item *)
                 it_range : xt * xt;  (* item.time_range (cached find_time_range) *)
                 it_id : Z }.

Definition obj_cname (o : obj) : cname := match o with OEvent _ => NEvent | OTodo _ => NTodo | OJournal _ => NJournal end.

(* exceptions are explicit: None = the request fails (ValueError -> 400, anything else -> 500) *)
Definition obind {A B} (x : option A) (f : A -> option B) : option B := match x with Some a => f a | None => None end.

Section Filters.
  Variable prop_match : Z -> item -> bool.       (* any(prop_match(comp, child, "C") for comp in components) *)
  Variable fuel_of : item -> trange -> nat.      (* fuel for the loops; theorems require it to be sufficient *)

  Definition is_not_defined (e : elem) : bool := match e with EIsNotDefined => true | _ => false end.

  (* time_range_match(item.vobject_item, filter_[0], tag): the FIRST child is read, whatever `child` is;
     an element without start/end attributes gives False *)
  Definition first_child_range (children : list elem) : trange :=
    match children with ETimeRange r :: _ => r | _ => (None, None) end.

  (* comp_match(item, filter_, level).  The recursion depth is bounded by the code itself (level 2 returns
     True), so the model is two non-recursive instances of one body. *)
  Fixpoint cm_loop (eval_child : elem -> option bool) (l : list elem) : option bool :=
    match l with
    | [] => Some true
    | child :: rest => obind (eval_child child) (fun b => if b then cm_loop eval_child rest else Some false)
    end.

  Definition comp_match_body (tag : cname) (unsupported : cname -> bool) (eval_child : elem -> option bool)
             (name : cname) (children : list elem) : option bool :=
    match children with
    | [] => Some (cname_eqb name tag)                                   (* Point #1 *)
    | [EIsNotDefined] => Some (negb (cname_eqb name tag))               (* Point #2 *)
    | _ =>
        if negb (cname_eqb name tag) then Some false
        else if unsupported name then Some true                         (* "Filtering %s is not supported" *)
        else cm_loop eval_child children                                (* Point #3 and #4 *)
    end.

  (* level 1: tag = item.component_name *)
  Definition comp_match1 (it : item) (raw : rawname) (children : list elem) : option bool :=
    let name := upper raw in                     (* name = filter_.get("name", "").upper() *)
    comp_match_body (it_comp it) (fun n => negb (is3 n))
      (fun child => match child with
                    | EPropFilter p => Some (prop_match p it)
                    | ETimeRange _ => time_range_match (fuel_of it (first_child_range children)) (it_obj it)
                                        (first_child_range children)
                    | ECompFilter _ _ => Some true     (* comp_match(level=2): three levels are not supported: True *)
                    | _ => None                        (* raise ValueError("Unexpected %r in comp-filter") *)
                    end) name children.

  (* level 0: tag = item.name = "VCALENDAR" *)
  Definition comp_match0 (it : item) (raw : rawname) (children : list elem) : option bool :=
    let name := upper raw in                     (* name = filter_.get("name", "").upper() *)
    comp_match_body NCal (fun n => negb (cname_eqb n NCal))
      (fun child => match child with
                    | EPropFilter p => Some (prop_match p it)
                    | ETimeRange _ =>                  (* time_range_match(vobject_item, filter_[0], "VCALENDAR"): *)
                        if tr_bounded (first_child_range children)
                        then None                      (* getattr(vobject_item, "vcalendar") -> AttributeError *)
                        else Some false                (* no start and no end: False before anything is read *)
                    | ECompFilter n ch => comp_match1 it n ch
                    | _ => None
                    end) name children.

  (* test_filter(collection_tag = "VCALENDAR", item, filter_); a filter element = list of children *)
  Definition test_filter (it : item) (f : list elem) : option bool :=
    match f with
    | [] => Some true
    | [ECompFilter n ch] => comp_match0 it n ch
    | _ => None                                    (* ValueError *)
    end.

  (* all(test_filter(collection_tag, item, filter_) for filter_ in filters), short-circuit *)
  Fixpoint all_filters (it : item) (filters : list (list elem)) : option bool :=
    match filters with
    | [] => Some true
    | f :: rest => obind (test_filter it f) (fun b => if b then all_filters it rest else Some false)
    end.

  (* ---------------------------------------------------------------- simplify_prefilters(filters, "VCALENDAR") *)
  Definition has_bound (r : trange) : bool := tr_bounded r.      (* [fix F13] *)

  (* `for time_filter in comp_filter:`  -> Some (start, end, simple) on `return`, None when the loop ends / breaks *)
  Fixpoint sp_time (tag : cname) (l : list elem) (simple : bool) : option (xt * xt * bool) * bool :=
    match l with
    | [] => (None, simple)
    | c :: rest =>
        if negb (is3 tag) then (None, false)                        (* simple = False; break *)
        else match c with
             | ETimeRange r => (Some (tr_start r, tr_end r, simple && has_bound r), simple)
             | _ => sp_time tag rest false                          (* simple = False; continue *)
             end
    end.

  Definition len_le1 {A} (l : list A) : bool := match l with [] | [_] => true | _ => false end.

  (* `for comp_filter in col_filter:` -> Some result on `return`, None + simple when the loop ends *)
  Fixpoint sp_comp (l : list elem) (simple : bool) : option (cname * xt * xt * bool) * bool :=
    match l with
    | [] => (None, simple)
    | c :: rest =>
        match c with
        | ECompFilter raw ch =>
            let tag := upper raw in                                 (* tag = comp_filter.get("name", "").upper() *)
            if existsb is_not_defined ch then sp_comp rest false    (* simple = False; continue *)
            else
              let simple1 := simple && len_le1 ch in
              match sp_time tag ch simple1 with
              | (Some (s, e, sim), _) => (Some (tag, s, e, sim), sim)
              | (None, simple2) => (Some (tag, MInf, PInf, simple2), simple2)
              end
        | _ => sp_comp rest false                                   (* simple = False; continue *)
        end
    end.

  (* `for col_filter in flat_filters:` *)
  Fixpoint sp_col (l : list elem) (simple : bool) : option cname * xt * xt * bool :=
    match l with
    | [] => (None, MInf, PInf, simple)
    | c :: rest =>
        match c with
        | ECompFilter raw ch =>
            if cname_eqb (upper raw) NCal                           (* col_filter.get("name", "").upper() != "VCALENDAR" *)
            then match sp_comp ch (simple && len_le1 ch) with
                 | (Some (tag, s, e, sim), _) => (Some tag, s, e, sim)
                 | (None, simple') => sp_col rest simple'
                 end
            else sp_col rest false
        | _ => sp_col rest false
        end
    end.

  Definition simplify_prefilters (filters : list (list elem)) : option cname * xt * xt * bool :=
    let flat := concat filters in
    sp_col flat (len_le1 flat).

  (* ---------------------------------------------------------------- get_filtered: the two expressions (tie T: Gen/C16Gen.v) *)
  Definition gf_skip (tag : option cname) (comp : cname) (istart iend start end_ : xt) : bool :=
    match tag with Some t => negb (cname_eqb t comp) | None => false end
    || (xle end_ istart || xle iend start).
  (* [fix F19]: an open side of the enclosing range tells nothing *)
  Definition gf_matched (simple : bool) (istart iend start end_ : xt) : bool :=
    simple && ((xlt MInf istart && xle start istart) || (xlt iend PInf && xle iend end_)).

  Definition get_filtered (filters : list (list elem)) (items : list item) : list (item * bool) :=
    let '(tag, start, end_, simple) := simplify_prefilters filters in
    flat_map (fun it =>
                let '(istart, iend) := it_range it in
                if gf_skip tag (it_comp it) istart iend start end_ then []
                else [(it, gf_matched simple istart iend start end_)]) items.

  (* xml_report: `if filters and not filters_matched: if not all(test_filter...): continue` *)
  Fixpoint report_loop (filters : list (list elem)) (l : list (item * bool)) : option (list item) :=
    match l with
    | [] => Some []
    | (it, matched) :: rest =>
        obind (if match filters with [] => false | _ => true end && negb matched
               then all_filters it filters else Some true)
          (fun keep => obind (report_loop filters rest) (fun r => Some (if keep then it :: r else r)))
    end.

  Definition report (filters : list (list elem)) (items : list item) : option (list item) :=
    report_loop filters (get_filtered filters items).

  (* the reference: every item evaluated in full *)
  Fixpoint reference (filters : list (list elem)) (items : list item) : option (list item) :=
    match items with
    | [] => Some []
    | it :: rest =>
        obind (all_filters it filters)
          (fun keep => obind (reference filters rest) (fun r => Some (if keep then it :: r else r)))
    end.
End Filters.

(* ------------------------------------------------------------------ free_busy_report *)
Inductive fbtype := FBBusy | FBFree | FBTentative.
Record fbitem := { fb_item : item;
                   fb_transparent : bool;        (* TRANSP present and not OPAQUE *)
                   fb_type : fbtype }.           (* from STATUS *)

Section FreeBusy.
  Variable fuel_of : item -> trange -> nat.

  (* occurrences of one retrieved item; None = ValueError (cap hit) or out of fuel *)
  Definition fb_occurrences (max_occurrence : Z) (r : trange) (it : fbitem) : option (list (xt * xt * fbtype)) :=
    if fb_transparent it then Some []
    else
      let n := if 0 <? max_occurrence then max_occurrence + 1 else 0 in
      obind (time_range_fill (fuel_of (fb_item it) r) (it_obj (fb_item it)) r n)
        (fun occ => if max_occurrence <=? Z.of_nat (length occ) then None
                    else Some (map (fun se => (fst se, snd se, fb_type it)) occ)).

  (* the filter built by free_busy_report: VCALENDAR > VEVENT > time-range *)
  Definition fb_filter (r : trange) : list (list elem) := [[ECompFilter (U NCal) [ECompFilter (U NEvent) [ETimeRange r]]]].

  Fixpoint fb_loop (max_occurrence : Z) (r : trange) (l : list (fbitem * bool)) : option (list (xt * xt * fbtype)) :=
    match l with
    | [] => Some []
    | (it, matched) :: rest =>
        obind (if matched then Some true
               else test_filter (fun _ _ => true) fuel_of (fb_item it) (hd [] (fb_filter r)))
          (fun keep =>
             if keep then obind (fb_occurrences max_occurrence r it)
                            (fun occ => obind (fb_loop max_occurrence r rest) (fun more => Some (occ ++ more)))
             else fb_loop max_occurrence r rest)
    end.

  Definition free_busy (max_occurrence : Z) (r : trange) (items : list fbitem) : option (list (xt * xt * fbtype)) :=
    let '(tag, start, end_, simple) := simplify_prefilters (fb_filter r) in
    fb_loop max_occurrence r
      (flat_map (fun fi =>
                   let '(istart, iend) := it_range (fb_item fi) in
                   if gf_skip tag (it_comp (fb_item fi)) istart iend start end_ then []
                   else [(fi, gf_matched simple istart iend start end_)]) items).
End FreeBusy.

(* ------------------------------------------------------------------ what the visitor can hand to range_fn
   (specification-level definition used by the theorems; not executable for unbounded rules) *)
Definition visited (o : obj) (c : call) : Prop :=
  match o with
  | OEvent ev => exists D, occurs (ev_start ev) (ev_rec ev) D /\ In c (vevent_calls ev false D)
  | OTodo t =>
      match vtodo_dates t with
      | None => c = mkcall MInf PInf false
      | Some (DOne d) => In c (vtodo_calls t false d)
      | Some DNone => False
      | Some (DRule a rc) => exists D, occurs a (Some rc) D /\ In c (vtodo_calls t false D)
      end
  | OJournal j =>
      match jn_start j with
      | Some (k, s0) => exists D, occurs s0 (jn_rec j) D /\ In c (vjournal_calls k false D)
      | None => False
      end
  end.

(* the class of the known finding F14: an unbounded recurring VTODO whose block begins one second before the
   reference date (DURATION = 0, or DUE = DTSTART): the enclosing range computed through infinity_fn starts
   one second late *)
Definition f14_class (o : obj) : Prop :=
  match o with
  | OTodo t =>
      match td_rec t, td_dtstart t with
      | Some rc, Some s0 =>
          is_infinite rc = true /\
          (td_duration t = Some 0 \/ (td_duration t = None /\ td_due t = Some s0))
      | _, _ => False
      end
  | _ => False
  end.
