(* Representation relation between the file-system layout (L1: Model/Fs.v, written by Model/StorageOps.v)
   and the ideal DAV store of the handler model (L0: Model/Store.v).  Definitions only
   (proofs: Proofs/ReprProofs.v, Proofs/ReprUnits.v).

   R s sigma constrains the DATA paths of s only (Fs.is_data): for every L0 path p
     - fp p is a directory iff sigma has a collection at p,
     - fp p is a file with content ocode o iff p names the item o of its parent collection (and no collection
       lives at p),
     - fp p is absent otherwise,
     - the props file fp p ++ [Props] exists only for collections and holds pcode tag props; a missing props
       file stands for (TNone, []) (create_collection without props = _makedirs_synced writes none).
   Cache, history, temp, lock files and the separate cache area are unconstrained. *)
From Coq Require Import List NArith Bool.
Import ListNotations.
Require RV.Model.Store.
Require Import RV.Model.Fs.
Open Scope N_scope.

Module ST := RV.Model.Store.

(* collection-root / safe names *)
Definition fp (p : ST.path) : path := Root :: map Safe p.

(* an injective pairing on N (no division: (x+y)(x+y+1) + 2y) and the content codes built from it *)
Definition npair (x y : N) : N := (x + y) * (x + y + 1) + 2 * y.

Definition comp_code (c : ST.comp) : N :=
  match c with ST.CEvent => 0 | ST.CTodo => 1 | ST.CJournal => 2 | ST.CCard => 3 end.
Definition tag_code (t : ST.tag) : N := match t with ST.TNone => 0 | ST.TCal => 1 | ST.TAdr => 2 end.

Definition ocode (o : ST.obj) : N := npair (ST.o_uid o) (npair (comp_code (ST.o_comp o)) (ST.o_cid o)).
Fixpoint lcode (l : list (N * N)) : N :=
  match l with
  | [] => 0
  | (k, v) :: r => 1 + npair k (npair v (lcode r))
  end.
Definition pcode (t : ST.tag) (props : list (N * N)) : N := npair (tag_code t) (lcode props).

(* what the directory tree shows at fp p *)
Definition nview (sigma : ST.store) (p : ST.path) : option node :=
  match ST.resolve sigma p with
  | ST.NColl _ => Some D
  | ST.NItem _ o => Some (F (ocode o))
  | ST.NNothing => None
  end.

(* what may be found at fp p ++ [Props] *)
Definition props_ok (n : option node) (sigma : ST.store) (p : ST.path) : Prop :=
  match ST.lookup sigma p with
  | Some c => match n with
              | None => ST.c_tag c = ST.TNone /\ ST.c_props c = []
              | Some (F v) => v = pcode (ST.c_tag c) (ST.c_props c)
              | Some D => False
              end
  | None => n = None
  end.

Definition R (s : fs) (sigma : ST.store) : Prop :=
  forall p, look s (fp p) = nview sigma p /\ props_ok (look s (fp p ++ [Props])) sigma p.

(* items of an L0 collection as the (href, content) list handed to create_collection *)
Definition enc_items (l : list (ST.name * ST.obj)) : list (name * N) := map (fun ho => (Safe (fst ho), ocode (snd ho))) l.

(* the L0 stores seen through the data view: same collections, same tag / props, same item map *)
Definition coll_equiv (a b : option ST.coll) : Prop :=
  match a, b with
  | None, None => True
  | Some c1, Some c2 => ST.c_tag c1 = ST.c_tag c2 /\ ST.c_props c1 = ST.c_props c2
                        /\ forall h, ST.assoc (ST.c_items c1) h = ST.assoc (ST.c_items c2) h
  | _, _ => False
  end.

(* the canonical file system of an L0 store (no cache, no residue): R (fs_of sigma) sigma for every sigma *)
Fixpoint unsafe (r : list name) : option (ST.path * bool) :=
  match r with
  | [] => Some ([], false)
  | Props :: [] => Some ([], true)
  | Safe n :: r' => match unsafe r' with Some (p, b) => Some (n :: p, b) | None => None end
  | _ => None
  end.
Definition fs_of (sigma : ST.store) : fs :=
  {| look := fun q => match q with
                      | [] => Some D
                      | Root :: r => match unsafe r with
                                     | Some (p, false) => nview sigma p
                                     | Some (p, true) => match ST.lookup sigma p with
                                                         | Some c => Some (F (pcode (ST.c_tag c) (ST.c_props c)))
                                                         | None => None
                                                         end
                                     | None => None
                                     end
                      | _ => None
                      end;
     dom := [] |}.
