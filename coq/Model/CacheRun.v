(* Model/CacheRun.v -- runs Model/Cache.v on a script recorded from the real server (correspondence, tie K).
   D := N (ids of derived tuples handed out by the harness), derive := a table computed by the harness with a
   cold parse of each content.  The script is the sequence of storage calls the real server made (with their
   arguments), the manipulations done between requests and the configuration switches; the output is what the
   model predicts for each of them, encoded as lists of numbers. *)
From Coq Require Import List NArith Bool.
Import ListNotations.
Require Import RV.Model.Cache.
Open Scope N_scope.

Definition table := list (content * option N).

Fixpoint tlook (t : table) (b : content) : option N :=
  match t with
  | [] => None
  | (b', d) :: r => if N.eqb b' b then d else tlook r b
  end.

(* the real derive does not depend on the cache version string *)
Definition tderive (t : table) (_ : N) (b : content) : option N := tlook t b.

Inductive act :=
| XCfg (g : cfg)                                   (* (re)configuration *)
| XLock (lk : lockmode)                            (* lock mode held during the following calls *)
| XOp (o : @sop N)                                 (* a storage call *)
| XGetAt (obj : N) (c : coll) (h : href) (l : list (@adv N))
                                                   (* _get during which somebody else manipulates the cache between
                                                      the first look-up and the re-check under the cache lock *)
| XAdv (a : @adv N)                                (* manipulation between requests *)
| XExt (c : coll) (h : href) (of : option file)    (* item file written / removed by other means *)
| XDump (keys : list ekey).                        (* observe the cache *)

Record xst := mkX { x_g : cfg; x_lk : lockmode; x_r : @rst N }.

Definition key_code (k : ckey) : list N :=
  match k with KHash v b => [1; v; b] | KStat v s m => [2; v; s; m] end.

Definition entry_code (e : option (@entry N)) : list N :=
  match e with
  | None => [0]
  | Some (EOk k d) => key_code k ++ [d]
  | Some EGarbage => [3]
  | Some EEmpty => [4]
  end.

Definition ev_code (e : ev) : list N :=
  match e with
  | EvHit => [10] | EvMiss => [11] | EvHit2 => [12] | EvStore k => 13 :: key_code k
  | EvClean => [14] | EvBroken => [15] | EvRaise => [16] | EvStoreFail => [17]
  end.

(* None of the real _get = absent or skipped *)
Definition gres_code (r : @gres N) : list N :=
  match r with GAbsent => [0] | GItem d => [1; d] | GSkip => [0] | GFail => [3] end.

Fixpoint insert_sorted (x : N) (l : list N) : list N :=
  match l with
  | [] => [x]
  | y :: r => if N.leb x y then x :: l else y :: insert_sorted x r
  end.
Definition sort_N (l : list N) : list N := fold_right insert_sorted [] l.

Definition sres_code (a : @sres N) (evs : list ev) : list N :=
  match a with
  | RGet r => gres_code r ++ concat (map ev_code evs)
  | RNames l => 30 :: sort_N l
  | RDone => [40]
  | RError => [50]
  end.

Definition step (t : table) (x : xst) (a : act) : xst * list N :=
  match a with
  | XCfg g => (mkX g (x_lk x) (x_r x), [])
  | XLock lk => (mkX (x_g x) lk (x_r x), [])
  | XOp o => let '(res, evs, r') := exec_op (tderive t) (x_g x) (x_lk x) o (x_r x) in
             (mkX (x_g x) (x_lk x) r', sres_code res evs)
  | XGetAt obj c h l =>
      let r := x_r x in
      let ca2 := fold_left (fun ca a => adv_apply a ca) l (s_cache (r_st r)) in
      let o := get_at (tderive t) (x_g x) (x_lk x) (is_cleaned (r_cleaned r) obj) (s_files (r_st r))
                      (s_cache (r_st r)) ca2 c h in
      (mkX (x_g x) (x_lk x)
           (mkRst (mkSt (s_files (r_st r)) (o_cache o))
                  (if o_cleaned o then (if is_cleaned (r_cleaned r) obj then r_cleaned r else obj :: r_cleaned r)
                   else r_cleaned r)),
       gres_code (o_res o) ++ concat (map ev_code (o_evs o)))
  | XAdv a => (mkX (x_g x) (x_lk x)
                   (mkRst (mkSt (s_files (r_st (x_r x))) (adv_apply a (s_cache (r_st (x_r x))))) (r_cleaned (x_r x))), [])
  | XExt c h of => (mkX (x_g x) (x_lk x) (mkRst (ext_edit (r_st (x_r x)) c h of) (r_cleaned (x_r x))), [])
  | XDump keys =>
      let ca := s_cache (r_st (x_r x)) in
      (x, N.of_nat (List.length ca) ::
          concat (map (fun k => match k with (l, c, h) => entry_code (clook ca l c h) end) keys))
  end.

Fixpoint steps (t : table) (x : xst) (l : list act) : list (list N) :=
  match l with
  | [] => []
  | a :: r => let '(x', o) := step t x a in o :: steps t x' r
  end.

Definition x0 : xst := mkX (mkCfg MHash LIn 0 true true) LkW (mkRst (mkSt [] []) []).

Definition run_script (in_ : table * list act) : list (list N) := steps (fst in_) x0 (snd in_).

Fixpoint eq_lN (a b : list N) : bool :=
  match a, b with
  | [], [] => true
  | x :: r, y :: s => N.eqb x y && eq_lN r s
  | _, _ => false
  end.
Fixpoint eq_llN (a b : list (list N)) : bool :=
  match a, b with
  | [], [] => true
  | x :: r, y :: s => eq_lN x y && eq_llN r s
  | _, _ => false
  end.

(* index of the first differing observation (for the harness's report), or the length when equal *)
Fixpoint first_diff (a b : list (list N)) (i : N) : N :=
  match a, b with
  | x :: r, y :: s => if eq_lN x y then first_diff r s (N.succ i) else i
  | _, _ => i
  end.
