(* C14 -- whole-collection upload of a calendar (radicale/app/put.py, prepare(), the branch
   `write_whole_collection and tag == "VCALENDAR"`): the components of the uploaded VCALENDAR are grouped
   by UID, one stored object per group.  This is the code WITH the fix
   notes/fixes/C14-put-keep-vtimezones.patch (the uploaded VTIMEZONE definitions referenced by a group are
   attached to it); `split_unfixed` is the pinned code, which attaches nothing and leaves the time zones
   to vobject's generator.  No proofs in this file. *)
From Coq Require Import List NArith Bool String.
Import ListNotations.
Require Import RV.Lib.PyStr RV.Model.ContentLine RV.Model.Export.
Open Scope N_scope.

Inductive ckind := KEvent | KTodo | KJournal | KOther.
Definition ckind_eqb (a b : ckind) : bool :=
  match a, b with KEvent, KEvent | KTodo, KTodo | KJournal, KJournal | KOther, KOther => true | _, _ => false end.

(* a VEVENT/VTODO/VJOURNAL (or other) child of the uploaded VCALENDAR, after check_and_sanitize_items
   (every main component has a UID by then); c_data = its serialised lines *)
Record vcomp := mkComp { c_kind : ckind; c_uid : pystr; c_tzrefs : list pystr; c_data : block }.
Record vtz := mkTz { z_tzid : option pystr; z_data : block }.
Record upload := mkUpload { u_tzs : list vtz; u_comps : list vcomp }.

(* for content in ("vevent", "vtodo", "vjournal"): vobject_components.extend(getattr(item, content + "_list", [])) *)
Definition of_kind (k : ckind) (l : list vcomp) := filter (fun c => ckind_eqb (c_kind c) k) l.
Definition collect (u : upload) : list vcomp :=
  of_kind KEvent (u_comps u) ++ of_kind KTodo (u_comps u) ++ of_kind KJournal (u_comps u).

(* sorted(vobject_components, key=get_uid): stable, code-point order *)
Fixpoint insert_by_uid (c : vcomp) (l : list vcomp) : list vcomp :=
  match l with
  | [] => [c]
  | h :: t => if str_ltb (c_uid h) (c_uid c) then h :: insert_by_uid c t else c :: l
  end.
Definition sort_by_uid (l : list vcomp) : list vcomp := fold_right insert_by_uid [] l.

(* itertools.groupby(..., get_uid): maximal runs of equal UID *)
Fixpoint group_by_uid (l : list vcomp) : list (pystr * list vcomp) :=
  match l with
  | [] => []
  | c :: r =>
      match group_by_uid r with
      | (u, g) :: gs => if eqs u (c_uid c) then (u, c :: g) :: gs else (c_uid c, [c]) :: (u, g) :: gs
      | [] => [(c_uid c, [c])]
      end
  end.

Fixpoint remove_str (x : pystr) (l : list pystr) : list pystr :=
  match l with [] => [] | y :: r => if eqs x y then remove_str x r else y :: remove_str x r end.

(* fix: for vobject_timezone in vobject_timezones: if tzid in tzids: tzids.remove(tzid); add *)
Fixpoint attach (tzs : list vtz) (wanted : list pystr) : list vtz :=
  match tzs with
  | [] => []
  | z :: r =>
      match z_tzid z with
      | Some t => if mem_str t wanted then z :: attach r (remove_str t wanted) else attach r wanted
      | None => attach r wanted
      end
  end.

Record group := mkGroup { g_uid : pystr; g_comps : list vcomp; g_tzs : list vtz }.

Definition split (u : upload) : list group :=
  map (fun ug => mkGroup (fst ug) (snd ug) (attach (u_tzs u) (flat_map c_tzrefs (snd ug))))
      (group_by_uid (sort_by_uid (collect u))).

Definition split_unfixed (u : upload) : list group :=
  map (fun ug => mkGroup (fst ug) (snd ug) []) (group_by_uid (sort_by_uid (collect u))).

(* the stored object of a group, in the vocabulary of Export.v: VERSION/PRODID lines, then the VTIMEZONE
   blocks, then the component blocks (vobject's order: by kind name; irrelevant for the theorems) *)
Definition item_of_group (props : list line) (g : group) : item :=
  mkItem props (map z_data (g_tzs g) ++ map c_data (g_comps g)).
