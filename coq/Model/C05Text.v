(* C05: models of the Python text functions used by the request gate and the htpasswd
   back-end that are not in Lib/PyStr.v.  Validated differentially against CPython by
   checks/C05.py (suite "text": exhaustive over all code points for py_isspace).
   No proofs in this file. *)
From Coq Require Import List NArith Bool String.
Import ListNotations.
Require Import RV.Lib.PyStr.
Open Scope N_scope.

(* str.isspace() for one code point (CPython 3.12 table) *)
Definition py_isspace (c : N) : bool :=
  ((9 <=? c) && (c <=? 13)) || ((28 <=? c) && (c <=? 32)) || (c =? 133) || (c =? 160)
  || (c =? 5760) || ((8192 <=? c) && (c <=? 8202)) || (c =? 8232) || (c =? 8233)
  || (c =? 8239) || (c =? 8287) || (c =? 12288).

(* s.lstrip() / s.strip() without argument *)
Fixpoint py_lstrip (s : pystr) : pystr :=
  match s with
  | x :: r => if py_isspace x then py_lstrip r else s
  | [] => []
  end.
Definition py_rstrip (s : pystr) : pystr := rev (py_lstrip (rev s)).
Definition py_strip (s : pystr) : pystr := py_rstrip (py_lstrip s).

Definition is_ascii (s : pystr) : bool := forallb (fun c => c <? 128) s.

Definition colon : N := 58.
Definition at_sign : N := 64.
Definition hash_sign : N := 35.
Definition dollar : N := 36.
Definition LF : N := 10.
Definition CR : N := 13.

(* universal-newline translation of text-mode open(): "\r\n" -> "\n", "\r" -> "\n" *)
Fixpoint translate_newlines (s : pystr) : pystr :=
  match s with
  | [] => []
  | x :: r =>
      if x =? CR then
        match r with
        | y :: r' => if y =? LF then LF :: translate_newlines r' else LF :: translate_newlines r
        | [] => [LF]
        end
      else x :: translate_newlines r
  end.

(* the lines `for line in f: line = line.rstrip("\n")` yields; a final empty piece (text ending in
   "\n", or empty text) is included here -- it is blank and therefore ignored by every caller *)
Definition file_lines (text : pystr) : list pystr := split_on LF (translate_newlines text).
