(* C18 -- executable model of the URL handling of Radicale.

   Strings are `pystr` (list of code points, Lib/PyStr.v); byte strings are lists of N < 256.
   Part 1 models the CPython functions the code calls (UTF-8 codec with errors='strict' on
   encoding and errors='replace' on decoding, urllib.parse.quote / unquote / urlparse(...).path
   of CPython 3.12); these are validated differentially against CPython by checks/C18.py.
   Part 2 models the Radicale code that reads or emits URLs (the FIXED code, see notes/C18.md:
   fixes C18-move-unquote, C18-redirect-quote, C18-prefix-boundary):
     radicale/server.py            RequestHandler.get_environ            pathinfo_of_target
     radicale/app/__init__.py      _handle_request, prefix selection     select_base, request_path, front
     radicale/app/report.py        xml_report, multiget hrefs            decode_multiget
     radicale/app/move.py          do_MOVE, Destination                  decode_destination
     radicale/xmlutils.py          make_href                             make_href (tie T: Gen/UrlGen.v)
     radicale/httputils.py         redirect                              redirect_location
     radicale/app/get.py           do_GET redirects                      get_redirect
   No proofs in this file. *)
From Coq Require Import List NArith Bool String.
Import ListNotations.
Require Import RV.Lib.PyStr RV.Model.Path.
Open Scope N_scope.

(* ------------------------------------------------------------------ 1a. UTF-8 *)
Definition is_surrogate (c : N) : bool := (55296 <=? c) && (c <=? 57343).
(* a Unicode scalar value: what str.encode('utf-8', 'strict') accepts *)
Definition valid_cp (c : N) : bool := negb (is_surrogate c) && (c <=? 1114111).
Definition is_byte (b : N) : bool := b <? 256.

Definition utf8_enc_cp (c : N) : list N :=
  if c <? 128 then [c]
  else if c <? 2048 then [192 + c / 64; 128 + c mod 64]
  else if c <? 65536 then [224 + c / 4096; 128 + (c / 64) mod 64; 128 + c mod 64]
  else [240 + c / 262144; 128 + (c / 4096) mod 64; 128 + (c / 64) mod 64; 128 + c mod 64].

(* str.encode('utf-8') ; None = UnicodeEncodeError (lone surrogate) *)
Fixpoint utf8_encode (s : pystr) : option (list N) :=
  match s with
  | [] => Some []
  | c :: r => if valid_cp c
              then match utf8_encode r with Some b => Some (utf8_enc_cp c ++ b) | None => None end
              else None
  end.

Definition cont (b : N) : bool := (128 <=? b) && (b <=? 191).
Definition repl : N := 65533.

(* bytes.decode('utf-8', 'replace'), CPython's decoder: one U+FFFD per maximal invalid prefix
   (Objects/stringlib/codecs.h utf8_decode + the 'replace' handler of unicode_decode_utf8). *)
Fixpoint utf8_decode (b : list N) : pystr :=
  match b with
  | [] => []
  | c :: t =>
    if c <? 128 then c :: utf8_decode t
    else if c <? 194 then repl :: utf8_decode t
    else if c <? 224 then
      match t with
      | [] => [repl]
      | c2 :: t2 => if cont c2 then ((c - 192) * 64 + (c2 - 128)) :: utf8_decode t2
                    else repl :: utf8_decode t
      end
    else if c <? 240 then
      match t with
      | [] => [repl]
      | c2 :: t2 =>
        if negb (cont c2) || (if c2 <? 160 then c =? 224 else c =? 237) then repl :: utf8_decode t
        else match t2 with
             | [] => [repl]
             | c3 :: t3 => if cont c3
                           then ((c - 224) * 4096 + (c2 - 128) * 64 + (c3 - 128)) :: utf8_decode t3
                           else repl :: utf8_decode t2
             end
      end
    else if c <? 245 then
      match t with
      | [] => [repl]
      | c2 :: t2 =>
        if negb (cont c2) || (if c2 <? 144 then c =? 240 else c =? 244) then repl :: utf8_decode t
        else match t2 with
             | [] => [repl]
             | c3 :: t3 =>
               if negb (cont c3) then repl :: utf8_decode t2
               else match t3 with
                    | [] => [repl]
                    | c4 :: t4 => if cont c4
                                  then ((c - 240) * 262144 + (c2 - 128) * 4096 + (c3 - 128) * 64 + (c4 - 128))
                                       :: utf8_decode t4
                                  else repl :: utf8_decode t3
                    end
             end
      end
    else repl :: utf8_decode t
  end.

(* ------------------------------------------------------------------ 1b. percent coding *)
Definition is_upper (c : N) : bool := (65 <=? c) && (c <=? 90).
Definition is_lower (c : N) : bool := (97 <=? c) && (c <=? 122).
Definition is_digit (c : N) : bool := (48 <=? c) && (c <=? 57).
(* urllib.parse._ALWAYS_SAFE *)
Definition is_unreserved (c : N) : bool :=
  is_upper c || is_lower c || is_digit c || (c =? 95) || (c =? 46) || (c =? 45) || (c =? 126).
(* quote(..., safe='/') *)
Definition quote_safe (c : N) : bool := is_unreserved c || (c =? 47).
Definition percent : N := 37.
Definition hexdig_upper (n : N) : N := if n <? 10 then 48 + n else 55 + n.
Definition quote_byte (b : N) : pystr :=
  if quote_safe b then [b] else [percent; hexdig_upper (b / 16); hexdig_upper (b mod 16)].
Definition quote_from_bytes (bs : list N) : pystr := flat_map quote_byte bs.
(* urllib.parse.quote(s) with the defaults; None = UnicodeEncodeError *)
Definition quote (s : pystr) : option pystr :=
  match utf8_encode s with Some b => Some (quote_from_bytes b) | None => None end.

Definition hexval (c : N) : option N :=
  if is_digit c then Some (c - 48)
  else if (65 <=? c) && (c <=? 70) then Some (c - 55)
  else if (97 <=? c) && (c <=? 102) then Some (c - 87)
  else None.

(* urllib.parse.unquote_to_bytes on a byte string: malformed % sequences are kept literally *)
Fixpoint unquote_to_bytes (b : list N) : list N :=
  match b with
  | [] => []
  | c :: t =>
    if c =? percent then
      match t with
      | h1 :: h2 :: r =>
        match hexval h1, hexval h2 with
        | Some a, Some d => (16 * a + d) :: unquote_to_bytes r
        | _, _ => percent :: unquote_to_bytes t
        end
      | _ => percent :: unquote_to_bytes t
      end
    else c :: unquote_to_bytes t
  end.

(* urllib.parse.unquote(s): maximal ASCII runs are unquoted to bytes and decoded with
   errors='replace'; non-ASCII characters are kept and separate the runs. *)
Definition flush_run (run_rev : list N) : pystr := utf8_decode (unquote_to_bytes (rev run_rev)).
Fixpoint unquote_runs (s : pystr) (run_rev : list N) : pystr :=
  match s with
  | [] => flush_run run_rev
  | c :: r => if c <? 128 then unquote_runs r (c :: run_rev)
              else flush_run run_rev ++ c :: unquote_runs r []
  end.
Definition unquote (s : pystr) : pystr :=
  if contains_char percent s then unquote_runs s [] else s.

(* ------------------------------------------------------------------ 1c. urllib.parse.urlparse *)
Fixpoint lstrip_c0 (s : pystr) : pystr :=
  match s with c :: r => if c <=? 32 then lstrip_c0 r else s | [] => [] end.
Definition remove_unsafe (s : pystr) : pystr :=
  filter (fun c => negb ((c =? 9) || (c =? 10) || (c =? 13))) s.
Definition is_ascii_alpha (c : N) : bool := is_upper c || is_lower c.
Definition scheme_char (c : N) : bool := is_ascii_alpha c || is_digit c || (c =? 43) || (c =? 45) || (c =? 46).
Definition colon : N := 58.

(* (lower-cased scheme, rest) ; scheme [] when none is recognised *)
Definition split_scheme (url : pystr) : pystr * pystr :=
  match split1 colon url with
  | (c0 :: pre, Some rest) =>
      if is_ascii_alpha c0 && forallb scheme_char (c0 :: pre) then (lower_ascii (c0 :: pre), rest) else ([], url)
  | _ => ([], url)
  end.

Definition netloc_delim (c : N) : bool := (c =? 47) || (c =? 63) || (c =? 35).
Fixpoint span_netloc (s : pystr) : pystr * pystr :=
  match s with
  | [] => ([], [])
  | c :: r => if netloc_delim c then ([], s) else let '(a, b) := span_netloc r in (c :: a, b)
  end.

(* (text up to and including the last '/', last segment) *)
Fixpoint last_seg_split (s : pystr) : pystr * pystr :=
  match s with
  | [] => ([], [])
  | c :: r => let '(h, l) := last_seg_split r in
              match h with
              | [] => if c =? slash then ([c], l) else ([], c :: l)
              | _ => (c :: h, l)
              end
  end.
(* _splitparams(url)[0] *)
Definition split_params (url : pystr) : pystr :=
  let '(h, l) := last_seg_split url in h ++ fst (split1 59 l).

Definition uses_params : list pystr :=
  [[]; str "ftp"; str "hdl"; str "prospero"; str "http"; str "imap"; str "https"; str "shttp"; str "rtsp";
   str "rtsps"; str "rtspu"; str "sip"; str "sips"; str "mms"; str "sftp"; str "tel"].

Record parsed := { u_scheme : pystr; u_netloc : pystr; u_path : pystr }.
Inductive uresult :=
| UOk (u : parsed)
| UValueError            (* urlparse raises ValueError (unbalanced bracket in the netloc) *)
| UOutside.              (* bracketed or non-ASCII netloc: ipaddress / NFKC checks are not modelled *)

Definition all_ascii (s : pystr) : bool := forallb (fun c => c <? 128) s.

(* urllib.parse.urlsplit: scheme, netloc, path *)
Definition urlsplit (url0 : pystr) : uresult :=
  let url := remove_unsafe (lstrip_c0 url0) in
  let '(scheme, url) := split_scheme url in
  let '(netloc, url) := if startswith url [slash; slash] then span_netloc (skipn 2 url) else ([], url) in
  let ob := contains_char 91 netloc in
  let cb := contains_char 93 netloc in
  if (ob && negb cb) || (cb && negb ob) then UValueError
  else if ob || negb (all_ascii netloc) then UOutside
  else
    let url := fst (split1 35 url) in
    let url := fst (split1 63 url) in
    UOk {| u_scheme := scheme; u_netloc := netloc; u_path := url |}.

(* urllib.parse.urlparse: urlsplit, then ";params" of the last segment are cut off the path *)
Definition urlparse (url0 : pystr) : uresult :=
  match urlsplit url0 with
  | UOk u => UOk {| u_scheme := u_scheme u; u_netloc := u_netloc u;
                    u_path := if mem_str (u_scheme u) uses_params && contains_char 59 (u_path u)
                              then split_params (u_path u) else u_path u |}
  | r => r
  end.

Definition urlsplit_path (url : pystr) : option pystr :=
  match urlsplit url with UOk u => Some (u_path u) | _ => None end.

(* ------------------------------------------------------------------ 2a. emission *)
(* xmlutils.make_href (hand model; Gen/UrlGen.v is regenerated from the source and proved equal) *)
Definition make_href (base_prefix href : pystr) : option pystr := quote (base_prefix ++ href).
(* httputils.redirect: the Location header *)
Definition redirect_location (location : pystr) : option pystr := quote location.

(* ------------------------------------------------------------------ 2b. reading: request line *)
Definition qmark : N := 63.
(* server.py RequestHandler.get_environ: PATH_INFO = unquote(self.path.split("?", 1)[0]) *)
Definition pathinfo_of_target (target : pystr) : pystr := unquote (fst (split1 qmark target)).

Inductive bsel := BOk (base : pystr) | BBadRequest | BInternalError.
(* _handle_request: base prefix selection.  cfg = [server] script_name ('' when unset),
   x_script = HTTP_X_SCRIPT_NAME (None when absent), script = SCRIPT_NAME (None when absent) *)
Definition select_base (cfg : pystr) (reverse_proxy : bool) (x_script script : option pystr) : bsel :=
  if nonempty cfg && reverse_proxy then BOk cfg
  else
    let '(from_x, raw) := match x_script with
                          | Some v => (true, v)
                          | None => (false, match script with Some v => v | None => [] end)
                          end in
    if nonempty raw && negb (startswith raw [slash]) then (if from_x then BBadRequest else BInternalError)
    else BOk (if endswith raw [slash] then rstrip_char slash raw else raw).

(* "(a + "/").startswith(b + "/")" and "a[len(b):]" *)
Definition under_prefix (base p : pystr) : bool := startswith (p ++ [slash]) (base ++ [slash]).
Definition drop_prefix (base p : pystr) : pystr := skipn (List.length base) p.

(* the prefix rule of all three reading sites (fixed code): below the prefix at a component boundary;
   the prefix itself denotes the root "/" *)
Definition strip_prefix (base p : pystr) : option pystr :=
  if under_prefix base p
  then Some (let r := drop_prefix base p in if nonempty r then r else [slash])
  else None.

(* _handle_request: sanitised path, prefix stripped when called by a reverse proxy *)
Definition request_path (reverse_proxy : bool) (base pathinfo : pystr) : pystr :=
  let path := sanitize_path pathinfo in
  if reverse_proxy && nonempty base then
    match strip_prefix base path with Some r => r | None => path end
  else path.

(* the same, as the code was before fix C18-prefix-boundary (kept for the regression witness) *)
Definition request_path_legacy (reverse_proxy : bool) (base pathinfo : pystr) : pystr :=
  let path := sanitize_path pathinfo in
  if reverse_proxy && nonempty base then
    if startswith path base then drop_prefix base path else path
  else path.

Inductive front :=
| FCall (base path : pystr)          (* do_METHOD(environ, base_prefix, path, user) is called *)
| FRedirect (location : option pystr) (* 301 to the root collection; None = quote raised *)
| FNotFound
| FBadRequest
| FInternalError.

Definition well_known (path : pystr) : bool :=
  let p := rstrip_char slash path in
  endswith p (str "/.well-known/caldav") || endswith p (str "/.well-known/carddav").
Definition well_known_other (path : pystr) : bool :=
  endswith path (str "/.well-known") || contains_sub (str "/.well-known/") path.

(* _handle_request up to the dispatch, for a method the application knows *)
Definition front_end (cfg : pystr) (reverse_proxy : bool) (x_script script : option pystr) (pathinfo : pystr) : front :=
  match select_base cfg reverse_proxy x_script script with
  | BBadRequest => FBadRequest
  | BInternalError => FInternalError
  | BOk base =>
      let path := request_path reverse_proxy base pathinfo in
      if well_known path then FRedirect (redirect_location (base ++ [slash]))
      else if well_known_other path then FNotFound
      else FCall base path
  end.

(* do_GET: Some location when the request is answered by a redirect issued in get.py itself *)
Definition removeprefix (s p : pystr) : pystr := if startswith s p then skipn (List.length p) s else s.
Definition get_redirect (base path pathinfo : pystr) : option (option pystr) :=
  if negb (nonempty (strip_path path)) then Some (redirect_location (base ++ str "/.web"))
  else if eqs path (str "/.web") || startswith path (str "/.web/") then
    let unsafe_path := if nonempty base then removeprefix pathinfo base else pathinfo in
    if negb (eqs unsafe_path path) then Some (redirect_location (base ++ path)) else None
  else None.

(* web/none.py Web.get (called for "/.web" and below): everything but "/.web" itself is redirected there *)
Definition web_none_redirect (base path : pystr) : option (option pystr) :=
  if negb (eqs path (str "/.web")) then Some (redirect_location (base ++ str "/.web")) else None.
(* do_GET with [web] type = none: the Location of the answer when it is a redirect *)
Definition get_location (base path pathinfo : pystr) : option (option pystr) :=
  match get_redirect base path pathinfo with
  | Some l => Some l
  | None => if eqs path (str "/.web") || startswith path (str "/.web/") then web_none_redirect base path else None
  end.

(* ------------------------------------------------------------------ 2c. reading: hrefs in bodies and headers *)
Inductive dres :=
| DOk (path : pystr)       (* the storage path the URL denotes *)
| DSkip                    (* not below the base prefix: multiget skips it, MOVE answers 403 *)
| DRemote                  (* MOVE: other host: 502 *)
| DRaise                   (* ValueError out of urlparse / .port: 500 *)
| DOutside.                (* outside the model (bracketed / non-ASCII netloc) *)

Definition strip_base (base p : pystr) : dres :=
  match strip_prefix base p with Some r => DOk r | None => DSkip end.
(* before fix C18-prefix-boundary: "" instead of "/" for the prefix itself *)
Definition strip_base_legacy (base p : pystr) : dres :=
  if under_prefix base p then DOk (drop_prefix base p) else DSkip.

(* report.py xml_report: urlsplit(href).path -> unquote -> sanitize_path -> strip base prefix
   (fixed code; before fix C18-urlsplit it was urlparse, which cuts ";params" off the last segment) *)
Definition decode_multiget (base href : pystr) : dres :=
  match urlsplit href with
  | UOk u => strip_base base (sanitize_path (unquote (u_path u)))
  | UValueError => DRaise
  | UOutside => DOutside
  end.

(* urllib.parse: SplitResult.port on a netloc without brackets: None = ValueError,
   Some None = no port, Some (Some n) = port n *)
Fixpoint after_last_at (s : pystr) : pystr :=
  match s with
  | [] => []
  | c :: r => if contains_char 64 r then after_last_at r else if c =? 64 then r else s
  end.
Definition dec_value (s : pystr) : N := fold_left (fun acc c => acc * 10 + (c - 48)) s 0.
Definition url_port (netloc : pystr) : option (option N) :=
  match snd (split1 colon (after_last_at netloc)) with
  | None | Some [] => Some None
  | Some port => if forallb is_digit port
                 then (if dec_value port <=? 65535 then Some (Some (dec_value port)) else None)
                 else None
  end.

(* do_MOVE: to_url.netloc, with the scheme's default port appended when to_url.port is None;
   None = .port raises ValueError *)
Definition netloc_with_port (scheme netloc : pystr) : option pystr :=
  match url_port netloc with
  | None => None
  | Some (Some _) => Some netloc
  | Some None => Some (netloc ++ (if eqs scheme (str "https") then str ":443" else str ":80"))
  end.

(* the multiget decoding before fix C18-urlsplit *)
Definition decode_multiget_legacy (base href : pystr) : dres :=
  match urlparse href with
  | UOk u => strip_base_legacy base (sanitize_path (unquote (u_path u)))
  | UValueError => DRaise
  | UOutside => DOutside
  end.

(* move.py do_MOVE (fixed code: urlsplit, and the path is percent-decoded like everywhere else).
   server_netloc = get_server_netloc(environ, force_port=True) *)
Definition decode_destination (server_netloc base dest : pystr) : dres :=
  match urlsplit dest with
  | UValueError => DRaise
  | UOutside => DOutside
  | UOk u =>
      match netloc_with_port (u_scheme u) (u_netloc u) with
      | None => DRaise
      | Some with_port =>
          if negb (eqs with_port server_netloc) then DRemote
          else strip_base base (sanitize_path (unquote (u_path u)))
      end
  end.

(* do_MOVE before the fixes C18-move-unquote and C18-urlsplit (kept for the regression witnesses) *)
Definition decode_destination_legacy (server_netloc base dest : pystr) : dres :=
  match urlparse dest with
  | UValueError => DRaise
  | UOutside => DOutside
  | UOk u =>
      match netloc_with_port (u_scheme u) (u_netloc u) with
      | None => DRaise
      | Some with_port =>
          if negb (eqs with_port server_netloc) then DRemote
          else strip_base_legacy base (sanitize_path (u_path u))
      end
  end.

(* ------------------------------------------------------------------ grammar of emitted URLs *)
Definition is_hex_upper (c : N) : bool := is_digit c || ((65 <=? c) && (c <=? 70)).
(* ( unreserved | "/" | "%" HEXDIG HEXDIG )*  -- RFC 3986 path characters, upper-case escapes *)
Fixpoint wf_quoted (s : pystr) : bool :=
  match s with
  | [] => true
  | c :: t =>
    if c =? percent then
      match t with
      | h1 :: h2 :: r => is_hex_upper h1 && is_hex_upper h2 && wf_quoted r
      | _ => false
      end
    else quote_safe c && wf_quoted t
  end.

(* equality tests used by the correspondence files *)
Definition eq_opt_str (a b : option pystr) : bool :=
  match a, b with Some x, Some y => eqs x y | None, None => true | _, _ => false end.
