(* C11 -- model of radicale/pathutils.py : class RwLock (flock-based), for an ARBITRARY number of processes
   and threads.  Definitions only.

   Every process has its own RwLock object (fields _lock, _readers, _writer); the kernel's flock state on the
   lock file is shared by all threads of all processes.  Each acquisition opens the file anew, so each
   acquisition owns a separate open file description: flock locks of two threads of ONE process conflict
   exactly like those of two processes.  The kernel is modelled as an abstract readers-writer lock that grants
   requests in any order: k_sh / k_ex count the open file descriptions holding LOCK_SH / LOCK_EX; flock(LOCK_SH)
   returns when k_ex = 0, flock(LOCK_EX) when k_sh = k_ex = 0; close() of the descriptor drops its lock.
   (Assumed: flock does not fail with OSError; the win32 branch is not modelled.)

   Python (acquire, posix branch)                      pc
     with open(self._path, "w+") as lock_file:         (fresh descriptor: implicit)
       fcntl.flock(lock_file.fileno(), _cmd)           F_Flock      [blocks until compatible]
       with self._lock:                                F_Lock1      mutex.acquire()        [blocks while owned]
         if self._writer or mode == "w" and
            self._readers != 0: raise RuntimeError     F_Check      -> F_RaiseUnlock | F_Upd
         if mode == "r": self._readers += 1
         else: self._writer = True                     F_Upd
       (end of with self._lock)                        F_Unlock1    mutex.release()
       yield                                           F_InCS       (critical section; may call `locked` q times)
       with self._lock:                                F_InCS       mutex.acquire()        [blocks while owned]
         if mode == "r": self._readers -= 1
         self._writer = False                          FR_Upd
       (end of with self._lock)                        FR_Unlock    mutex.release()
     (end of with open)                                FR_Close     close(fd): the flock lock is dropped
   error path: (end of with self._lock)                F_RaiseUnlock  mutex.release()
               (end of with open)                      F_RaiseClose   close(fd)
               RuntimeError propagates                 F_Failed
   `locked`:  with self._lock: ...                     F_InCS / FQ_Read / FQ_Unlock (as in RwLockCond.v)
*)
From Coq Require Import List Arith Bool ZArith Uint63.
Import ListNotations.
Require Import RV.Model.C11Base.
Open Scope Z_scope.

(* fc_fail: the environment makes flock() raise OSError (ENOLCK, EIO, ...) for this acquisition: the attempt fails *)
Record fcycle := FCy { fc_mode : mode; fc_q : nat; fc_fail : bool }.

Inductive fpc :=
| F_Flock | F_Lock1 | F_Check | F_Upd | F_Unlock1
| F_InCS | FQ_Read | FQ_Unlock
| FR_Upd | FR_Unlock | FR_Close
| F_RaiseUnlock | F_RaiseClose | F_Failed
| F_FailClose     (* flock raised OSError -> RuntimeError: the `with open` block is left, the descriptor closed *)
| F_Done.

Inductive flval := FLNone | FLR | FLW | FLFree.

Record fthread := FTh {
  f_pc : fpc;
  f_proc : nat;            (* the process this thread belongs to *)
  f_mode : mode;
  f_q : nat;
  f_fail : bool;           (* flock of the current acquisition raises OSError *)
  f_todo : list fcycle;
  f_seen : flval
}.

Record pstate := PS {      (* one RwLock object *)
  p_mutex : option nat;    (* owner of RwLock._lock *)
  p_readers : Z;           (* RwLock._readers *)
  p_writer : bool          (* RwLock._writer *)
}.
Definition pdef := PS None 0 false.

Record fgst := FG {
  k_sh : nat;              (* kernel: descriptors holding LOCK_SH on the lock file *)
  k_ex : nat;              (* kernel: descriptors holding LOCK_EX *)
  procs : list pstate
}.

Definition kcompat (m : mode) (g : fgst) : bool :=
  match m with R => Nat.eqb (k_ex g) 0 | W => Nat.eqb (k_ex g) 0 && Nat.eqb (k_sh g) 0 end.
Definition kgrant (m : mode) (g : fgst) : fgst :=
  match m with R => FG (S (k_sh g)) (k_ex g) (procs g) | W => FG (k_sh g) (S (k_ex g)) (procs g) end.
Definition kclose (m : mode) (g : fgst) : fgst :=
  match m with R => FG (Nat.pred (k_sh g)) (k_ex g) (procs g) | W => FG (k_sh g) (Nat.pred (k_ex g)) (procs g) end.

Definition proc_of (g : fgst) (p : nat) : pstate := nth p (procs g) pdef.
Definition set_proc (g : fgst) (p : nat) (ps : pstate) : fgst := FG (k_sh g) (k_ex g) (upd p ps (procs g)).

(* the guard of the RuntimeError("Guarantees failed") branch *)
Definition guard_fails (m : mode) (ps : pstate) : bool :=
  p_writer ps || (match m with W => negb (Z.eqb (p_readers ps) 0) | R => false end).

Definition flocked_val (ps : pstate) : flval :=
  if Z.ltb 0 (p_readers ps) then FLR else if p_writer ps then FLW else FLFree.

Definition fset_pc (th : fthread) (p : fpc) : fthread :=
  FTh p (f_proc th) (f_mode th) (f_q th) (f_fail th) (f_todo th) (f_seen th).
Definition fnext_cycle (th : fthread) : fthread :=
  match f_todo th with
  | [] => FTh F_Done (f_proc th) (f_mode th) 0%nat false [] (f_seen th)
  | c :: r => FTh F_Flock (f_proc th) (fc_mode c) (fc_q c) (fc_fail c) r (f_seen th)
  end.
Definition set_pmutex (ps : pstate) (o : option nat) : pstate := PS o (p_readers ps) (p_writer ps).

Definition ftstep (t : nat) (g : fgst) (th : fthread) : option (fgst * fthread) :=
  let p := f_proc th in
  let ps := proc_of g p in
  match f_pc th with
  | F_Flock =>
      if f_fail th then Some (g, fset_pc th F_FailClose)     (* OSError: no lock, no bookkeeping *)
      else if kcompat (f_mode th) g then Some (kgrant (f_mode th) g, fset_pc th F_Lock1) else None
  | F_Lock1 =>
      match p_mutex ps with
      | None => Some (set_proc g p (set_pmutex ps (Some t)), fset_pc th F_Check)
      | Some _ => None
      end
  | F_Check => Some (g, fset_pc th (if guard_fails (f_mode th) ps then F_RaiseUnlock else F_Upd))
  | F_Upd =>
      Some (set_proc g p (match f_mode th with
                          | R => PS (p_mutex ps) (p_readers ps + 1) (p_writer ps)
                          | W => PS (p_mutex ps) (p_readers ps) true
                          end), fset_pc th F_Unlock1)
  | F_Unlock1 => Some (set_proc g p (set_pmutex ps None), fset_pc th F_InCS)
  | F_InCS =>
      match p_mutex ps with
      | None => Some (set_proc g p (set_pmutex ps (Some t)),
                      fset_pc th (match f_q th with O => FR_Upd | S _ => FQ_Read end))
      | Some _ => None
      end
  | FQ_Read => Some (g, FTh FQ_Unlock p (f_mode th) (Nat.pred (f_q th)) (f_fail th) (f_todo th) (flocked_val ps))
  | FQ_Unlock => Some (set_proc g p (set_pmutex ps None), fset_pc th F_InCS)
  | FR_Upd =>
      Some (set_proc g p (PS (p_mutex ps) (match f_mode th with R => p_readers ps - 1 | W => p_readers ps end) false),
            fset_pc th FR_Unlock)
  | FR_Unlock => Some (set_proc g p (set_pmutex ps None), fset_pc th FR_Close)
  | FR_Close => Some (kclose (f_mode th) g, fnext_cycle th)
  | F_RaiseUnlock => Some (set_proc g p (set_pmutex ps None), fset_pc th F_RaiseClose)
  | F_RaiseClose => Some (kclose (f_mode th) g, fset_pc th F_Failed)
  | F_FailClose => Some (g, fnext_cycle th)                   (* the caller sees RuntimeError and goes on *)
  | F_Failed | F_Done => None
  end.

Definition fstate := @C11Base.state fgst fthread.
Definition fstep : fstate -> nat -> option fstate := C11Base.step ftstep.
Definition frun : list nat -> fstate -> option fstate := C11Base.run ftstep.
Definition frun_n : nat -> nat -> fstate -> option fstate := C11Base.run_n ftstep.
Definition fenabled : fstate -> nat -> bool := C11Base.enabled ftstep.

(* a thread = (process number, program) *)
Definition fstart (pp : nat * list fcycle) : fthread :=
  match snd pp with
  | [] => FTh F_Done (fst pp) R 0%nat false [] FLNone
  | c :: r => FTh F_Flock (fst pp) (fc_mode c) (fc_q c) (fc_fail c) r FLNone
  end.

Definition nprocs (progs : list (nat * list fcycle)) : nat := S (fold_right (fun pp a => Nat.max (fst pp) a) 0%nat progs).

Definition finit (progs : list (nat * list fcycle)) : fstate :=
  St (FG 0 0 (repeat pdef (nprocs progs))) (map fstart progs).

Definition freachable (s : fstate) : Prop := exists progs, reach ftstep (finit progs) s.

(* ------------------------------------------------------------------ vocabulary of the theorems *)
Definition fowns_mutex (p : fpc) : bool :=
  match p with F_Check | F_Upd | F_Unlock1 | FQ_Read | FQ_Unlock | FR_Upd | FR_Unlock | F_RaiseUnlock => true | _ => false end.
(* the descriptor of the current acquisition holds the flock lock *)
Definition flock_pc (p : fpc) : bool :=
  match p with F_Flock | F_Failed | F_FailClose | F_Done => false | _ => true end.
(* the RwLock object counts the thread as a holder *)
Definition fholds_pc (p : fpc) : bool :=
  match p with F_Unlock1 | F_InCS | FQ_Read | FQ_Unlock | FR_Upd => true | _ => false end.
Definition fin_cs_pc (p : fpc) : bool := match p with F_InCS | FQ_Read | FQ_Unlock => true | _ => false end.
Definition failed_pc (p : fpc) : bool := match p with F_RaiseUnlock | F_RaiseClose | F_Failed => true | _ => false end.

Definition fheld (m : mode) (th : fthread) : bool := flock_pc (f_pc th) && mode_eqb (f_mode th) m.
Definition fholds (m : mode) (th : fthread) : bool := fholds_pc (f_pc th) && mode_eqb (f_mode th) m.
Definition fholds_in (p : nat) (m : mode) (th : fthread) : bool := Nat.eqb (f_proc th) p && fholds m th.
Definition fin_cs (m : mode) (th : fthread) : bool := fin_cs_pc (f_pc th) && mode_eqb (f_mode th) m.

(* ------------------------------------------------------------------ correspondence interface (tie K) *)
Definition finternal (th : fthread) : bool :=
  match f_pc th with F_Check | F_Upd | FQ_Read | FR_Upd => true | _ => false end.

Fixpoint fsettle (fuel : nat) (t : nat) (s : fstate) : fstate :=
  match fuel with
  | O => s
  | S f =>
      match nth_error (thr s) t with
      | Some th => if finternal th then match fstep s t with Some s' => fsettle f t s' | None => s end else s
      | None => s
      end
  end.
Definition fmacro (s : fstate) (t : nat) : option fstate :=
  match fstep s t with Some s' => Some (fsettle 4 t s') | None => None end.

Definition fpc_code (p : fpc) : Z :=
  match p with
  | F_Flock => 1 | F_Lock1 => 2 | F_Check => 3 | F_Upd => 4 | F_Unlock1 => 5 | F_InCS => 6 | FQ_Read => 7
  | FQ_Unlock => 8 | FR_Upd => 9 | FR_Unlock => 10 | FR_Close => 11 | F_RaiseUnlock => 12 | F_RaiseClose => 13
  | F_Failed => 14 | F_FailClose => 15 | F_Done => 0
  end.
Definition flval_code (v : flval) : Z := match v with FLNone => 0 | FLR => 1 | FLW => 2 | FLFree => 3 end.
Definition fzb (b : bool) : Z := if b then 1 else 0.
Definition fzopt (o : option nat) : Z := match o with Some t => Z.of_nat t | None => -1 end.

(* observation: [k_sh; k_ex] ++ per process [mutex; _readers; _writer] ++ [-2] ++ per thread [pc; enabled; seen] *)
Definition fobserve (s : fstate) : list Z :=
  let g := glob s in
  [Z.of_nat (k_sh g); Z.of_nat (k_ex g)]
  ++ concat (map (fun ps => [fzopt (p_mutex ps); p_readers ps; fzb (p_writer ps)]) (procs g)) ++ [-2]
  ++ concat (map (fun '(i, th) => [fpc_code (f_pc th); fzb (fenabled s i);
                                    match f_pc th with FQ_Unlock => 9 | _ => flval_code (f_seen th) end])
                 (combine (seq 0 (List.length (thr s))) (thr s))).

Fixpoint ftrace (sched : list nat) (s : fstate) : list (list Z) :=
  match sched with
  | [] => []
  | t :: r => match fmacro s t with
              | Some s' => fobserve s' :: ftrace r s'
              | None => [[-9]]
              end
  end.

(* harness encoding of a cycle: 4*q + 2*(flock fails) + (1 if write) *)
Definition fmk_cycle (x : Z) : fcycle := FCy (if Z.odd x then W else R) (Z.to_nat (x / 4)) (Z.odd (x / 2)).
Definition frun_case (c : list (nat * list Z) * list nat) : list (list Z) :=
  let s0 := finit (map (fun pp => (fst pp, map fmk_cycle (snd pp))) (fst c)) in
  fobserve s0 :: ftrace (snd c) s0.

(* compact form used by the generated correspondence files: schedule and trace packed in 63-bit words *)
Definition frun_case_z (c : list (nat * list Z) * (nat * list Uint63.int)) : list Uint63.int :=
  map Uint63.of_Z (enc_trace (frun_case (fst c, decode_sched (fst (snd c)) (map Uint63.to_Z (snd (snd c)))))).
