(* shlex.quote and the fragment of POSIX sh word lexing needed to state that a quoted string is inert.
   Characters are code points.  No proofs here. *)
From Coq Require Import List NArith Bool String.
Import ListNotations.
Require Import RV.Lib.PyStr.
Open Scope N_scope.

Definition sq : N := 39.  (* single quote *)
Definition dq : N := 34.  (* double quote *)

(* the characters shlex.quote leaves unquoted: word characters (ASCII) and @ % + = : , . / - *)
Definition is_word_ascii (c : N) : bool :=
  ((48 <=? c) && (c <=? 57)) || ((65 <=? c) && (c <=? 90)) || ((97 <=? c) && (c <=? 122)) || (c =? 95).
Definition shlex_safe_char (c : N) : bool :=
  is_word_ascii c || contains_char c (str "@%+=:,./-").

Fixpoint quote_body (s : pystr) : pystr :=         (* every single quote becomes: quote, dquote, quote, dquote, quote *)
  match s with
  | [] => []
  | c :: r => if c =? sq then [sq; dq; sq; dq; sq] ++ quote_body r else c :: quote_body r
  end.

Definition shlex_quote (s : pystr) : pystr :=
  match s with
  | [] => [sq; sq]
  | _ => if forallb shlex_safe_char s then s else [sq] ++ quote_body s ++ [sq]
  end.

(* ---- sh lexing (fragment) ---- *)
Inductive qstate := QNone | QSingle | QDouble.
(* lexer state: finished words (reversed), current word (reversed) if one is open, quoting state *)
Record lex := mkLex { l_done : list pystr; l_cur : option pystr; l_q : qstate }.

Definition is_blank (c : N) : bool := (c =? 32) || (c =? 9) || (c =? 10).
(* characters with a meaning of their own for sh outside quotes *)
Definition is_special (c : N) : bool := contains_char c (str "$`\;&|<>()*?[]{}~#!") .
Definition is_special_dq (c : N) : bool := contains_char c (str "$`\").

Definition push (cur : option pystr) (c : N) : option pystr :=
  Some (match cur with Some w => c :: w | None => [c] end).
Definition open_word (cur : option pystr) : option pystr :=
  match cur with Some w => Some w | None => Some [] end.

(* None = a character with shell meaning was met (expansion, operator ...): not a plain word list *)
Definition lex_step (st : lex) (c : N) : option lex :=
  match l_q st with
  | QSingle => if c =? sq then Some (mkLex (l_done st) (l_cur st) QNone)
               else Some (mkLex (l_done st) (push (l_cur st) c) QSingle)
  | QDouble => if c =? dq then Some (mkLex (l_done st) (l_cur st) QNone)
               else if is_special_dq c then None
               else Some (mkLex (l_done st) (push (l_cur st) c) QDouble)
  | QNone =>
      if c =? sq then Some (mkLex (l_done st) (open_word (l_cur st)) QSingle)
      else if c =? dq then Some (mkLex (l_done st) (open_word (l_cur st)) QDouble)
      else if is_blank c then
        Some (match l_cur st with
              | Some w => mkLex (rev w :: l_done st) None QNone
              | None => st end)
      else if is_special c then None
      else Some (mkLex (l_done st) (push (l_cur st) c) QNone)
  end.

Fixpoint lex_run (st : lex) (s : pystr) : option lex :=
  match s with
  | [] => Some st
  | c :: r => match lex_step st c with Some st' => lex_run st' r | None => None end
  end.

Definition lex_finish (st : lex) : option (list pystr) :=
  match l_q st with
  | QNone => Some (rev (match l_cur st with Some w => rev w :: l_done st | None => l_done st end))
  | _ => None
  end.

Definition sh_words (s : pystr) : option (list pystr) :=
  match lex_run (mkLex [] None QNone) s with Some st => lex_finish st | None => None end.

(* appending the literal characters of s to the current word *)
Definition add_literal (st : lex) (s : pystr) : lex :=
  mkLex (l_done st) (Some (rev s ++ match l_cur st with Some w => w | None => [] end)) (l_q st).
