(* C05: the login-name mapping prefix of radicale/auth/__init__.py BaseAuth.login
   (lc_username / uc_username / strip_domain).  Canonical hand model; tied to the source by
   translation (Gen/LoginMapGen.v, Proofs/GenEqLoginMap.v) and by correspondence.
   Python's Unicode str.lower()/str.upper() are external functions: Section variables. *)
From Coq Require Import List NArith Bool.
Import ListNotations.
Require Import RV.Lib.PyStr RV.Model.C05Text.
Open Scope N_scope.

Section LoginMap.
  Variables py_lower py_upper : pystr -> pystr.

  Definition map_login (lc uc sd : bool) (login : pystr) : pystr :=
    let l1 := if lc then py_lower login else login in
    let l2 := if uc then py_upper l1 else l1 in
    if sd then fst (split1 at_sign l2) else l2.
End LoginMap.
