(* C07 -- executable model of Radicale's sync-token machinery
   (radicale/storage/multifilesystem/{sync,history,cache,upload,delete,move,create_collection}.py).

   Only definitions here (the model must still run when a proof breaks); proofs are in Proofs/Sync*.v.

   Hashes are free constructors (DESIGN section 3): an item ETag is [EText content-id]; a history etag is a
   random seed or the hash of (previous history etag, "/" , etag or "" for a deleted item); a token is the
   hash over the (href, history etag) pairs of the collection state.  Injectivity of the real SHA-256 on the
   occurring inputs and unambiguity of the hashed encodings are in the trusted base. *)
From Coq Require Import List NArith ZArith Bool.
Import ListNotations.
Open Scope Z_scope.

Definition href := N.
Definition cid := N.
Definition collid := N.

Inductive etag := EText (c : cid).
Inductive hetag := HSeed (n : N) | HChain (h : hetag) (e : option etag).
Definition snapshot := list (href * hetag).
Inductive token := Tok (s : snapshot).

Definition etag_eqb (a b : etag) : bool := match a, b with EText x, EText y => N.eqb x y end.
Definition oetag_eqb (a b : option etag) : bool :=
  match a, b with Some x, Some y => etag_eqb x y | None, None => true | _, _ => false end.
Fixpoint hetag_eqb (a b : hetag) : bool :=
  match a, b with
  | HSeed x, HSeed y => N.eqb x y
  | HChain h1 e1, HChain h2 e2 => hetag_eqb h1 h2 && oetag_eqb e1 e2
  | _, _ => false
  end.
Fixpoint snap_eqb (a b : snapshot) : bool :=
  match a, b with
  | [], [] => true
  | (h1, x1) :: r1, (h2, x2) :: r2 => N.eqb h1 h2 && hetag_eqb x1 x2 && snap_eqb r1 r2
  | _, _ => false
  end.
Definition token_eqb (a b : token) : bool := match a, b with Tok x, Tok y => snap_eqb x y end.

(* ------------------------------------------------------------------ association lists keyed by N, kept sorted *)
Section AList.
  Context {V : Type}.
  Fixpoint aget (k : N) (l : list (N * V)) : option V :=
    match l with
    | [] => None
    | (k', v) :: r => if N.eqb k k' then Some v else aget k r
    end.
  Fixpoint ains (k : N) (v : V) (l : list (N * V)) : list (N * V) :=
    match l with
    | [] => [(k, v)]
    | (k', v') :: r =>
        if N.eqb k k' then (k, v) :: r
        else if N.ltb k k' then (k, v) :: l
        else (k', v') :: ains k v r
    end.
  Definition adel (k : N) (l : list (N * V)) : list (N * V) :=
    filter (fun p => negb (N.eqb (fst p) k)) l.
  Definition amem (k : N) (l : list (N * V)) : bool :=
    match aget k l with Some _ => true | None => false end.
  Definition akeys (l : list (N * V)) : list N := map fst l.
End AList.

Definition nmem (k : N) (l : list N) : bool := existsb (N.eqb k) l.

(* ------------------------------------------------------------------ the stored state *)
Definition hrec := (option etag * hetag * Z)%type.          (* history file: [etag or ""; history etag], mtime *)
Definition hist := list (href * hrec).
Definition trec := (snapshot * Z)%type.                      (* token file: pickled state, mtime *)
Definition tstore := list (token * trec).

Fixpoint tget (t : token) (l : tstore) : option trec :=
  match l with
  | [] => None
  | (t', r) :: rest => if token_eqb t t' then Some r else tget t rest
  end.
Fixpoint tset (t : token) (r : trec) (l : tstore) : tstore :=
  match l with
  | [] => [(t, r)]
  | (t', r') :: rest => if token_eqb t t' then (t, r) :: rest else (t', r') :: tset t r rest
  end.

Record coll := mkColl {
  c_exists : bool;                      (* the collection folder exists *)
  c_items : list (href * etag);         (* item files *)
  c_hist : hist;                        (* .Radicale.cache/history  (in the collection folder or the cache subfolder) *)
  c_toks : tstore                       (* .Radicale.cache/sync-token *)
}.
Definition empty_coll := mkColl false [] [] [].

Record config := mkConfig {
  sub_hist : bool;                      (* use_cache_subfolder_for_history *)
  sub_tok : bool;                       (* use_cache_subfolder_for_synctoken *)
  max_age : Z;                          (* max_sync_token_age, seconds *)
  sync_cleans_history : bool            (* true: sync() calls _clean_history() after writing a new token (the code
                                           before fix C07-sync-clean-history); false: it does not (fixed code) *)
}.

Record state := mkState {
  st_colls : list (collid * coll);
  st_now : Z;                           (* logical clock, seconds *)
  st_seed : N                           (* next fresh random seed (os.urandom), the oracle *)
}.
Definition init_state := mkState [] 0 0%N.

Definition getc (st : state) (c : collid) : coll :=
  match aget c (st_colls st) with Some x => x | None => empty_coll end.
Definition setc (st : state) (c : collid) (x : coll) : state :=
  mkState (ains c x (st_colls st)) (st_now st) (st_seed st).
Definition set_seed (st : state) (s : N) : state := mkState (st_colls st) (st_now st) s.

(* ------------------------------------------------------------------ history.py *)
(* _update_history_etag(href, item): returns the history etag; rewrites the file only when the etag differs from
   the cached one.  A missing file starts from a fresh random seed and cache_etag "". *)
Definition upd_hist (now : Z) (hs : hist * N) (h : href) (e : option etag) : (hist * N) * hetag :=
  let '(hi, seed) := hs in
  let '(ce, he, seed') :=
    match aget h hi with
    | Some (ce, he, _) => (ce, he, seed)
    | None => (None, HSeed seed, N.succ seed)
    end in
  if oetag_eqb e ce then ((hi, seed'), he)
  else let he' := HChain he e in ((ains h (e, he', now) hi, seed'), he').

(* _get_deleted_history_hrefs(): history entries whose item file does not exist *)
Definition deleted_hrefs (items : list (href * etag)) (hi : hist) : list href :=
  filter (fun h => negb (amem h items)) (akeys hi).

(* cache.py _clean_cache: age_limit = now - max_age when max_age > 0; an entry is kept when mtime > age_limit;
   with max_age = 0 every listed name is removed *)
Definition expired (cfg : config) (now mt : Z) : bool :=
  if 0 <? max_age cfg then mt <=? now - max_age cfg else true.

(* _clean_history(): expired entries of deleted items *)
Definition clean_history (cfg : config) (now : Z) (items : list (href * etag)) (hi : hist) : hist :=
  filter (fun p : href * hrec => let '(h, (_, _, mt)) := p in amem h items || negb (expired cfg now mt)) hi.

Definition clean_tokens (cfg : config) (now : Z) (ts : tstore) : tstore :=
  filter (fun p : token * trec => let '(_, (_, mt)) := p in negb (expired cfg now mt)) ts.

(* ------------------------------------------------------------------ sync.py *)
Inductive sync_arg := ANone | AMal | ATok (t : token).       (* no token | malformed string | well-formed token *)
Inductive sync_res := Refused | Delta (t : token) (d : list href).

Fixpoint pass (now : Z) (work : list (href * option etag)) (hs : hist * N) : (hist * N) * snapshot :=
  match work with
  | [] => (hs, [])
  | (h, e) :: r =>
      let '(hs1, he) := upd_hist now hs h e in
      let '(hs2, out) := pass now r hs1 in
      (hs2, (h, he) :: out)
  end.

(* lines 56-65: the state over all present items, then over the deleted items still in the history *)
Definition compute_state (now : Z) (items : list (href * etag)) (hs : hist * N) : (hist * N) * snapshot :=
  let '(hs1, out1) := pass now (map (fun p : href * etag => (fst p, Some (snd p))) items) hs in
  let dels := deleted_hrefs items (fst hs1) in
  let '(hs2, out2) := pass now (map (fun h => (h, @None etag)) dels) hs1 in
  (hs2, out1 ++ out2).

(* lines 113-122 *)
Definition changes (state old_state : snapshot) : list href :=
  map fst (filter (fun p : href * hetag =>
                     match aget (fst p) old_state with
                     | Some he => negb (hetag_eqb (snd p) he)
                     | None => true
                     end) state)
  ++ filter (fun h => negb (amem h state)) (akeys old_state).

Definition set_hist (c : coll) (hi : hist) : coll := mkColl (c_exists c) (c_items c) hi (c_toks c).
Definition set_toks (c : coll) (ts : tstore) : coll := mkColl (c_exists c) (c_items c) (c_hist c) ts.

Definition sync_coll (cfg : config) (now : Z) (seed : N) (c : coll) (a : sync_arg) : coll * N * sync_res :=
  match a with
  | AMal => (c, seed, Refused)                                     (* lines 48-54: ValueError before anything *)
  | _ =>
      let '((hi, seed'), state) := compute_state now (c_items c) (c_hist c, seed) in
      let tok := Tok state in
      let c1 := set_hist c hi in
      if match a with ATok t => token_eqb t tok | _ => false end
      then (c1, seed', Delta tok [])                               (* line 67: nothing changed *)
      else
        match (match a with
               | ATok t => match tget t (c_toks c) with Some (s, _) => Some s | None => None end
               | _ => Some []
               end) with
        | None => (c1, seed', Refused)                             (* line 90: token not found *)
        | Some old_state =>
            let c2 :=
              match tget tok (c_toks c) with
              | None =>                                            (* lines 93-107 *)
                  let ts := clean_tokens cfg now (tset tok (state, now) (c_toks c)) in
                  let hi' := if sync_cleans_history cfg then clean_history cfg now (c_items c) hi else hi in
                  mkColl (c_exists c) (c_items c) hi' ts
              | Some (s, _) => set_toks c1 (tset tok (s, now) (c_toks c))   (* line 112: utime *)
              end in
            (c2, seed', Delta tok (changes state old_state))
        end
  end.

(* A REPORT during which the write of a NEW token file fails (ENOSPC, I/O error): _atomic_write writes into a
   temporary directory and renames only after a complete write, so no file appears under the token's name; the
   request fails (5xx) after the lazy history updates of lines 59-63 have happened.  When the request does not get
   as far as writing a new token file the fault does not strike and the REPORT is an ordinary one. *)
Definition writes_new_token (now : Z) (seed : N) (c : coll) (a : sync_arg) : bool :=
  match a with
  | AMal => false
  | _ =>
      let '(_, state) := compute_state now (c_items c) (c_hist c, seed) in
      let tok := Tok state in
      negb (match a with ATok t => token_eqb t tok | _ => false end)
      && match a with ATok t => match tget t (c_toks c) with Some _ => true | None => false end | _ => true end
      && match tget tok (c_toks c) with None => true | Some _ => false end
  end.

Definition sync_coll_fail (cfg : config) (now : Z) (seed : N) (c : coll) (a : sync_arg) : coll * N * option sync_res :=
  if writes_new_token now seed c a then
    let '((hi, seed'), _) := compute_state now (c_items c) (c_hist c, seed) in (set_hist c hi, seed', None)
  else let '(x', s', r) := sync_coll cfg now seed c a in (x', s', Some r).

(* ------------------------------------------------------------------ operations *)
Inductive op :=
| Put (c : collid) (h : href) (e : cid)                 (* upload.py upload *)
| Del (c : collid) (h : href)                           (* delete.py delete(href) *)
| Move (c : collid) (h : href) (c2 : collid) (h2 : href)  (* move.py *)
| Replace (c : collid) (items : list (href * cid))      (* create_collection with props: create or replace *)
| DelColl (c : collid)                                  (* delete.py delete(None) *)
| DropCache (c : collid) (inroot : bool)                (* external rm -r of <root|cache>/.../.Radicale.cache *)
| Tick (dt : N)
| Sync (c : collid) (a : sync_arg)                      (* REPORT sync-collection *)
| PTok (c : collid)                                     (* PROPFIND D:sync-token = sync()[0] *)
| SyncFail (c : collid) (a : sync_arg).                 (* REPORT whose token-file write fails *)

Inductive result := RUnit | RNoColl | RSync (r : sync_res) | RTok (t : token) | RFail.

Definition build_items (l : list (href * cid)) : list (href * etag) :=
  fold_right (fun p acc => ains (fst p) (EText (snd p)) acc) [] l.

Definition survive {A} (sub : bool) (l : list A) : list A := if sub then l else [].

(* collection-level effect of each storage call; [hs] threads (history, seed) *)
Definition put_coll (cfg : config) (now : Z) (seed : N) (x : coll) (h : href) (e : etag) : coll * N :=
  let items := ains h e (c_items x) in
  let '((hi, seed'), _) := upd_hist now (c_hist x, seed) h (Some e) in      (* upload.py:65 / move.py:65 *)
  (mkColl true items (clean_history cfg now items hi) (c_toks x), seed').   (* upload.py:66 *)

Definition del_coll (cfg : config) (now : Z) (seed : N) (x : coll) (h : href) : coll * N :=
  let items := adel h (c_items x) in
  let '((hi, seed'), _) := upd_hist now (c_hist x, seed) h None in          (* delete.py:55 / move.py:66 *)
  (mkColl true items (clean_history cfg now items hi) (c_toks x), seed').

(* move.py inside one collection: os.replace, then history of target, history of source, one _clean_history *)
Definition move_same_coll (cfg : config) (now : Z) (seed : N) (x : coll) (h h2 : href) (e : etag) : coll * N :=
  let items := if N.eqb h h2 then c_items x else ains h2 e (adel h (c_items x)) in
  let '(hs1, _) := upd_hist now (c_hist x, seed) h2 (Some e) in
  let '((hi, seed'), _) := upd_hist now hs1 h None in
  (mkColl true items (clean_history cfg now items hi) (c_toks x), seed').

Definition reset_coll (cfg : config) (x : coll) (ex : bool) (items : list (href * etag)) : coll :=
  mkColl ex items (survive (sub_hist cfg) (c_hist x)) (survive (sub_tok cfg) (c_toks x)).

Definition dropcache_coll (cfg : config) (x : coll) (inroot : bool) : coll :=
  (* the folder removed holds the history iff (inroot <-> not sub_hist) *)
  mkColl (c_exists x) (c_items x)
         (if Bool.eqb inroot (sub_hist cfg) then c_hist x else [])
         (if Bool.eqb inroot (sub_tok cfg) then c_toks x else []).

Definition step (cfg : config) (st : state) (o : op) : state * result :=
  let now := st_now st in
  match o with
  | Put c h e =>
      let x := getc st c in
      if c_exists x then
        let '(x', seed) := put_coll cfg now (st_seed st) x h (EText e) in
        (set_seed (setc st c x') seed, RUnit)
      else (st, RNoColl)
  | Del c h =>
      let x := getc st c in
      if c_exists x && amem h (c_items x) then
        let '(x', seed) := del_coll cfg now (st_seed st) x h in
        (set_seed (setc st c x') seed, RUnit)
      else (st, RNoColl)
  | Move c h c2 h2 =>
      let x := getc st c in
      let y := getc st c2 in
      match (if c_exists x && c_exists y then aget h (c_items x) else None) with
      | None => (st, RNoColl)
      | Some e =>
          if N.eqb c c2 then
            let '(x', seed) := move_same_coll cfg now (st_seed st) x h h2 e in
            (set_seed (setc st c x') seed, RUnit)
          else
            (* target history first, then source history; then _clean_history of target, of source *)
            let '(y', seed1) := put_coll cfg now (st_seed st) y h2 e in
            let '(x', seed2) := del_coll cfg now seed1 x h in
            (set_seed (setc (setc st c2 y') c x') seed2, RUnit)
      end
  | Replace c l => (setc st c (reset_coll cfg (getc st c) true (build_items l)), RUnit)
  | DelColl c =>
      let x := getc st c in
      if c_exists x then (setc st c (reset_coll cfg x false []), RUnit) else (st, RNoColl)
  | DropCache c inroot => (setc st c (dropcache_coll cfg (getc st c) inroot), RUnit)
  | Tick dt => (mkState (st_colls st) (now + Z.of_N dt) (st_seed st), RUnit)
  | Sync c a =>
      let x := getc st c in
      if c_exists x then
        let '(x', seed, r) := sync_coll cfg now (st_seed st) x a in
        (set_seed (setc st c x') seed, RSync r)
      else (st, RNoColl)
  | PTok c =>
      let x := getc st c in
      if c_exists x then
        let '(x', seed, r) := sync_coll cfg now (st_seed st) x ANone in
        (set_seed (setc st c x') seed, match r with Delta t _ => RTok t | Refused => RSync Refused end)
      else (st, RNoColl)
  | SyncFail c a =>
      let x := getc st c in
      if c_exists x then
        let '(x', seed, r) := sync_coll_fail cfg now (st_seed st) x a in
        (set_seed (setc st c x') seed, match r with Some r => RSync r | None => RFail end)
      else (st, RNoColl)
  end.

Fixpoint run (cfg : config) (st : state) (ops : list op) : state :=
  match ops with
  | [] => st
  | o :: r => run cfg (fst (step cfg st o)) r
  end.

(* ------------------------------------------------------------------ what a client sees and does *)
Definition view := list (href * etag).
Definition view_of (st : state) (c : collid) : view := c_items (getc st c).

(* the multistatus of a delta: per changed href its current ETag, or 404 *)
Definition multistatus (st : state) (c : collid) (d : list href) : list (href * option etag) :=
  map (fun h => (h, aget h (view_of st c))) d.

(* applying a multistatus to what the client holds *)
Definition apply_delta (v : view) (ms : list (href * option etag)) : view :=
  fold_left (fun acc p => match snd p with Some e => ains (fst p) e acc | None => adel (fst p) acc end) ms v.

Definition same_view (a b : view) : Prop := forall h, aget h a = aget h b.
