(* C11 -- model of radicale/storage/multifilesystem_nolock.py : class RwLock (condition-variable lock)
   together with the inherited property `locked` of radicale/pathutils.py : RwLock, running on CPython's
   threading.Condition (Lib/threading.py: wait_for / wait / notify / notify_all), for an ARBITRARY number of
   threads.  Definitions only.

   Granularity: one model step per blocking primitive of the real execution (every Lock.acquire and every
   Lock.release of the mutex `_lock` and of the per-wait `waiter` locks of Condition) plus separate steps for
   the thread-local computations in between (predicate test, bookkeeping update, the `if self._readers == 0`
   test).  The latter are called *internal*: they happen with the mutex held.

   Python (acquire)                                   pc
     with self._cond:                                 A_Lock      mutex.acquire()            [blocks while owned]
       wait_for(pred):  result = predicate()          A_Test      pred true -> A_Upd, false -> A_WInit
         wait(): waiter = Lock(); waiter.acquire();
                 self._waiters.append(waiter)         A_WInit     (fresh lock: never blocks)
                 self._release_save()                 A_WRel      mutex.release()
                 waiter.acquire()                     A_Blocked   [blocks until a notify released the waiter]
                 self._acquire_restore()              A_Reacq     mutex.acquire()            [blocks while owned]
                 result = predicate()                 A_Test
       if mode == "r": self._readers += 1
       else: self._writer = True                      A_Upd
     (end of with)                                    A_Unlock    mutex.release()
     yield                                            InCS        (critical section; may call `locked` q times)
   `locked`:  with self._lock:                        InCS        mutex.acquire()            [blocks while owned]
                 if self._readers > 0: return "r" ... Q_Read
              (end of with)                           Q_Unlock    mutex.release()
   (release)
     with self._cond:                                 InCS        mutex.acquire()            [blocks while owned]
       if mode == "r": self._readers -= 1
       self._writer = False                           R_Upd
       if self._readers == 0:                         R_Check
         notify_all() = notify(len(self._waiters))    R_Notify n  loop: waiters[0].release(); n -= 1; remove
     (end of with)                                    R_Unlock    mutex.release()
*)
From Coq Require Import List Arith Bool ZArith Uint63.
Import ListNotations.
Require Import RV.Model.C11Base.
Open Scope Z_scope.

Record cycle := Cy { c_mode : mode; c_q : nat }.   (* one acquire(mode) ... release, with c_q calls of `locked` inside *)

Inductive pc :=
| A_Lock | A_Test | A_Upd | A_Unlock
| A_WInit | A_WRel | A_Blocked | A_Reacq
| InCS | Q_Read | Q_Unlock
| R_Upd | R_Check | R_Notify (n : nat) | R_Unlock
| Done.

(* answer of the `locked` property *)
Inductive lval := LNone | LR | LW | LFree.

Record thread := Th {
  t_pc : pc;
  t_mode : mode;          (* mode of the current cycle *)
  t_q : nat;              (* `locked` calls still to make inside the current critical section *)
  t_todo : list cycle;    (* cycles after the current one *)
  t_seen : lval           (* last value returned to this thread by `locked` *)
}.

Record gst := Gl {
  mutex : option nat;     (* owner of RwLock._lock (the Condition's underlying lock) *)
  readers : Z;            (* RwLock._readers -- a Python int: can go negative if the code is wrong *)
  writer : bool;          (* RwLock._writer *)
  waiters : list nat;     (* Condition._waiters: the waiter lock of each listed thread, in deque order *)
  notified : list nat     (* threads whose waiter lock has been released by notify (unlocked) *)
}.

(* the lambda passed to wait_for *)
Definition pred (m : mode) (g : gst) : bool :=
  negb (writer g) && (match m with R => true | W => Z.eqb (readers g) 0 end).

(* RwLock.locked, evaluated with the mutex held *)
Definition locked_val (g : gst) : lval :=
  if Z.ltb 0 (readers g) then LR else if writer g then LW else LFree.

Definition set_pc (th : thread) (p : pc) : thread := Th p (t_mode th) (t_q th) (t_todo th) (t_seen th).
Definition set_mutex (g : gst) (o : option nat) : gst := Gl o (readers g) (writer g) (waiters g) (notified g).

Definition next_cycle (th : thread) : thread :=
  match t_todo th with
  | [] => Th Done (t_mode th) 0%nat [] (t_seen th)
  | c :: r => Th A_Lock (c_mode c) (c_q c) r (t_seen th)
  end.

Definition tstep (t : nat) (g : gst) (th : thread) : option (gst * thread) :=
  match t_pc th with
  | A_Lock | A_Reacq =>
      match mutex g with None => Some (set_mutex g (Some t), set_pc th A_Test) | Some _ => None end
  | A_Test =>
      Some (g, set_pc th (if pred (t_mode th) g then A_Upd else A_WInit))
  | A_Upd =>
      Some (match t_mode th with
            | R => Gl (mutex g) (readers g + 1) (writer g) (waiters g) (notified g)
            | W => Gl (mutex g) (readers g) true (waiters g) (notified g)
            end, set_pc th A_Unlock)
  | A_Unlock => Some (set_mutex g None, set_pc th InCS)
  | A_WInit =>
      Some (Gl (mutex g) (readers g) (writer g) (waiters g ++ [t]) (remove_nat t (notified g)), set_pc th A_WRel)
  | A_WRel => Some (set_mutex g None, set_pc th A_Blocked)
  | A_Blocked =>
      if memb t (notified g)
      then Some (Gl (mutex g) (readers g) (writer g) (waiters g) (remove_nat t (notified g)), set_pc th A_Reacq)
      else None
  | InCS =>
      match mutex g with
      | None => Some (set_mutex g (Some t), set_pc th (match t_q th with O => R_Upd | S _ => Q_Read end))
      | Some _ => None
      end
  | Q_Read => Some (g, Th Q_Unlock (t_mode th) (Nat.pred (t_q th)) (t_todo th) (locked_val g))
  | Q_Unlock => Some (set_mutex g None, set_pc th InCS)
  | R_Upd =>
      Some (Gl (mutex g) (match t_mode th with R => readers g - 1 | W => readers g end) false (waiters g) (notified g),
            set_pc th R_Check)
  | R_Check =>
      Some (g, set_pc th (if Z.eqb (readers g) 0 then R_Notify (List.length (waiters g)) else R_Unlock))
  | R_Notify n =>
      match waiters g, n with
      | w :: ws, S n' => Some (Gl (mutex g) (readers g) (writer g) ws (w :: notified g), set_pc th (R_Notify n'))
      | _, _ => Some (g, set_pc th R_Unlock)
      end
  | R_Unlock => Some (set_mutex g None, next_cycle th)
  | Done => None
  end.

Definition state := @C11Base.state gst thread.
Definition step : state -> nat -> option state := C11Base.step tstep.
Definition run : list nat -> state -> option state := C11Base.run tstep.
Definition run_n : nat -> nat -> state -> option state := C11Base.run_n tstep.
Definition enabled : state -> nat -> bool := C11Base.enabled tstep.

Definition start (p : list cycle) : thread :=
  match p with
  | [] => Th Done R 0%nat [] LNone
  | c :: r => Th A_Lock (c_mode c) (c_q c) r LNone
  end.

Definition init (progs : list (list cycle)) : state :=
  St (Gl None 0 false [] []) (map start progs).

Definition reachable (s : state) : Prop := exists progs, reach tstep (init progs) s.

(* ------------------------------------------------------------------ vocabulary of the theorems *)
(* program counters at which the thread owns the mutex *)
Definition owns_mutex (p : pc) : bool :=
  match p with
  | A_Test | A_Upd | A_Unlock | A_WInit | A_WRel | Q_Read | Q_Unlock | R_Upd | R_Check | R_Notify _ | R_Unlock => true
  | _ => false
  end.

(* program counters at which the thread HOLDS the readers-writer lock: from the bookkeeping update of acquire
   up to (excluding) the bookkeeping update of release.  The `with` body (InCS, Q_Read, Q_Unlock) is inside. *)
Definition holds_pc (p : pc) : bool :=
  match p with A_Unlock | InCS | Q_Read | Q_Unlock | R_Upd => true | _ => false end.
Definition holds (m : mode) (th : thread) : bool := holds_pc (t_pc th) && mode_eqb (t_mode th) m.
(* strictly inside the `with` body *)
Definition in_cs_pc (p : pc) : bool := match p with InCS | Q_Read | Q_Unlock => true | _ => false end.
Definition in_cs (m : mode) (th : thread) : bool := in_cs_pc (t_pc th) && mode_eqb (t_mode th) m.

Definition readers_holding (s : state) : nat := count (holds R) (thr s).
Definition writers_holding (s : state) : nat := count (holds W) (thr s).
Definition readers_in_cs (s : state) : nat := count (in_cs R) (thr s).
Definition writers_in_cs (s : state) : nat := count (in_cs W) (thr s).

(* a thread that asked for the lock and does not hold it yet *)
Definition requesting_pc (p : pc) : bool :=
  match p with A_Lock | A_Test | A_Upd | A_WInit | A_WRel | A_Blocked | A_Reacq => true | _ => false end.

(* thread u excludes a requester of mode m: u holds (or has already been granted, pc A_Upd) the lock in a mode
   incompatible with m *)
Definition granted_pc (p : pc) : bool := holds_pc p || match p with A_Upd => true | _ => false end.
Definition excludes (m : mode) (u : thread) : bool :=
  granted_pc (t_pc u) && match m, t_mode u with R, R => false | _, _ => true end.

(* waiting on the condition with the waiter lock still locked (not notified) *)
Definition waiting_unnotified (s : state) (t : nat) : Prop := In t (waiters (glob s)).

(* ------------------------------------------------------------------ correspondence interface (tie K)
   The harness stops the real threads before every blocking primitive.  One scheduler step = the primitive the
   thread is stopped at, followed by the internal steps up to the next primitive. *)
Definition internal (g : gst) (th : thread) : bool :=
  match t_pc th with
  | A_Test | A_Upd | Q_Read | R_Upd | R_Check => true
  | R_Notify n => match waiters g, n with _ :: _, S _ => false | _, _ => true end
  | _ => false
  end.

Fixpoint settle (fuel : nat) (t : nat) (s : state) : state :=
  match fuel with
  | O => s
  | S f =>
      match nth_error (thr s) t with
      | Some th => if internal (glob s) th then match step s t with Some s' => settle f t s' | None => s end else s
      | None => s
      end
  end.

Definition macro (s : state) (t : nat) : option state :=
  match step s t with Some s' => Some (settle 8 t s') | None => None end.

Definition pc_code (p : pc) : Z :=
  match p with
  | A_Lock => 1 | A_Test => 2 | A_Upd => 3 | A_Unlock => 4 | A_WInit => 5 | A_WRel => 6 | A_Blocked => 7
  | A_Reacq => 8 | InCS => 9 | Q_Read => 10 | Q_Unlock => 11 | R_Upd => 12 | R_Check => 13
  | R_Notify _ => 14 | R_Unlock => 15 | Done => 0
  end.
Definition lval_code (v : lval) : Z := match v with LNone => 0 | LR => 1 | LW => 2 | LFree => 3 end.
Definition zb (b : bool) : Z := if b then 1 else 0.
Definition zopt (o : option nat) : Z := match o with Some t => Z.of_nat t | None => -1 end.

(* observation after a scheduler step:
   [mutex owner; _readers; _writer; #waiters] ++ waiters ++ [-2] ++ per thread [pc; enabled; notified; seen]
   (`seen` is reported as 9 while the thread is at Q_Unlock: the value computed at Q_Read reaches the caller of
   `locked` -- where the harness can see it -- only when the `with` block has been left) *)
Definition observe (s : state) : list Z :=
  let g := glob s in
  [zopt (mutex g); readers g; zb (writer g); Z.of_nat (List.length (waiters g))]
  ++ map Z.of_nat (waiters g) ++ [-2]
  ++ concat (map (fun '(i, th) => [pc_code (t_pc th); zb (enabled s i); zb (memb i (notified g));
                                    match t_pc th with Q_Unlock => 9 | _ => lval_code (t_seen th) end])
                 (combine (seq 0 (List.length (thr s))) (thr s))).

(* run a schedule from the initial state, observing after every step; a step of a blocked thread ends the
   trace with the marker [-9] *)
Fixpoint trace (sched : list nat) (s : state) : list (list Z) :=
  match sched with
  | [] => []
  | t :: r => match macro s t with
              | Some s' => observe s' :: trace r s'
              | None => [[-9]]
              end
  end.

Definition mk_cycle (x : Z) : cycle :=   (* harness encoding: 2*q + (1 if write) *)
  Cy (if Z.odd x then W else R) (Z.to_nat (x / 2)).
Definition run_case (c : list (list Z) * list nat) : list (list Z) :=
  let s0 := init (map (map mk_cycle) (fst c)) in
  observe s0 :: trace (snd c) s0.

Fixpoint eqb_lz (a b : list Z) : bool :=
  match a, b with [], [] => true | x :: a', y :: b' => Z.eqb x y && eqb_lz a' b' | _, _ => false end.
Fixpoint eqb_llz (a b : list (list Z)) : bool :=
  match a, b with [], [] => true | x :: a', y :: b' => eqb_lz x y && eqb_llz a' b' | _, _ => false end.

(* compact form used by the generated correspondence files: schedule and trace packed in 63-bit words *)
Definition run_case_z (c : list (list Z) * (nat * list Uint63.int)) : list Uint63.int :=
  map Uint63.of_Z (enc_trace (run_case (fst c, decode_sched (fst (snd c)) (map Uint63.to_Z (snd (snd c)))))).
