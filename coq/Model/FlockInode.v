(* C11 -- model of the per-collection cache lock of the FILE-LOCK back-end:
   radicale/storage/multifilesystem/lock.py : CollectionPartLock._acquire_cache_lock, for any number of threads and
   lock paths.  Definitions only.

   The kernel's flock table is keyed by the INODE an open file description refers to: `open(path, "w+")` binds the
   new description to the path's current inode (creating a fresh inode when the path has none); flock(LOCK_EX) on a
   description is granted when no OTHER description holds a lock on the same inode; close drops the lock.  An
   `unlink` of the path makes later opens create a fresh inode, while descriptions opened earlier keep the old one.

   Python                                                                pc
     if self._storage._lock.locked == "w": ...      (storage RwLock._lock)  C_QAcq   mutex.acquire()  [blocks while owned]
                                                                             C_QRel   mutex.release()
     self._storage._makedirs_synced(cache_folder)                           (not a lock operation)
     lock = pathutils.RwLock(lock_path)             (fresh object: its _lock and bookkeeping are private, no step)
     with lock.acquire("w"):  open(lock_path, "w+")                         C_Open   (internal: binds the inode)
                              fcntl.flock(fd, LOCK_EX)                       C_Flock  [blocks while another description
                                                                                       holds a lock on the same inode]
        yield                                                                C_Body
     (end of with: close)                                                    C_Close
   The code at the pinned commit never removes the lock file.  The system parameter `unlinks` adds the step
     os.remove(lock_path)   (errors suppressed)                              C_Unlink
   between the body and the close: with it the exclusion theorem fails (Proofs/FlockInodeProofs.v, refuted by a
   computed witness); without it, it is proved.  The storage lock is not held by the callers here (mode "r" makes no
   difference to this code path: `locked` is then "r"). *)
From Coq Require Import List Arith Bool ZArith Uint63.
Import ListNotations.
Require Import RV.Model.C11Base.

Inductive cpc := C_QAcq | C_QRel | C_Open | C_Flock | C_Body | C_Unlink | C_Close | C_Done.

Record cthread := CTh {
  c_pc : cpc;
  c_path : nat;          (* lock path of the current acquisition = (collection, ns) *)
  c_ino : nat;           (* inode of the description opened by the current acquisition *)
  c_fail : bool;         (* fault: open() of the lock file raises OSError (EMFILE, EACCES, ...) for this acquisition *)
  c_todo : list (nat * bool)
}.

Record cgst := CG {
  c_unlinks : bool;              (* system parameter: does the code remove the lock file when leaving? *)
  c_mutex : option nat;          (* owner of the storage RwLock._lock (taken by `locked`) *)
  c_paths : list (nat * nat);    (* directory: path -> inode *)
  c_next : nat;                  (* next fresh inode number *)
  c_held : list (nat * nat)      (* kernel flock table: (thread = its open description, inode) holding LOCK_EX *)
}.

Fixpoint plookup (k : nat) (d : list (nat * nat)) : option nat :=
  match d with [] => None | (k', v) :: r => if Nat.eqb k k' then Some v else plookup k r end.
Fixpoint premove (k : nat) (d : list (nat * nat)) : list (nat * nat) :=
  match d with [] => [] | (k', v) :: r => if Nat.eqb k k' then premove k r else (k', v) :: premove k r end.
Definition ino_locked_by_other (t i : nat) (h : list (nat * nat)) : bool :=
  existsb (fun e => negb (Nat.eqb (fst e) t) && Nat.eqb (snd e) i) h.
Fixpoint hremove (t : nat) (h : list (nat * nat)) : list (nat * nat) :=
  match h with [] => [] | (u, i) :: r => if Nat.eqb u t then hremove t r else (u, i) :: hremove t r end.

Definition cset_pc (th : cthread) (p : cpc) : cthread := CTh p (c_path th) (c_ino th) (c_fail th) (c_todo th).
Definition cnext_cycle (th : cthread) : cthread :=
  match c_todo th with
  | [] => CTh C_Done (c_path th) (c_ino th) false []
  | k :: r => CTh C_QAcq (fst k) (c_ino th) (snd k) r
  end.

Definition ctstep (t : nat) (g : cgst) (th : cthread) : option (cgst * cthread) :=
  match c_pc th with
  | C_QAcq =>
      match c_mutex g with
      | None => Some (CG (c_unlinks g) (Some t) (c_paths g) (c_next g) (c_held g), cset_pc th C_QRel)
      | Some _ => None
      end
  | C_QRel => Some (CG (c_unlinks g) None (c_paths g) (c_next g) (c_held g), cset_pc th C_Open)
  | C_Open =>
      if c_fail th then Some (g, cnext_cycle th)     (* OSError propagates: the requester is refused, it never enters *)
      else
      match plookup (c_path th) (c_paths g) with
      | Some i => Some (g, CTh C_Flock (c_path th) i false (c_todo th))
      | None => Some (CG (c_unlinks g) (c_mutex g) ((c_path th, c_next g) :: c_paths g) (S (c_next g)) (c_held g),
                      CTh C_Flock (c_path th) (c_next g) false (c_todo th))
      end
  | C_Flock =>
      if ino_locked_by_other t (c_ino th) (c_held g) then None
      else Some (CG (c_unlinks g) (c_mutex g) (c_paths g) (c_next g) ((t, c_ino th) :: c_held g), cset_pc th C_Body)
  | C_Body => Some (g, cset_pc th (if c_unlinks g then C_Unlink else C_Close))
  | C_Unlink => Some (CG (c_unlinks g) (c_mutex g) (premove (c_path th) (c_paths g)) (c_next g) (c_held g), cset_pc th C_Close)
  | C_Close => Some (CG (c_unlinks g) (c_mutex g) (c_paths g) (c_next g) (hremove t (c_held g)), cnext_cycle th)
  | C_Done => None
  end.

Definition cstate := @C11Base.state cgst cthread.
Definition cstep : cstate -> nat -> option cstate := C11Base.step ctstep.
Definition crun : list nat -> cstate -> option cstate := C11Base.run ctstep.
Definition cenabled : cstate -> nat -> bool := C11Base.enabled ctstep.

Definition cstart (p : list (nat * bool)) : cthread :=
  match p with [] => CTh C_Done 0 0 false [] | k :: r => CTh C_QAcq (fst k) 0 (snd k) r end.
Definition cinit (unlinks : bool) (progs : list (list (nat * bool))) : cstate :=
  St (CG unlinks None [] 0 []) (map cstart progs).
Definition creachable (unlinks : bool) (s : cstate) : Prop := exists progs, reach ctstep (cinit unlinks progs) s.

(* the thread's description owns the flock lock: from the grant to the close *)
Definition cheld_pc (p : cpc) : bool := match p with C_Body | C_Unlink | C_Close => true | _ => false end.
(* the thread has opened its description *)
Definition copened_pc (p : cpc) : bool := match p with C_Flock => true | _ => cheld_pc p end.
Definition in_cache_section (k : nat) (th : cthread) : bool := cheld_pc (c_pc th) && Nat.eqb (c_path th) k.

(* ------------------------------------------------------------------ correspondence interface *)
Definition cinternal (th : cthread) : bool := match c_pc th with C_Open => true | _ => false end.
Fixpoint csettle (fuel : nat) (t : nat) (s : cstate) : cstate :=
  match fuel with
  | O => s
  | S f => match nth_error (thr s) t with
           | Some th => if cinternal th then match cstep s t with Some s' => csettle f t s' | None => s end else s
           | None => s
           end
  end.
Definition cmacro (s : cstate) (t : nat) : option cstate :=
  match cstep s t with Some s' => Some (csettle 2 t s') | None => None end.

Open Scope Z_scope.
Definition cpc_code (p : cpc) : Z :=
  match p with C_QAcq => 1 | C_QRel => 2 | C_Open => 3 | C_Flock => 4 | C_Body => 5 | C_Unlink => 6 | C_Close => 7 | C_Done => 0 end.
Definition czopt (o : option nat) : Z := match o with Some t => Z.of_nat t | None => -1 end.
(* observation: [mutex] ++ directory (newest first: path, inode) ++ [-2] ++ flock table (newest first: thread, inode)
   ++ [-3] ++ per thread [pc; enabled] *)
Definition cobserve (s : cstate) : list Z :=
  let g := glob s in
  [czopt (c_mutex g)]
  ++ concat (map (fun e => [Z.of_nat (fst e); Z.of_nat (snd e)]) (c_paths g)) ++ [-2]
  ++ concat (map (fun e => [Z.of_nat (fst e); Z.of_nat (snd e)]) (c_held g)) ++ [-3]
  ++ concat (map (fun '(i, th) => [cpc_code (c_pc th); if cenabled s i then 1 else 0])
                 (combine (seq 0 (List.length (thr s))) (thr s))).
Fixpoint ctrace (sched : list nat) (s : cstate) : list (list Z) :=
  match sched with
  | [] => []
  | t :: r => match cmacro s t with Some s' => cobserve s' :: ctrace r s' | None => [[-9]] end
  end.
(* harness encoding of a cycle: key number, + 1000 when open() of the lock file fails for that acquisition *)
Definition cmk_cycle (x : nat) : nat * bool := (Nat.modulo x 1000, Nat.leb 1000 x).
Definition crun_case (c : list (list nat) * list nat) : list (list Z) :=
  let s0 := cinit false (map (map cmk_cycle) (fst c)) in cobserve s0 :: ctrace (snd c) s0.
Definition crun_case_z (c : list (list nat) * (nat * list Uint63.int)) : list Uint63.int :=
  map Uint63.of_Z (enc_trace (crun_case (fst c, decode_sched (fst (snd c)) (map Uint63.to_Z (snd (snd c)))))).
