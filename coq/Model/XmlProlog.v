(* C19 -- the attack grammar of hostile XML request bodies and a scanner of the XML prolog.

   Only definitions (no proofs; Proofs/C19Prolog.v).

   * [attack]: abstract syntax of the bodies the correspondence check sends: optional XML declaration /
     comments / processing instructions, an optional DOCTYPE (name, optional external identifier, optional
     internal subset made of entity declarations of all five kinds, element / attribute-list / notation
     declarations, comments, parameter-entity references, white space), more comments, then the root
     element as opaque text (it carries the entity references in element text and attribute values).
     Long runs (quadratic blow-up) are kept compressed as [PRep s n].
   * [render]: the code points of the body (what DefusedET.fromstring receives after decode_request).
   * [scan]: a character-level state machine over the prolog deciding [has_doctype] and
     [declares_entity] (an <!ENTITY declaration inside the internal subset, outside comments,
     processing instructions and quoted literals).
   The class [declares_entity s = true] is the class of bodies for which the rejection by defusedxml is
   asserted (assumption, validated by the correspondence check on every run). *)
From Coq Require Import List NArith Bool String.
Import ListNotations.
Require Import RV.Lib.PyStr.
Open Scope N_scope.

(* ------------------------------------------------------------------ characters *)
Definition cLT : N := 60.   Definition cGT : N := 62.   Definition cBang : N := 33.
Definition cQM : N := 63.   Definition cDash : N := 45. Definition cDQ : N := 34.
Definition cSQ : N := 39.   Definition cLB : N := 91.   Definition cRB : N := 93.

Definition is_ws (c : N) : bool := (c =? 32) || (c =? 9) || (c =? 10) || (c =? 13).
Definition is_quote (c : N) : bool := (c =? cDQ) || (c =? cSQ).

(* ------------------------------------------------------------------ the scanner *)
Inductive ctx := KProlog | KSubset.                 (* where a '<' was seen *)
Inductive dashes := D0 | D1 | D2.                   (* consecutive '-' just seen inside a comment (2 = two or more) *)
Inductive qret := QDoctype | QDecl.                 (* where a quoted literal returns to *)

Inductive mode :=
| MProlog                          (* before the DOCTYPE / the root element *)
| MOpen (k : ctx) (acc : pystr)    (* after '<': the characters of the markup opener seen so far, in order *)
| MComment (k : ctx) (d : dashes)  (* inside <!-- ... --> *)
| MPI (k : ctx) (q : bool)         (* inside <? ... ?>; q = the previous character was '?' *)
| MDoctype                         (* after <!DOCTYPE, before '[' or '>' *)
| MQuote (q : N) (r : qret)        (* inside a quoted literal opened by q *)
| MSubset                          (* inside [ ... ] *)
| MDecl                            (* inside a markup declaration of the subset, up to its '>' *)
| MAfterSubset                     (* after ']' *)
| MBody.                           (* the prolog is over (root element reached or DOCTYPE closed) *)

(* (mode, a DOCTYPE was seen, an ENTITY declaration was seen) *)
Definition state := (mode * bool * bool)%type.
Definition state0 : state := (MProlog, false, false).

Definition kwPI : pystr := str "?".
Definition kwCOMMENT : pystr := str "!--".
Definition kwDOCTYPE : pystr := str "!DOCTYPE".
Definition kwENTITY : pystr := str "!ENTITY".

Definition ctx_mode (k : ctx) : mode := match k with KProlog => MProlog | KSubset => MSubset end.
Definition qret_mode (r : qret) : mode := match r with QDoctype => MDoctype | QDecl => MDecl end.
Definition ctx_kw (k : ctx) : pystr := match k with KProlog => kwDOCTYPE | KSubset => kwENTITY end.

(* after '<' (context k) the characters acc have been seen; c is the next one *)
Definition step_open (k : ctx) (acc : pystr) (c : N) (fd fe : bool) : state :=
  let acc' := (acc ++ [c])%list in
  if eqs acc' kwPI then (MPI k false, fd, fe)
  else if eqs acc' kwCOMMENT then (MComment k D0, fd, fe)
  else if eqs acc (ctx_kw k) then
    (* the whole keyword has been read: it counts when white space follows *)
    match k with
    | KProlog => if is_ws c then (MDoctype, true, fe) else (MBody, fd, fe)
    | KSubset => if is_ws c then (MDecl, fd, true)
                 else if c =? cGT then (MSubset, fd, fe) else (MDecl, fd, fe)
    end
  else if startswith (ctx_kw k) acc' || startswith kwCOMMENT acc' then (MOpen k acc', fd, fe)
  else
    match k with
    | KProlog => (MBody, fd, fe)                       (* the root element (or garbage): prolog over *)
    | KSubset => if c =? cGT then (MSubset, fd, fe)
                 else if is_quote c then (MQuote c QDecl, fd, fe) else (MDecl, fd, fe)
    end.

Definition step (s : state) (c : N) : state :=
  let '(m, fd, fe) := s in
  match m with
  | MProlog => if c =? cLT then (MOpen KProlog [], fd, fe) else s
  | MOpen k acc => step_open k acc c fd fe
  | MComment k d =>
      if c =? cDash then (MComment k (match d with D0 => D1 | _ => D2 end), fd, fe)
      else if c =? cGT then match d with D2 => (ctx_mode k, fd, fe) | _ => (MComment k D0, fd, fe) end
      else (MComment k D0, fd, fe)
  | MPI k q => if (c =? cGT) && q then (ctx_mode k, fd, fe) else (MPI k (c =? cQM), fd, fe)
  | MDoctype => if is_quote c then (MQuote c QDoctype, fd, fe)
                else if c =? cLB then (MSubset, fd, fe)
                else if c =? cGT then (MBody, fd, fe) else s
  | MQuote q r => if c =? q then (qret_mode r, fd, fe) else s
  | MSubset => if c =? cLT then (MOpen KSubset [], fd, fe)
               else if c =? cRB then (MAfterSubset, fd, fe) else s
  | MDecl => if is_quote c then (MQuote c QDecl, fd, fe)
             else if c =? cGT then (MSubset, fd, fe) else s
  | MAfterSubset => if c =? cGT then (MBody, fd, fe) else s
  | MBody => s
  end.

Definition run (s : state) (t : pystr) : state := fold_left step t s.
Definition scan (t : pystr) : state := run state0 t.

Definition has_doctype (t : pystr) : bool := snd (fst (scan t)).
Definition declares_entity (t : pystr) : bool := snd (scan t).
(* a DOCTYPE that declares no entity: bare, external identifier only, or a subset of other declarations.
   defusedxml's defaults accept these and nothing is resolved (pyexpat does not load the external subset). *)
Definition doctype_without_entities (t : pystr) : bool := has_doctype t && negb (declares_entity t).

(* ------------------------------------------------------------------ the attack grammar *)
Inductive piece := PStr (s : pystr) | PRep (s : pystr) (n : N).
Definition rep (s : pystr) (n : N) : pystr := N.iter n (fun acc => s ++ acc)%list [].
Definition flat1 (p : piece) : pystr := match p with PStr s => s | PRep s n => rep s n end.
Definition flat (l : list piece) : pystr := flat_map flat1 l.

(* a quoted literal: single or double quotes around text that does not contain the quote *)
Record lit := mkLit { l_single : bool; l_text : list piece }.
Definition lit_q (l : lit) : N := if l_single l then cSQ else cDQ.
Definition render_lit (l : lit) : pystr := (lit_q l :: flat (l_text l) ++ [lit_q l])%list.

Inductive extid := ESystem (uri : lit) | EPublic (pubid uri : lit).
Definition render_extid (e : extid) : pystr :=
  match e with
  | ESystem u => str "SYSTEM " ++ render_lit u
  | EPublic p u => str "PUBLIC " ++ render_lit p ++ str " " ++ render_lit u
  end%list.

Inductive entdecl :=
| DInternal (name : pystr) (value : lit)                    (* <!ENTITY n "v">           (v may refer to other entities) *)
| DExternal (name : pystr) (id : extid)                     (* <!ENTITY n SYSTEM "uri">  *)
| DUnparsed (name : pystr) (id : extid) (notation : pystr)  (* <!ENTITY n SYSTEM "uri" NDATA t> *)
| DParamInternal (name : pystr) (value : lit)               (* <!ENTITY % n "v">         *)
| DParamExternal (name : pystr) (id : extid).               (* <!ENTITY % n SYSTEM "uri"> *)

Definition render_entdecl (d : entdecl) : pystr :=
  match d with
  | DInternal n v => str "<!ENTITY " ++ n ++ str " " ++ render_lit v ++ str ">"
  | DExternal n e => str "<!ENTITY " ++ n ++ str " " ++ render_extid e ++ str ">"
  | DUnparsed n e t => str "<!ENTITY " ++ n ++ str " " ++ render_extid e ++ str " NDATA " ++ t ++ str ">"
  | DParamInternal n v => str "<!ENTITY % " ++ n ++ str " " ++ render_lit v ++ str ">"
  | DParamExternal n e => str "<!ENTITY % " ++ n ++ str " " ++ render_extid e ++ str ">"
  end%list.

Inductive subset_item :=
| IEntity (d : entdecl)
| IElement (name : pystr)                      (* <!ELEMENT n ANY> *)
| IAttlist (el att : pystr) (default : lit)    (* <!ATTLIST el att CDATA "default"> *)
| INotation (name : pystr) (id : extid)        (* <!NOTATION n SYSTEM "uri"> *)
| IComment (text : pystr)                      (* <!-- text --> *)
| IPERef (name : pystr)                        (* %n; *)
| ISpace (ws : pystr).

Definition render_item (i : subset_item) : pystr :=
  match i with
  | IEntity d => render_entdecl d
  | IElement n => str "<!ELEMENT " ++ n ++ str " ANY>"
  | IAttlist e a d => str "<!ATTLIST " ++ e ++ str " " ++ a ++ str " CDATA " ++ render_lit d ++ str ">"
  | INotation n e => str "<!NOTATION " ++ n ++ str " " ++ render_extid e ++ str ">"
  | IComment t => str "<!--" ++ t ++ str "-->"
  | IPERef n => str "%" ++ n ++ str ";"
  | ISpace w => w
  end%list.

Record doctype := mkDoctype { dt_name : pystr; dt_ext : option extid; dt_subset : option (list subset_item) }.

Definition render_doctype (d : doctype) : pystr :=
  (str "<!DOCTYPE " ++ dt_name d
   ++ match dt_ext d with Some e => str " " ++ render_extid e | None => [] end
   ++ match dt_subset d with Some l => str " [" ++ flat_map render_item l ++ str "]" | None => [] end
   ++ str ">")%list.

Inductive misc :=
| XComment (text : pystr)               (* <!--text--> *)
| XPI (target data : pystr)             (* <?target data?>  (the XML declaration is one of these) *)
| XSpace (ws : pystr).

Definition render_misc (m : misc) : pystr :=
  match m with
  | XComment t => str "<!--" ++ t ++ str "-->"
  | XPI t d => str "<?" ++ t ++ str " " ++ d ++ str "?>"
  | XSpace w => w
  end%list.

Record attack := mkAttack {
  a_before : list misc;              (* XML declaration, comments, PIs, white space *)
  a_doctype : option doctype;
  a_after : list misc;
  a_root : list piece                (* the root element, opaque *)
}.

Definition render (a : attack) : pystr :=
  (flat_map render_misc (a_before a)
   ++ match a_doctype a with Some d => render_doctype d | None => [] end
   ++ flat_map render_misc (a_after a)
   ++ flat (a_root a))%list.

(* ------------------------------------------------------------------ what the abstract syntax says *)
Definition item_is_entity (i : subset_item) : bool := match i with IEntity _ => true | _ => false end.
Definition doctype_declares (d : doctype) : bool :=
  match dt_subset d with Some l => existsb item_is_entity l | None => false end.
Definition attack_has_doctype (a : attack) : bool := match a_doctype a with Some _ => true | None => false end.
Definition attack_declares (a : attack) : bool :=
  match a_doctype a with Some d => doctype_declares d | None => false end.

(* ------------------------------------------------------------------ side conditions of the grammar *)
Definition name_char (c : N) : bool :=
  ((48 <=? c) && (c <=? 57)) || ((65 <=? c) && (c <=? 90)) || ((97 <=? c) && (c <=? 122))
  || (c =? 95) || (c =? 58) || (c =? 46).
Definition is_name (s : pystr) : bool := forallb name_char s.
Definition no_char (x : N) (s : pystr) : bool := forallb (fun c => negb (c =? x)) s.

Definition wf_piece (q : N) (p : piece) : bool := match p with PStr s => no_char q s | PRep s _ => no_char q s end.
Definition wf_lit (l : lit) : bool := forallb (wf_piece (lit_q l)) (l_text l).
Definition wf_extid (e : extid) : bool :=
  match e with ESystem u => wf_lit u | EPublic p u => wf_lit p && wf_lit u end.
Definition wf_entdecl (d : entdecl) : bool :=
  match d with
  | DInternal n v | DParamInternal n v => is_name n && wf_lit v
  | DExternal n e | DParamExternal n e => is_name n && wf_extid e
  | DUnparsed n e t => is_name n && wf_extid e && is_name t
  end.
Definition wf_item (i : subset_item) : bool :=
  match i with
  | IEntity d => wf_entdecl d
  | IElement n => is_name n
  | IAttlist e a d => is_name e && is_name a && wf_lit d
  | INotation n e => is_name n && wf_extid e
  | IComment t => no_char cDash t
  | IPERef n => is_name n
  | ISpace w => forallb is_ws w
  end.
Definition wf_doctype (d : doctype) : bool :=
  is_name (dt_name d)
  && match dt_ext d with Some e => wf_extid e | None => true end
  && match dt_subset d with Some l => forallb wf_item l | None => true end.
Definition wf_misc (m : misc) : bool :=
  match m with
  | XComment t => no_char cDash t
  | XPI t d => is_name t && no_char cQM d
  | XSpace w => forallb is_ws w
  end.
(* without a DOCTYPE the scanner has to see the root element start: '<' and a character that is not '!' or '?' *)
Definition root_ok (r : list piece) : bool :=
  match flat r with
  | a :: c :: _ => (a =? cLT) && negb (c =? cBang) && negb (c =? cQM)
  | _ => false
  end.
Definition wf_attack (a : attack) : bool :=
  forallb wf_misc (a_before a)
  && match a_doctype a with
     | Some d => wf_doctype d
     | None => forallb wf_misc (a_after a) && root_ok (a_root a)
     end.

(* fingerprint used by the correspondence check to compare [render a] with the bytes really sent *)
Definition fingerprint (s : pystr) : N * N :=
  (N.of_nat (List.length s), fold_left (fun h c => (h * 31 + c) mod 4294967296) s 0).
