(* C04: a model of the dialect of Python 3.12 `re` that Radicale rights files use, of `re.escape`
   and of `str.format` as `rights/from_file.py` calls them.  Executable definitions only; the proofs
   are in Proofs/Regex*.v.  Python's `re` engine is a library: this model is tied to it by the
   correspondence run of checks/C04.py only (result AND groups of re.fullmatch on generated
   (pattern, string) pairs), never by translation.

   Dialect (everything else gives `Unsup`, never a guess):
     literals, backslash escapes of non-alphanumerics, \a \f \n \r \t \v, \d \D \s \S \w \W (ASCII
     semantics, see `cat_match`), '.', classes [...] with ranges, negation, escapes and categories,
     capturing groups (...), non-capturing groups (?:...), '|', greedy and lazy '*' '+' '?' '{m}' '{m,}'
     '{,n}' '{m,n}' (bounds <= 1000), a '{' that does not start a quantifier is a literal.
   Unsupported: anchors ^ $ \A \Z \b \B, back-references, look-around, named groups, flags, possessive
   quantifiers, atomic groups, \x \u \U \N and octal escapes.
   Errors of `re.compile` inside the dialect are modelled as `Err` (bad escape, unterminated set, bad
   range, nothing to repeat, multiple repeat, unbalanced parentheses, min > max, repeat overflow). *)
From Coq Require Import List NArith Bool.
Import ListNotations.
Require Import RV.Lib.PyStr.
Open Scope N_scope.

(* ------------------------------------------------------------------ abstract syntax *)
Inductive cat := CDigit | CSpace | CWord.
Inductive citem := CChar (c : N) | CRange (lo hi : N) | CCat (neg : bool) (k : cat).

Inductive regex :=
| Eps
| Chr (c : N)
| Any                                            (* '.', everything but "\n" *)
| CSet (neg : bool) (items : list citem)
| Cat (a b : regex)
| Alt (a b : regex)                              (* priority: a first *)
| Rep (mn : N) (mx : option N) (greedy : bool) (body : regex)
| Group (i : N) (body : regex).                  (* capturing group number i >= 1 *)

(* ------------------------------------------------------------------ characters *)
Definition in_range (lo hi c : N) : bool := (lo <=? c) && (c <=? hi).

(* ASCII semantics of the categories.  For code points >= 128 Python consults the Unicode database;
   `fullmatch_py` below refuses (Unsup) when a pattern with categories meets a non-ASCII subject. *)
Definition cat_match (k : cat) (c : N) : bool :=
  match k with
  | CDigit => in_range 48 57 c
  | CSpace => in_range 9 13 c || in_range 28 32 c
  | CWord => in_range 48 57 c || in_range 65 90 c || in_range 97 122 c || (c =? 95)
  end.

Definition citem_match (it : citem) (c : N) : bool :=
  match it with
  | CChar x => c =? x
  | CRange lo hi => in_range lo hi c
  | CCat neg k => xorb neg (cat_match k c)
  end.

Definition set_match (neg : bool) (items : list citem) (c : N) : bool :=
  xorb neg (existsb (fun it => citem_match it c) items).

(* ------------------------------------------------------------------ tokens *)
Inductive token :=
| TLit (c : N)
| TAny
| TSet (neg : bool) (items : list citem)
| TOpen (capturing : bool)
| TClose
| TBar
| TStar | TPlus | TQuest
| TBrace (mn : N) (mx : option N).

Inductive mode :=
| MNormal
| MEsc                                            (* after a backslash *)
| MParen                                          (* after "(" *)
| MParenQ                                         (* after "(?" *)
| MBraceLo (lo : list N)                          (* after "{" digits *)
| MBraceHi (lo hi : list N)                       (* after "{" digits "," digits *)
| MClsOpen                                        (* after "[" *)
| MClsItem (neg : bool) (items : list citem)      (* expecting a set member or "]" *)
| MClsEsc1 (neg : bool) (items : list citem)
| MClsAfter1 (neg : bool) (items : list citem) (code1 : citem)   (* member read, "-" may follow *)
| MClsDash (neg : bool) (items : list citem) (code1 : citem)
| MClsEsc2 (neg : bool) (items : list citem) (code1 : citem).

Inductive tstate := TS (m : mode) (acc : list token) | TSErr | TSUnsup.

Inductive escres := EscLit (c : N) | EscCat (neg : bool) (k : cat) | EscErr | EscUnsup.

Definition is_ascii_letter (c : N) : bool := in_range 65 90 c || in_range 97 122 c.
Definition is_digit (c : N) : bool := in_range 48 57 c.

(* the character after a backslash; `cls` = inside a character class (re/_parser.py _escape / _class_escape) *)
Definition decode_esc (cls : bool) (c : N) : escres :=
  if c =? 100 then EscCat false CDigit            (* \d *)
  else if c =? 68 then EscCat true CDigit         (* \D *)
  else if c =? 115 then EscCat false CSpace       (* \s *)
  else if c =? 83 then EscCat true CSpace         (* \S *)
  else if c =? 119 then EscCat false CWord        (* \w *)
  else if c =? 87 then EscCat true CWord          (* \W *)
  else if c =? 97 then EscLit 7                   (* \a *)
  else if c =? 102 then EscLit 12                 (* \f *)
  else if c =? 110 then EscLit 10                 (* \n *)
  else if c =? 114 then EscLit 13                 (* \r *)
  else if c =? 116 then EscLit 9                  (* \t *)
  else if c =? 118 then EscLit 11                 (* \v *)
  else if c =? 98 then (if cls then EscLit 8 else EscUnsup)     (* \b: backspace in a class, boundary outside *)
  else if (c =? 65) || (c =? 66) || (c =? 90) then (if cls then EscErr else EscUnsup)   (* \A \B \Z *)
  else if (c =? 120) || (c =? 117) || (c =? 85) || (c =? 78) then EscUnsup               (* \x \u \U \N *)
  else if is_digit c then EscUnsup                (* octal escape or back-reference *)
  else if is_ascii_letter c then EscErr           (* bad escape *)
  else EscLit c.

Definition lits (s : list N) : list token := map TLit s.

Definition num (ds : list N) : N := fold_left (fun a d => a * 10 + (d - 48)) ds 0.

Definition MAXREPEAT : N := 4294967295.
Definition REP_LIMIT : N := 1000.

(* "{lo}" (hi = None) or "{lo,hi}" (hi = Some _) followed by "}" *)
Definition brace_token (lo : list N) (hi : option (list N)) (acc : list token) : tstate :=
  let mn := num lo in
  let mx := match hi with
            | None => Some mn
            | Some [] => None
            | Some h => Some (num h)
            end in
  if MAXREPEAT <=? mn then TSErr
  else match mx with
       | Some x =>
           if MAXREPEAT <=? x then TSErr
           else if x <? mn then TSErr
           else if (REP_LIMIT <? mn) || (REP_LIMIT <? x) then TSUnsup
           else TS MNormal (acc ++ [TBrace mn mx])
       | None => if REP_LIMIT <? mn then TSUnsup else TS MNormal (acc ++ [TBrace mn None])
       end.

Definition normal (acc : list token) (c : N) : tstate :=
  if c =? 92 then TS MEsc acc
  else if c =? 91 then TS MClsOpen acc
  else if c =? 123 then TS (MBraceLo []) acc
  else if c =? 40 then TS MParen acc
  else if c =? 41 then TS MNormal (acc ++ [TClose])
  else if c =? 124 then TS MNormal (acc ++ [TBar])
  else if c =? 42 then TS MNormal (acc ++ [TStar])
  else if c =? 43 then TS MNormal (acc ++ [TPlus])
  else if c =? 63 then TS MNormal (acc ++ [TQuest])
  else if c =? 46 then TS MNormal (acc ++ [TAny])
  else if (c =? 94) || (c =? 36) then TSUnsup     (* ^ $ *)
  else TS MNormal (acc ++ [TLit c]).

Definition cls_item (neg : bool) (items : list citem) (acc : list token) (c : N) : tstate :=
  if (c =? 93) && nonempty items then TS MNormal (acc ++ [TSet neg items])
  else if c =? 92 then TS (MClsEsc1 neg items) acc
  else TS (MClsAfter1 neg items (CChar c)) acc.

Definition mk_range (neg : bool) (items : list citem) (code1 code2 : citem) (acc : list token) : tstate :=
  match code1, code2 with
  | CChar lo, CChar hi => if hi <? lo then TSErr else TS (MClsItem neg (items ++ [CRange lo hi])) acc
  | _, _ => TSErr
  end.

Definition step (st : tstate) (c : N) : tstate :=
  match st with
  | TSErr => TSErr
  | TSUnsup => TSUnsup
  | TS m acc =>
      match m with
      | MNormal => normal acc c
      | MEsc => match decode_esc false c with
                | EscLit x => TS MNormal (acc ++ [TLit x])
                | EscCat neg k => TS MNormal (acc ++ [TSet false [CCat neg k]])
                | EscErr => TSErr
                | EscUnsup => TSUnsup
                end
      | MParen => if c =? 63 then TS MParenQ acc else normal (acc ++ [TOpen true]) c
      | MParenQ => if c =? 58 then TS MNormal (acc ++ [TOpen false]) else TSUnsup
      | MBraceLo lo =>
          if is_digit c then TS (MBraceLo (lo ++ [c])) acc
          else if c =? 44 then TS (MBraceHi lo []) acc
          else if (c =? 125) && nonempty lo then brace_token lo None acc
          else normal (acc ++ [TLit 123] ++ lits lo) c
      | MBraceHi lo hi =>
          if is_digit c then TS (MBraceHi lo (hi ++ [c])) acc
          else if c =? 125 then brace_token lo (Some hi) acc
          else normal (acc ++ [TLit 123] ++ lits lo ++ [TLit 44] ++ lits hi) c
      | MClsOpen => if c =? 94 then TS (MClsItem true []) acc else cls_item false [] acc c
      | MClsItem neg items => cls_item neg items acc c
      | MClsEsc1 neg items =>
          match decode_esc true c with
          | EscLit x => TS (MClsAfter1 neg items (CChar x)) acc
          | EscCat n k => TS (MClsAfter1 neg items (CCat n k)) acc
          | EscErr => TSErr
          | EscUnsup => TSUnsup
          end
      | MClsAfter1 neg items code1 =>
          if c =? 45 then TS (MClsDash neg items code1) acc
          else cls_item neg (items ++ [code1]) acc c
      | MClsDash neg items code1 =>
          if c =? 93 then TS MNormal (acc ++ [TSet neg (items ++ [code1; CChar 45])])
          else if c =? 92 then TS (MClsEsc2 neg items code1) acc
          else mk_range neg items code1 (CChar c) acc
      | MClsEsc2 neg items code1 =>
          match decode_esc true c with
          | EscLit x => mk_range neg items code1 (CChar x) acc
          | EscCat n k => mk_range neg items code1 (CCat n k) acc
          | EscErr => TSErr
          | EscUnsup => TSUnsup
          end
      end
  end.

Inductive res (A : Type) := Ok (a : A) | Err | Unsup.
Arguments Ok {A} a. Arguments Err {A}. Arguments Unsup {A}.

Definition finish (st : tstate) : res (list token) :=
  match st with
  | TSErr => Err
  | TSUnsup => Unsup
  | TS m acc =>
      match m with
      | MNormal => Ok acc
      | MBraceLo lo => Ok (acc ++ [TLit 123] ++ lits lo)
      | MBraceHi lo hi => Ok (acc ++ [TLit 123] ++ lits lo ++ [TLit 44] ++ lits hi)
      | _ => Err      (* dangling backslash, "(", "(?", unterminated set *)
      end
  end.

Definition tok_run (st : tstate) (s : pystr) : tstate := fold_left step s st.
Definition tokenize (s : pystr) : res (list token) := finish (tok_run (TS MNormal []) s).

(* ------------------------------------------------------------------ parser *)
Definition bind {A B} (x : res A) (f : A -> res B) : res B :=
  match x with Ok a => f a | Err => Err | Unsup => Unsup end.

Definition is_quant (t : token) : bool :=
  match t with TStar | TPlus | TQuest | TBrace _ _ => true | _ => false end.

Definition quant_bounds (t : token) : option (N * option N) :=
  match t with
  | TStar => Some (0, None)
  | TPlus => Some (1, None)
  | TQuest => Some (0, Some 1)
  | TBrace mn mx => Some (mn, mx)
  | _ => None
  end.

(* an optional quantifier after the atom `a` *)
Definition parse_quant (a : regex) (toks : list token) : res (regex * list token) :=
  match toks with
  | q :: rest =>
      match quant_bounds q with
      | Some (mn, mx) =>
          match rest with
          | TQuest :: rest' =>
              match rest' with
              | q2 :: _ => if is_quant q2 then Err else Ok (Rep mn mx false a, rest')
              | [] => Ok (Rep mn mx false a, rest')
              end
          | TPlus :: _ => Unsup                       (* possessive *)
          | q2 :: _ => if is_quant q2 then Err        (* multiple repeat *)
                       else Ok (Rep mn mx true a, rest)
          | [] => Ok (Rep mn mx true a, rest)
          end
      | None => Ok (a, toks)
      end
  | [] => Ok (a, toks)
  end.

(* g = number of capturing groups opened so far *)
Fixpoint parse_alt (fuel : nat) (toks : list token) (g : N) {struct fuel} : res (regex * list token * N) :=
  match fuel with
  | O => Unsup
  | S f =>
      bind (parse_seq f toks g) (fun x =>
        let '(r, rest, g1) := x in
        match rest with
        | TBar :: rest' =>
            bind (parse_alt f rest' g1) (fun y => let '(r2, rest2, g2) := y in Ok (Alt r r2, rest2, g2))
        | _ => Ok (r, rest, g1)
        end)
  end
with parse_seq (fuel : nat) (toks : list token) (g : N) {struct fuel} : res (regex * list token * N) :=
  match fuel with
  | O => Unsup
  | S f =>
      match toks with
      | [] => Ok (Eps, [], g)
      | TBar :: _ => Ok (Eps, toks, g)
      | TClose :: _ => Ok (Eps, toks, g)
      | t :: rest =>
          if is_quant t then Err                       (* nothing to repeat *)
          else
            bind (match t with
                  | TLit c => Ok (Chr c, rest, g)
                  | TAny => Ok (Any, rest, g)
                  | TSet neg items => Ok (CSet neg items, rest, g)
                  | TOpen cap =>
                      let g' := if cap then g + 1 else g in
                      bind (parse_alt f rest g') (fun x =>
                        let '(r, rest1, g1) := x in
                        match rest1 with
                        | TClose :: rest2 => Ok ((if cap then Group g' r else r), rest2, g1)
                        | _ => Err                      (* missing ) *)
                        end)
                  | _ => Err
                  end) (fun x =>
              let '(a, rest1, g1) := x in
              bind (parse_quant a rest1) (fun y =>
                let '(a', rest2) := y in
                bind (parse_seq f rest2 g1) (fun z =>
                  let '(r, rest3, g3) := z in Ok (Cat a' r, rest3, g3))))
      end
  end.

Definition parse_tokens (toks : list token) : res (regex * N) :=
  bind (parse_alt (4 * List.length toks + 8) toks 0) (fun x =>
    let '(r, rest, g) := x in
    match rest with
    | [] => Ok (r, g)
    | _ => Err                                         (* unbalanced parenthesis *)
    end).

(* re.compile: the regex and its number of capturing groups *)
Definition compile (p : pystr) : res (regex * N) := bind (tokenize p) parse_tokens.

(* ------------------------------------------------------------------ backtracking matcher *)
Definition caps := list (N * pystr).               (* newest binding first *)
Inductive mres := MFuel | MFail | MOk (c : caps).
Definition kont := pystr -> caps -> mres.

Definition orelse (a : mres) (b : unit -> mres) : mres :=
  match a with MFail => b tt | _ => a end.

Definition consumed (s s' : pystr) : pystr := firstn (List.length s - List.length s') s.

Definition lt_max (count : N) (mx : option N) : bool :=
  match mx with None => true | Some x => count <? x end.

Definition same_pos (last : option nat) (s : pystr) : bool :=
  match last with None => false | Some n => Nat.eqb n (List.length s) end.

(* `m fuel r s c k`: match r at the front of s with captures c, then continue with k.
   `mloop`: the UNTIL point of a repeat with `count` completed iterations; `last` = position
   (as remaining length) where the last iteration of the post-minimum phase started -- the
   zero-width-iteration protection of sre: a further iteration is attempted only if the position
   differs from that. *)
Fixpoint m (fuel : nat) (r : regex) (s : pystr) (c : caps) (k : kont) {struct fuel} : mres :=
  match fuel with
  | O => MFuel
  | S f =>
      match r with
      | Eps => k s c
      | Chr x => match s with y :: s' => if y =? x then k s' c else MFail | [] => MFail end
      | Any => match s with y :: s' => if y =? 10 then MFail else k s' c | [] => MFail end
      | CSet neg items => match s with y :: s' => if set_match neg items y then k s' c else MFail | [] => MFail end
      | Cat a b => m f a s c (fun s' c' => m f b s' c' k)
      | Alt a b => orelse (m f a s c k) (fun _ => m f b s c k)
      | Group i body => m f body s c (fun s' c' => k s' ((i, consumed s s') :: c'))
      | Rep mn mx greedy body => mloop f body mn mx greedy 0 None s c k
      end
  end
with mloop (fuel : nat) (body : regex) (mn : N) (mx : option N) (greedy : bool)
           (count : N) (last : option nat) (s : pystr) (c : caps) (k : kont) {struct fuel} : mres :=
  match fuel with
  | O => MFuel
  | S f =>
      if count <? mn then
        m f body s c (fun s' c' => mloop f body mn mx greedy (count + 1) last s' c' k)
      else
        let again := lt_max count mx && negb (same_pos last s) in
        let iter := fun _ : unit =>
          m f body s c (fun s' c' => mloop f body mn mx greedy (count + 1) (Some (List.length s)) s' c' k) in
        if greedy then
          (if again then orelse (iter tt) (fun _ => k s c) else k s c)
        else
          orelse (k s c) (fun _ => if again then iter tt else MFail)
  end.

Definition at_end : kont := fun s c => match s with [] => MOk c | _ => MFail end.

Fixpoint rsize (r : regex) : nat :=
  match r with
  | Cat a b | Alt a b => S (rsize a + rsize b)
  | Rep mn _ _ body => S (S (N.to_nat mn) + rsize body)
  | Group _ body => S (rsize body)
  | _ => 1%nat
  end.

Definition default_fuel (r : regex) (s : pystr) : nat := (rsize r + 2) * (List.length s + 2).

Definition fullmatch_fuel (fuel : nat) (r : regex) (s : pystr) : mres := m fuel r s [] at_end.

Fixpoint lookup (i : N) (c : caps) : option pystr :=
  match c with
  | [] => None
  | (j, w) :: rest => if j =? i then Some w else lookup i rest
  end.

(* Match.groups(): group 1 .. g, None for a group that did not take part *)
Definition groups_of (g : N) (c : caps) : list (option pystr) :=
  map (fun i => lookup (N.of_nat i) c) (seq 1 (N.to_nat g)).

(* ------------------------------------------------------------------ what from_file calls *)
Fixpoint uses_cat_items (items : list citem) : bool :=
  match items with [] => false | CCat _ _ :: _ => true | _ :: r => uses_cat_items r end.
Fixpoint uses_cat (r : regex) : bool :=
  match r with
  | CSet _ items => uses_cat_items items
  | Cat a b | Alt a b => uses_cat a || uses_cat b
  | Rep _ _ _ body | Group _ body => uses_cat body
  | _ => false
  end.
Definition is_ascii (s : pystr) : bool := forallb (fun c => c <? 128) s.

Inductive fmres := FmNo | FmYes (groups : list (option pystr)) | FmErr | FmUnsup | FmFuel.

(* re.fullmatch(pattern, s): FmErr = re.error / OverflowError at compile time *)
Definition fullmatch_py (p s : pystr) : fmres :=
  match compile p with
  | Err => FmErr
  | Unsup => FmUnsup
  | Ok (r, g) =>
      if uses_cat r && negb (is_ascii s) then FmUnsup
      else match fullmatch_fuel (default_fuel r s) r s with
           | MFuel => FmFuel
           | MFail => FmNo
           | MOk c => FmYes (groups_of g c)
           end
  end.

(* ------------------------------------------------------------------ re.escape (Python 3.7+ table) *)
(* _special_chars_map = {i: '\\' + chr(i) for i in b'()[]{}?*+-|^$\\.&~# \t\n\r\v\f'} *)
Definition special_chars : list N :=
  [40; 41; 91; 93; 123; 125; 63; 42; 43; 45; 124; 94; 36; 92; 46; 38; 126; 35; 32; 9; 10; 13; 11; 12].
Definition is_special (c : N) : bool := existsb (N.eqb c) special_chars.
Definition escape_char (c : N) : pystr := if is_special c then [92; c] else [c].
Definition escape (s : pystr) : pystr := flat_map escape_char s.

(* ------------------------------------------------------------------ str.format *)
(* pattern.format( *args, user=...) for the replacement fields rights files use: {user} {0} {1} .. {}
   and the doubled braces.  Conversions, format specs, attribute/index access, nested fields and
   non-ASCII field names give Unsup.  Err = ValueError / KeyError / IndexError. *)
Inductive fmode := FText | FOpen | FClose | FField (name : list N).
Inductive numbering := NumNone | NumAuto (next : nat) | NumManual.
Inductive fstate := FS (md : fmode) (out : pystr) (nb : numbering) | FSErr | FSUnsup.

Definition user_name : pystr := [117; 115; 101; 114].

Definition field_unsupported (c : N) : bool :=
  (c =? 33) || (c =? 58) || (c =? 46) || (c =? 91) || (c =? 123) || (128 <=? c).

Definition subst_field (args : list pystr) (user : option pystr) (name : list N) (out : pystr) (nb : numbering) : fstate :=
  match name with
  | [] =>
      match nb with
      | NumManual => FSErr
      | NumNone => match nth_error args 0 with Some a => FS FText (out ++ a) (NumAuto 1) | None => FSErr end
      | NumAuto n => match nth_error args n with Some a => FS FText (out ++ a) (NumAuto (S n)) | None => FSErr end
      end
  | _ =>
      if forallb is_digit name then
        match nb with
        | NumAuto _ => FSErr
        | _ => let i := num name in                       (* leading zeros are fine: int(name) *)
               if i <? N.of_nat (List.length args) then
                 match nth_error args (N.to_nat i) with
                 | Some a => FS FText (out ++ a) NumManual
                 | None => FSErr
                 end
               else FSErr                                  (* IndexError / "Too many decimal digits" *)
        end
      else if eqs name user_name then
        match user with Some u => FS FText (out ++ u) nb | None => FSErr end
      else FSErr
  end.

Definition fstep (args : list pystr) (user : option pystr) (st : fstate) (c : N) : fstate :=
  match st with
  | FSErr => FSErr
  | FSUnsup => FSUnsup
  | FS md out nb =>
      match md with
      | FText => if c =? 123 then FS FOpen out nb
                 else if c =? 125 then FS FClose out nb
                 else FS FText (out ++ [c]) nb
      | FOpen => if c =? 123 then FS FText (out ++ [123]) nb
                 else if c =? 125 then subst_field args user [] out nb
                 else if field_unsupported c then FSUnsup
                 else FS (FField [c]) out nb
      | FClose => if c =? 125 then FS FText (out ++ [125]) nb else FSErr
      | FField name => if c =? 125 then subst_field args user name out nb
                       else if field_unsupported c then FSUnsup
                       else FS (FField (name ++ [c])) out nb
      end
  end.

Definition format (args : list pystr) (user : option pystr) (f : pystr) : res pystr :=
  match fold_left (fstep args user) f (FS FText [] NumNone) with
  | FS FText out _ => Ok out
  | FS _ _ _ => Err
  | FSErr => Err
  | FSUnsup => Unsup
  end.
