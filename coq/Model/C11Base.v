(* C11 -- common vocabulary of the three lock models (definitions only, no proofs).

   A lock model is a transition system over
     - a global part G (the lock object's fields, the kernel's flock table, ...) and
     - a list of threads T (program counter + thread-local variables), thread id = index in the list.
   One scheduling step runs ONE thread for ONE step:  tstep t g th = Some (g', th')  when thread t, in local
   state th, can move (None = blocked or finished).  A step of thread t changes the global part and t's own
   local state only.  The number of threads is the length of the list: arbitrary. *)
From Coq Require Import List Arith Bool ZArith Uint63.
Import ListNotations.

Inductive mode := R | W.
Definition mode_eqb (a b : mode) : bool :=
  match a, b with R, R => true | W, W => true | _, _ => false end.

(* list update *)
Fixpoint upd {A} (i : nat) (x : A) (l : list A) : list A :=
  match l, i with
  | [], _ => []
  | _ :: r, O => x :: r
  | y :: r, S j => y :: upd j x r
  end.

Fixpoint count {A} (p : A -> bool) (l : list A) : nat :=
  match l with [] => 0 | x :: r => (if p x then 1 else 0) + count p r end.

Definition memb (x : nat) (l : list nat) : bool := existsb (Nat.eqb x) l.
Fixpoint remove_nat (x : nat) (l : list nat) : list nat :=
  match l with [] => [] | y :: r => if Nat.eqb x y then remove_nat x r else y :: remove_nat x r end.

Definition opt_is {A} (eqb : A -> A -> bool) (o : option A) (x : A) : bool :=
  match o with Some y => eqb y x | None => false end.

Section TS.
  Context {G T : Type}.
  Variable tstep : nat -> G -> T -> option (G * T).

  Record state := St { glob : G; thr : list T }.

  Definition step (s : state) (t : nat) : option state :=
    match nth_error (thr s) t with
    | None => None
    | Some th =>
        match tstep t (glob s) th with
        | None => None
        | Some (g', th') => Some (St g' (upd t th' (thr s)))
        end
    end.

  Definition enabled (s : state) (t : nat) : bool :=
    match step s t with Some _ => true | None => false end.

  Fixpoint run (sched : list nat) (s : state) : option state :=
    match sched with
    | [] => Some s
    | t :: r => match step s t with Some s' => run r s' | None => None end
    end.

  (* states reachable from an initial state under ANY schedule *)
  Inductive reach (s0 : state) : state -> Prop :=
  | reach_init : reach s0 s0
  | reach_step : forall s t s', reach s0 s -> step s t = Some s' -> reach s0 s'.

  (* run the same thread k times *)
  Fixpoint run_n (t : nat) (k : nat) (s : state) : option state :=
    match k with
    | O => Some s
    | S k' => match step s t with Some s' => run_n t k' s' | None => None end
    end.

  (* the same, seen from the thread: only the global part and its own local state change *)
  Fixpoint lrun (t : nat) (k : nat) (g : G) (th : T) : option (G * T) :=
    match k with
    | O => Some (g, th)
    | S k' => match tstep t g th with Some (g', th') => lrun t k' g' th' | None => None end
    end.
End TS.

Arguments St {G T}.
Arguments glob {G T}.
Arguments thr {G T}.

(* ------------------------------------------------------------------ compact encodings for the correspondence files
   (thousands of small literals are slow to elaborate: schedules and traces are packed into 63-bit primitive integers) *)
Open Scope Z_scope.
(* every observed value becomes a base-64 digit 1..63 (value + 17, or 63 when out of range); 0 closes an observation *)
Definition enc_digit (x : Z) : Z := if (Z.leb (-16) x && Z.ltb x 46)%bool then x + 17 else 63.
Definition digits_of_trace (tr : list (list Z)) : list Z := concat (map (fun o => map enc_digit o ++ [0]) tr).
(* pack 10 base-64 digits per word, first digit most significant; the last word is padded with zeros *)
Fixpoint pack_word (n : nat) (acc : Z) (l : list Z) : Z * list Z :=
  match n with
  | O => (acc, l)
  | S k => match l with
           | [] => pack_word k (acc * 64) []
           | x :: r => pack_word k (acc * 64 + x) r
           end
  end.
Fixpoint pack (fuel : nat) (l : list Z) : list Z :=
  match fuel with
  | O => []
  | S f => match l with
           | [] => []
           | _ => let '(w, r) := pack_word 10 0 l in w :: pack f r
           end
  end.
Definition enc_trace (tr : list (list Z)) : list Z :=
  let d := digits_of_trace tr in pack (S (List.length d)) d.
(* schedule: words of 20 base-8 digits, least significant digit first *)
Fixpoint unpack_word (n : nat) (z : Z) : list nat :=
  match n with O => [] | S k => Z.to_nat (z mod 8) :: unpack_word k (z / 8) end.
Definition decode_sched (n : nat) (ws : list Z) : list nat := firstn n (concat (map (unpack_word 20) ws)).
Close Scope Z_scope.
Fixpoint eqb_li (a b : list Uint63.int) : bool :=
  match a, b with [], [] => true | x :: a', y :: b' => Uint63.eqb x y && eqb_li a' b' | _, _ => false end.
