(* C11 -- common vocabulary of the three lock models (definitions only, no proofs).

   A lock model is a transition system over
     - a global part G (the lock object's fields, the kernel's flock table, ...) and
     - a list of threads T (program counter + thread-local variables), thread id = index in the list.
   One scheduling step runs ONE thread for ONE step:  tstep t g th = Some (g', th')  when thread t, in local
   state th, can move (None = blocked or finished).  A step of thread t changes the global part and t's own
   local state only.  The number of threads is the length of the list: arbitrary. *)
From Coq Require Import List Arith Bool ZArith.
Import ListNotations.

Inductive mode := R | W.
Definition mode_eqb (a b : mode) : bool :=
  match a, b with R, R => true | W, W => true | _, _ => false end.

(* list update *)
Fixpoint upd {A} (i : nat) (x : A) (l : list A) : list A :=
  match l, i with
  | [], _ => []
  | _ :: r, O => x :: r
  | y :: r, S j => y :: upd j x r
  end.

Fixpoint count {A} (p : A -> bool) (l : list A) : nat :=
  match l with [] => 0 | x :: r => (if p x then 1 else 0) + count p r end.

Definition memb (x : nat) (l : list nat) : bool := existsb (Nat.eqb x) l.
Fixpoint remove_nat (x : nat) (l : list nat) : list nat :=
  match l with [] => [] | y :: r => if Nat.eqb x y then remove_nat x r else y :: remove_nat x r end.

Definition opt_is {A} (eqb : A -> A -> bool) (o : option A) (x : A) : bool :=
  match o with Some y => eqb y x | None => false end.

Section TS.
  Context {G T : Type}.
  Variable tstep : nat -> G -> T -> option (G * T).

  Record state := St { glob : G; thr : list T }.

  Definition step (s : state) (t : nat) : option state :=
    match nth_error (thr s) t with
    | None => None
    | Some th =>
        match tstep t (glob s) th with
        | None => None
        | Some (g', th') => Some (St g' (upd t th' (thr s)))
        end
    end.

  Definition enabled (s : state) (t : nat) : bool :=
    match step s t with Some _ => true | None => false end.

  Fixpoint run (sched : list nat) (s : state) : option state :=
    match sched with
    | [] => Some s
    | t :: r => match step s t with Some s' => run r s' | None => None end
    end.

  (* states reachable from an initial state under ANY schedule *)
  Inductive reach (s0 : state) : state -> Prop :=
  | reach_init : reach s0 s0
  | reach_step : forall s t s', reach s0 s -> step s t = Some s' -> reach s0 s'.

  (* run the same thread k times *)
  Fixpoint run_n (t : nat) (k : nat) (s : state) : option state :=
    match k with
    | O => Some s
    | S k' => match step s t with Some s' => run_n t k' s' | None => None end
    end.

  (* the same, seen from the thread: only the global part and its own local state change *)
  Fixpoint lrun (t : nat) (k : nat) (g : G) (th : T) : option (G * T) :=
    match k with
    | O => Some (g, th)
    | S k' => match tstep t g th with Some (g', th') => lrun t k' g' th' | None => None end
    end.
End TS.

Arguments St {G T}.
Arguments glob {G T}.
Arguments thr {G T}.
