(* C05: instantiation of the Section variables of Model/Gate.v and Model/Htpasswd.v by finite
   tables, so that the correspondence check can hand the answers of the real external parties
   (Python str.upper/lower, base64+charset decoding, the scripted back-end, passlib/bcrypt) to the
   model as data.  Only used by generated cases_*.v files.  No proofs in this file. *)
From Coq Require Import List NArith ZArith Bool String.
Import ListNotations.
Require Import RV.Lib.PyStr RV.Model.Path RV.Model.C05Text RV.Model.LoginMap RV.Model.Gate RV.Model.Htpasswd.
Open Scope N_scope.

Fixpoint assoc {B} (t : list (pystr * B)) (k : pystr) : option B :=
  match t with [] => None | (a, b) :: r => if eqs a k then Some b else assoc r k end.
Fixpoint assoc2 {B} (t : list (pystr * pystr * B)) (k1 k2 : pystr) : option B :=
  match t with [] => None | (a1, a2, b) :: r => if eqs a1 k1 && eqs a2 k2 then Some b else assoc2 r k1 k2 end.

Definition tab_fn (t : list (pystr * pystr)) (dflt : pystr -> pystr) (s : pystr) : pystr :=
  match assoc t s with Some r => r | None => dflt s end.

Fixpoint eq_list {A} (eq : A -> A -> bool) (a b : list A) : bool :=
  match a, b with
  | [], [] => true
  | x :: a', y :: b' => eq x y && eq_list eq a' b'
  | _, _ => false
  end.
Definition eq_opt {A} (eq : A -> A -> bool) (a b : option A) : bool :=
  match a, b with Some x, Some y => eq x y | None, None => true | _, _ => false end.

(* ------------------------------------------------------------------ gate *)
Record gcase := {
  g_cfg : config; g_env : environ;
  g_upper : list (pystr * pystr); g_lower : list (pystr * pystr);
  g_decode : list (pystr * pystr * option pystr);      (* (content-type, payload) -> text *)
  g_backend : list (pystr * pystr * option pystr);     (* (login, pw) -> user / raises *)
  g_handler : hresp;
  g_exists : list pystr; g_exists_w : list pystr; g_rights : list pystr
}.

Definition run_gate (c : gcase) : result :=
  gate (tab_fn (g_lower c) lower_ascii) (tab_fn (g_upper c) upper_ascii)
       (fun ct p => match assoc2 (g_decode c) ct p with Some r => r | None => None end)
       (fun l p => match assoc2 (g_backend c) l p with Some r => r | None => Some [] end)
       (fun _ _ _ _ => g_handler c)
       (fun u => mem_str u (g_exists c)) (fun u => mem_str u (g_exists_w c)) (fun u => mem_str u (g_rights c))
       (fun u => negb (is_safe_filesystem_path_component u))
       (g_cfg c) (g_env c).

(* what the harness observes of the real Application *)
Definition gobs := (N * bool * option pystr * list effect)%type.   (* status, WWW-Authenticate, Location, events *)

Definition eq_effect (a b : effect) : bool :=
  match a, b with
  | EBackend l p, EBackend l' p' => eqs l l' && eqs p p'
  | EHome u c, EHome u' c' => eqs u u' && Bool.eqb c c'
  | EHomeRecheck u c, EHomeRecheck u' c' => eqs u u' && Bool.eqb c c'
  | EDispatch m bp p u, EDispatch m' bp' p' u' => eqs m m' && eqs bp bp' && eqs p p' && eqs u u'
  | _, _ => false
  end.

Definition obs_of (r : result) : gobs :=
  (status_of (r_final r), www_authenticate (r_final r),
   match r_final r with FRedirect l => Some l | _ => None end, r_effects r).

Definition eq_gobs (a b : gobs) : bool :=
  let '(s, w, l, e) := a in let '(s', w', l', e') := b in
  (s =? s') && Bool.eqb w w' && eq_opt eqs l l' && eq_list eq_effect e e'.

(* ------------------------------------------------------------------ htpasswd *)
Definition eq_scheme (a b : scheme) : bool :=
  match a, b with
  | SPlain, SPlain | SMd5, SMd5 | SSha256, SSha256 | SSha512, SSha512 | SBcrypt, SBcrypt => true
  | _, _ => false
  end.

Fixpoint vlookup (t : list (scheme * pystr * pystr * vres)) (s : scheme) (h pw : pystr) : vres :=
  match t with
  | [] => VRaise       (* a call the harness did not anticipate shows up as a disagreement *)
  | (s', h', pw', r) :: rest => if eq_scheme s s' && eqs h h' && eqs pw pw' then r else vlookup rest s h pw
  end.

Record hcase := {
  hc_cfg : hconfig; hc_fixed : bool;
  hc_lc : bool; hc_uc : bool; hc_sd : bool;
  hc_upper : list (pystr * pystr); hc_lower : list (pystr * pystr);
  hc_verify : list (scheme * pystr * pystr * vres);
  hc_file0 : hfile;
  hc_steps : list (hfile * pystr * pystr)       (* file at the attempt, login as typed, password *)
}.

(* BaseAuth.login (cache_logins off) over Auth._login: None = start-up refused *)
Definition run_htpasswd (c : hcase) : option (list lres) :=
  match init_with (hc_fixed c) (hc_cfg c) (hc_file0 c) with
  | None => None
  | Some st =>
      let ml := map_login (tab_fn (hc_lower c) lower_ascii) (tab_fn (hc_upper c) upper_ascii)
                          (hc_lc c) (hc_uc c) (hc_sd c) in
      Some (run (vlookup (hc_verify c)) (hc_cfg c) st
                (map (fun '(f, l, pw) => (f, ml l, pw)) (hc_steps c)))
  end.

Definition eq_lres (a b : lres) : bool :=
  match a, b with
  | LUser u, LUser v => eqs u v | LFail, LFail => true | LRaise, LRaise => true | _, _ => false
  end.
Definition eq_hres (a b : option (list lres)) : bool := eq_opt (eq_list eq_lres) a b.
