(* C07 -- running the model on a harness-generated history and serialising what it shows, for the
   correspondence check (checks/C07.py).  Tokens and history etags are renamed by first appearance, exactly
   as vlib/x_C07.py does for the hex strings of the implementation.  No proofs depend on this file. *)
From Coq Require Import List NArith ZArith Bool.
Import ListNotations.
Require Import RV.Model.Sync.
Open Scope Z_scope.

Inductive targ := TNone | TMal | TIx (i : N).
Inductive iop :=
| IPut (c h e : N) | IDel (c h : N) | IMove (c h c2 h2 : N) | IReplace (c : N) (l : list (N * N))
| IDelColl (c : N) | IDropCache (c : N) (inroot : bool) | ITick (dt : N) | ISync (c : N) (a : targ) | IPTok (c : N)
| ISyncFail (c : N) (a : targ).

Record canon := mkCanon { seen_tok : list token; seen_he : list hetag }.

Fixpoint index_of {A} (eqb : A -> A -> bool) (x : A) (l : list A) (i : N) : option N :=
  match l with
  | [] => None
  | y :: r => if eqb x y then Some i else index_of eqb x r (N.succ i)
  end.

Definition tok_id (k : canon) (t : token) : canon * Z :=
  match index_of token_eqb t (seen_tok k) 0%N with
  | Some i => (k, Z.of_N i)
  | None => (mkCanon (seen_tok k ++ [t]) (seen_he k), Z.of_nat (length (seen_tok k)))
  end.
Definition he_id (k : canon) (x : hetag) : canon * Z :=
  match index_of hetag_eqb x (seen_he k) 0%N with
  | Some i => (k, Z.of_N i)
  | None => (mkCanon (seen_tok k) (seen_he k ++ [x]), Z.of_nat (length (seen_he k)))
  end.

(* a well-formed token the server never handed out: real snapshots only hold chained history etags *)
Definition bogus_token := Tok [(0%N, HSeed 0)].

Definition resolve (k : canon) (a : targ) : sync_arg :=
  match a with
  | TNone => ANone
  | TMal => AMal
  | TIx i => ATok (nth (N.to_nat i) (seen_tok k) bogus_token)
  end.

Definition to_op (k : canon) (o : iop) : op :=
  match o with
  | IPut c h e => Put c h e | IDel c h => Del c h | IMove c h c2 h2 => Move c h c2 h2
  | IReplace c l => Replace c l | IDelColl c => DelColl c | IDropCache c b => DropCache c b
  | ITick dt => Tick dt | ISync c a => Sync c (resolve k a) | IPTok c => PTok c
  | ISyncFail c a => SyncFail c (resolve k a)
  end.

Definition zcid (e : option etag) : Z := match e with Some (EText c) => Z.of_N c | None => -1 end.

Definition sort_by_key {V} (l : list (N * V)) : list (N * V) := fold_right (fun p acc => ains (fst p) (snd p) acc) [] l.

Fixpoint ser_snap (k : canon) (s : snapshot) : canon * list Z :=
  match s with
  | [] => (k, [])
  | (h, x) :: r => let '(k1, i) := he_id k x in let '(k2, out) := ser_snap k1 r in (k2, Z.of_N h :: i :: out)
  end.

Fixpoint ser_hist (k : canon) (hi : hist) : canon * list Z :=
  match hi with
  | [] => (k, [])
  | (h, (ce, x, mt)) :: r =>
      let '(k1, i) := he_id k x in let '(k2, out) := ser_hist k1 r in (k2, Z.of_N h :: zcid ce :: i :: mt :: out)
  end.

(* token files sorted by canonical token id *)
Fixpoint tok_ids (k : canon) (ts : tstore) : canon * list (N * trec) :=
  match ts with
  | [] => (k, [])
  | (t, r) :: rest => let '(k1, i) := tok_id k t in let '(k2, out) := tok_ids k1 rest in (k2, (Z.to_N i, r) :: out)
  end.

Fixpoint ser_toks (k : canon) (ts : list (N * trec)) : canon * list Z :=
  match ts with
  | [] => (k, [])
  | (i, (s, mt)) :: rest =>
      let '(k1, o1) := ser_snap k (sort_by_key s) in
      let '(k2, o2) := ser_toks k1 rest in
      (k2, Z.of_N i :: mt :: Z.of_nat (length s) :: o1 ++ o2)
  end.

Definition ser_coll (k : canon) (x : coll) : canon * list Z :=
  let items := flat_map (fun p : href * etag => [Z.of_N (fst p); zcid (Some (snd p))]) (c_items x) in
  let '(k1, hs) := ser_hist k (c_hist x) in
  let '(k2, ts) := tok_ids k1 (c_toks x) in
  let '(k3, tz) := ser_toks k2 (sort_by_key ts) in
  (k3, (if c_exists x then 1 else 0) :: Z.of_nat (length (c_items x)) :: items
       ++ Z.of_nat (length (c_hist x)) :: hs ++ Z.of_nat (length (c_toks x)) :: tz).

Definition ser_result (k : canon) (st : state) (c : collid) (r : result) : canon * list Z :=
  match r with
  | RUnit => (k, [0])
  | RNoColl => (k, [1])
  | RSync Refused => (k, [2])
  | RSync (Delta t d) =>
      let '(k1, i) := tok_id k t in
      let ms := sort_by_key (multistatus st c d) in
      (k1, 3 :: i :: Z.of_nat (length ms) :: flat_map (fun p : href * option etag => [Z.of_N (fst p); zcid (snd p)]) ms)
  | RTok t => let '(k1, i) := tok_id k t in (k1, [4; i])
  | RFail => (k, [5])
  end.

Definition op_coll (o : iop) : collid :=
  match o with
  | IPut c _ _ | IDel c _ | IMove c _ _ _ | IReplace c _ | IDelColl c | IDropCache c _ | ISync c _ | IPTok c
  | ISyncFail c _ => c
  | ITick _ => 0%N
  end.

(* one observation per operation: result ++ dump of collections 0 and 1 *)
Fixpoint observe (cfg : config) (st : state) (k : canon) (ops : list iop) : list (list Z) :=
  match ops with
  | [] => []
  | o :: rest =>
      let '(st1, r) := step cfg st (to_op k o) in
      let '(k1, zr) := ser_result k st1 (op_coll o) r in
      let '(k2, z0) := ser_coll k1 (getc st1 0%N) in
      let '(k3, z1) := ser_coll k2 (getc st1 1%N) in
      (zr ++ z0 ++ z1) :: observe cfg st1 k3 rest
  end.

Definition observe0 (cfg : config) (ops : list iop) : list (list Z) :=
  observe cfg init_state (mkCanon [] []) ops.

Fixpoint zlist_eqb (a b : list Z) : bool :=
  match a, b with [], [] => true | x :: r, y :: s => Z.eqb x y && zlist_eqb r s | _, _ => false end.
Fixpoint obs_eqb (a b : list (list Z)) : bool :=
  match a, b with [], [] => true | x :: r, y :: s => zlist_eqb x y && obs_eqb r s | _, _ => false end.
(* index of the first differing observation, for diagnostics *)
Fixpoint first_diff (a b : list (list Z)) (i : N) : option N :=
  match a, b with
  | [], [] => None
  | x :: r, y :: s => if zlist_eqb x y then first_diff r s (N.succ i) else Some i
  | _, _ => Some i
  end.
