(* C05: the htpasswd back-end plugged into the gate (auth type htpasswd is an AOther back-end whose
   _login is Model.Htpasswd.hlogin on the file as it is at the time of the request).  No proofs here. *)
From Coq Require Import List NArith Bool.
Import ListNotations.
Require Import RV.Lib.PyStr RV.Model.Gate RV.Model.Htpasswd.

Definition ht_backend (ext_verify : scheme -> pystr -> pystr -> vres) (cfg : hconfig) (st : hstate) (f : hfile)
  : pystr -> pystr -> option pystr :=
  fun l pw => match snd (hlogin ext_verify cfg st f l pw) with
              | LUser u => Some u | LFail => Some [] | LRaise => None end.
