(* C09 -- the request handlers of Model/Handlers.v as concurrent programs (Model/Conc.v) over the ideal store.
   Definitions only.

   A request of a logged-in user passes the gate of Application._handle_request:
       with acquire_lock("r"): principal = discover("/user/")                     -- section G1
       if not principal and "W" in rights:  with acquire_lock("w"): create ...    -- section G2
       handler: with acquire_lock(mode): ...                                      -- section H
   G2 of the UNCHANGED code creates the home and the predefined collections without looking again
   ([provision_unchecked]); G2 of the repaired code re-checks under the exclusive lock ([provision]). *)
From Coq Require Import List NArith Bool.
Import ListNotations.
Require Import RV.Model.Conc.
Require Import RV.Lib.PyStr RV.Lib.Item RV.Model.Store RV.Model.Access RV.Model.Handlers RV.Model.HandlersCanon.
Open Scope N_scope.

(* ---- the handler proper (what runs inside the handler's own critical section) ---- *)
Definition hbody (cfg : config) (pol : policy) (s : store) (r : request) : store * response :=
  match r with
  | RPut p ct b im inm => do_put cfg pol s p ct b im inm
  | RDelete p im => do_delete cfg pol s p im
  | RMove p dest_ok to ow => do_move pol s p (negb dest_ok) false to ow
  | RMkcol p x => do_mkcol pol s p x
  | RMkcalendar p x => do_mkcalendar pol s p x
  | RProppatch p x => do_proppatch pol s p x
  | RGet p => (s, do_get pol s p)
  | RPropfind p d => (s, do_propfind pol s p d)
  | RMultiget p cal hs => (s, do_multiget pol s p cal hs)
  | RQuery p k flt => (s, do_query pol s p k flt)
  end.

(* the lock mode each handler asks for (tied to the source by Gen_sections_ok, Proofs/C09Skeleton.v) *)
Definition hmode (r : request) : lmode :=
  match r with RGet _ | RPropfind _ _ | RMultiget _ _ _ | RQuery _ _ _ => Rd | _ => Wr end.

(* ---- home provisioning ---- *)
(* [storage] predefined_collections: name below the home, tag, properties (non-empty in the real config) *)
Definition predef := list (name * tag * list (N * N)).

Definition home_absent (s : store) (u : name) : bool :=
  match resolve s [u] with NNothing => true | _ => false end.

(* create_collection(href) without props: makedirs -- nothing happens when the folder exists *)
Definition create_plain (s : store) (p : path) : store :=
  match lookup s p with Some _ => s | None => set_coll s p (mkColl TNone [] []) end.
(* create_collection(href, props=...): the collection is built aside and swapped in, replacing what was there *)
Definition create_with_props (s : store) (p : path) (t : tag) (props : list (N * N)) : store :=
  set_coll (del_subtree s p) p (mkColl t props []).
Definition create_predefined (pre : predef) (s : store) (u : name) : store :=
  fold_left (fun acc e => create_with_props acc [u; fst (fst e)] (snd (fst e)) (snd e)) pre s.

(* section G2 of the unchanged gate *)
Definition provision_unchecked (pre : predef) (s : store) (u : name) : store :=
  create_predefined pre (create_plain s [u]) u.
(* section G2 of the repaired gate: look again under the exclusive lock *)
Definition provision (pre : predef) (s : store) (u : name) : store :=
  if home_absent s u then provision_unchecked pre s u else s.

Definition may_create (pol : policy) (u : name) : bool := has lW (pol [u]).
Definition gate_absent (pol : policy) (u : name) (s : store) : bool := home_absent s u && may_create pol u.

(* what the gate does for a request when nothing else runs (the sequential specification) *)
Definition prov_spec (pre : predef) (pol : policy) (user : option name) (s : store) : store :=
  match user with
  | Some u => if may_create pol u then provision pre s u else s
  | None => s
  end.

(* a whole request executed alone: the specification the concurrent executions are compared with *)
Definition handle_pre (pre : predef) (cfg : config) (pol : policy) (user : option name) (s : store) (r : request)
  : store * response := hbody cfg pol (prov_spec pre pol user s) r.

(* ---- requests as concurrent programs ---- *)
Definition hsec (cfg : config) (pol : policy) (r : request) : prog store response :=
  Acq (hmode r) (Step (fun s => fst (hbody cfg pol s r))
                      (fun s => Rel (Tau (Ret (snd (hbody cfg pol s r)))))).

Definition g2 (fixed : bool) (pre : predef) (pol : policy) (u : name) (s : store) : store :=
  if fixed then prov_spec pre pol (Some u) s else provision_unchecked pre s u.

Definition req_prog (fixed : bool) (pre : predef) (cfg : config) (user : option name) (pol : policy) (r : request)
  : prog store response :=
  Tau (match user with
       | None => hsec cfg pol r
       | Some u => gated (gate_absent pol u) (g2 fixed pre pol u) (fun s => s) (hsec cfg pol r)
       end).

(* the same request as a record for the gate theorem *)
Definition req_greq (pre : predef) (cfg : config) (user : option name) (pol : policy) (r : request) : greq store response :=
  mkG (match user with Some u => gate_absent pol u | None => fun _ => false end)
      (prov_spec pre pol user) (fun s => s) (hsec cfg pol r).


(* ---- batches of requests by several users ---- *)
Definition breq := (option name * policy * request)%type.
Definition breq_prog (fixed : bool) (pre : predef) (cfg : config) (b : breq) : prog store response :=
  req_prog fixed pre cfg (fst (fst b)) (snd (fst b)) (snd b).
Definition breq_greq (pre : predef) (cfg : config) (b : breq) : greq store response :=
  req_greq pre cfg (fst (fst b)) (snd (fst b)) (snd b).

(* the batch executed one request at a time, in the given order, under the specification [handle_pre] *)
Definition serial_handle_step (pre : predef) (cfg : config) (reqs : list breq)
                              (acc : store * list (nat * response)) (i : nat) : store * list (nat * response) :=
  match nth_error reqs i with
  | Some b => let r := handle_pre pre cfg (snd (fst b)) (fst (fst b)) (fst acc) (snd b) in
              (fst r, snd acc ++ [(i, snd r)])
  | None => acc
  end.
Definition serial_handle (pre : predef) (cfg : config) (reqs : list breq) (order : list nat) (s0 : store) :=
  fold_left (serial_handle_step pre cfg reqs) order (s0, []).

(* ---- worlds: several users, each with a policy table (as in HandlersCanon) ---- *)
Record cworld := mkCW { cw_world : world; cw_pre : predef; cw_fixed : bool }.

Definition ureq_prog (w : cworld) (ir : ureq) : prog store response :=
  let '(u, pol) := nth_user (cw_world w) (fst ir) in
  req_prog (cw_fixed w) (cw_pre w) (w_cfg (cw_world w)) u pol (snd ir).

Definition ureq_spec (w : cworld) (s : store) (ir : ureq) : store * response :=
  let '(u, pol) := nth_user (cw_world w) (fst ir) in
  handle_pre (cw_pre w) (w_cfg (cw_world w)) pol u s (snd ir).

(* a sequential history under the specification *)
Fixpoint run_spec (w : cworld) (s : store) (rs : list ureq) : store * list response :=
  match rs with
  | [] => (s, [])
  | ir :: rest => let '(s1, o) := ureq_spec w s ir in
                  let '(s2, os) := run_spec w s1 rest in (s2, o :: os)
  end.

(* ---- scripted schedules: a "turn" lets one thread run through its next critical section ---- *)
(* from its current point the thread runs: local steps, Acquire, the section, Release, and the local steps
   up to (not including) its next Acquire or its response.  Turns never overlap, so every turn is admitted. *)
Definition cfg_t := Conc.config store response.

Fixpoint drain (fuel : nat) (i : nat) (inside : bool) (c : cfg_t) : cfg_t :=
  match fuel with
  | O => c
  | S f =>
      match nth_error (snd c) i with
      | None => c
      | Some t =>
          match code t, inside with
          | Acq _ _, false => match step1 i c with Some (c', _) => drain f i true c' | None => c end
          | Acq _ _, true => c                        (* the next section: stop before it *)
          | Ret _, _ => c
          | Rel _, _ => match step1 i c with Some (c', _) => drain f i true c' | None => c end
          | _, _ => match step1 i c with Some (c', _) => drain f i inside c' | None => c end
          end
      end
  end.
(* [inside] becomes true at the Acquire and stays true: after the Release the thread only takes local steps *)

Definition turn (i : nat) (c : cfg_t) : cfg_t := drain 64 i false c.
Definition run_turns (turns : list nat) (c : cfg_t) : cfg_t := fold_left (fun c i => turn i c) turns c.

Definition resp_of (t : thread store response) : option response :=
  match norm (code t) with Ret r => Some r | _ => None end.

(* the model's prediction for: a sequential set-up history, then the requests [rs] run concurrently under the
   turn schedule, every thread being drained at the end in index order *)
Definition predict (w : cworld) (setup : list ureq) (rs : list ureq) (turns : list nat)
  : cstore * list cresp * list (option cresp) :=
  let '(s0, outs) := run_spec w empty_store setup in
  let c0 := init s0 (map (ureq_prog w) rs) in
  let c1 := run_turns (turns ++ flat_map (fun i => [i; i; i; i]) (seq 0 (length rs))) c0 in
  (canon_store (fst c1), map canon outs, map (fun t => option_map canon (resp_of t)) (snd c1)).

(* ---- deciding serialisability of an observed outcome against the specification ---- *)
Definition ocresp_eqb (a : option cresp) (b : cresp) : bool :=
  match a with Some x => cresp_eqb x b | None => false end.

(* all orders of the requests [pending] (index, request): is there one whose responses and final store match? *)
Fixpoint ser_search (fuel : nat) (w : cworld) (s : store) (pending : list (nat * ureq))
                    (obs_resp : list cresp) (obs_store : cstore) : bool :=
  match pending with
  | [] => cstore_eqb (canon_store s) obs_store
  | _ =>
      match fuel with
      | O => false
      | S f =>
          existsb (fun x =>
                     let '(s1, o) := ureq_spec w s (snd x) in
                     match nth_error obs_resp (fst x) with
                     | Some r => cresp_eqb (canon o) r &&
                                 ser_search f w s1 (filter (fun y => negb (Nat.eqb (fst y) (fst x))) pending) obs_resp obs_store
                     | None => false
                     end) pending
      end
  end.

Fixpoint index_from {A} (n : nat) (l : list A) : list (nat * A) :=
  match l with [] => [] | x :: r => (n, x) :: index_from (S n) r end.

Definition serialisable (w : cworld) (setup rs : list ureq) (obs_resp : list cresp) (obs_store : cstore) : bool :=
  let s0 := fst (run_spec w empty_store setup) in
  ser_search (S (length rs)) w s0 (index_from 0 rs) obs_resp obs_store.

(* ---- linearisability of a recorded concurrent history (Wing-Gong search, evaluated by vm_compute) ---- *)
(* an operation: who, what, when it was invoked, when it returned, what was answered *)
Record op := mkOp { op_req : ureq; op_inv : N; op_ret : N; op_resp : cresp }.

(* x may be linearised next iff no other pending operation returned before x was invoked *)
Definition minimal (x : nat * op) (pending : list (nat * op)) : bool :=
  forallb (fun y => Nat.eqb (fst y) (fst x) || negb (N.ltb (op_ret (snd y)) (op_inv (snd x)))) pending.

Definition drop (i : nat) (pending : list (nat * op)) : list (nat * op) :=
  filter (fun y => negb (Nat.eqb (fst y) i)) pending.

(* READS FIRST.  A read-only request that may be linearised now, whose response matches and that leaves the store as
   it is, can be taken at once: moving it to the front of any linearisation keeps it valid -- provided it is
   store-preserving WHEREVER it stands.  A reader changes the store only through the gate's provisioning; when no
   PENDING request can remove a home ([homes_stay]) a provisioning that is a no-op now stays one in every
   continuation.  (A write that happens to change nothing in the current state must NOT be taken greedily, nor the
   handler of a reader whose provisioning would still create something.) *)
Definition is_reader (r : request) : bool := match hmode r with Rd => true | Wr => false end.
Definition removes_home (r : request) : bool :=
  match r with RDelete p _ => Nat.leb (length p) 1 | _ => false end.
Definition homes_stay (pending : list (nat * op)) : bool :=
  negb (existsb (fun x => removes_home (snd (op_req (snd x)))) pending).

Fixpoint find_pure (step : store -> ureq -> store * response) (s : store) (cs : cstore)
                   (pending cands : list (nat * op)) : option nat :=
  match cands with
  | [] => None
  | x :: rest =>
      if is_reader (snd (op_req (snd x))) && minimal x pending then
        let '(s1, o) := step s (op_req (snd x)) in
        if cresp_eqb (canon o) (op_resp (snd x)) && cstore_eqb (canon_store s1) cs then Some (fst x)
        else find_pure step s cs pending rest
      else find_pure step s cs pending rest
  end.

(* states from which the search is known to fail: (pending operations, provisioned ones, canonical store) *)
Definition memo := list (list nat * list nat * cstore).
Fixpoint nats_eqb (a b : list nat) : bool :=
  match a, b with [], [] => true | x :: a', y :: b' => Nat.eqb x y && nats_eqb a' b' | _, _ => false end.
Definition seen (m : memo) (ids pr : list nat) (cs : cstore) : bool :=
  existsb (fun e => nats_eqb (fst (fst e)) ids && nats_eqb (snd (fst e)) pr && cstore_eqb (snd e) cs) m.

(* depth-first search with a budget of visited nodes and a memo of failed states:
   (found, budget left, memo); (false, 0, _) = gave up *)
Fixpoint lin_b (fuel : nat) (w : cworld) (obs_store : cstore) (s : store) (pending : list (nat * op))
               (budget : N) (m : memo) : bool * N * memo :=
  match pending with
  | [] => (cstore_eqb (canon_store s) obs_store, budget, m)
  | _ =>
      match fuel with
      | O => (false, budget, m)
      | S f =>
          let cs := canon_store s in
          let ids := map fst pending in
          if seen m ids [] cs then (false, budget, m) else
          match (if homes_stay pending then find_pure (ureq_spec w) s cs pending pending else None) with
          | Some i => lin_b f w obs_store s (drop i pending) budget m
          | None =>
          let '(ok, b, m') :=
          (fix try (cands : list (nat * op)) (budget : N) (m : memo) : bool * N * memo :=
             match cands with
             | [] => (false, budget, m)
             | x :: rest =>
                 if N.eqb budget 0 then (false, 0, m) else
                 if minimal x pending then
                   let '(s1, o) := ureq_spec w s (op_req (snd x)) in
                   if cresp_eqb (canon o) (op_resp (snd x)) then
                     let '(ok, b', m') := lin_b f w obs_store s1 (drop (fst x) pending) (N.pred budget) m in
                     if ok then (true, b', m') else try rest b' m'
                   else try rest budget m
                 else try rest budget m
             end) pending budget m in
          if ok then (true, b, m') else (false, b, if N.eqb b 0 then m' else (ids, [], cs) :: m')
          end
      end
  end.

(* The weaker reading, used to classify a history that is not linearisable at request level: the units are
   critical sections.  The gate's provisioning and the handler are separate transactions of one request;
   an operation may first "provision" (once, any time after its invocation) and later run its handler on
   whatever the store then holds. *)
Definition ureq_body (w : cworld) (s : store) (ir : ureq) : store * response :=
  let '(u, pol) := nth_user (cw_world w) (fst ir) in hbody (w_cfg (cw_world w)) pol s (snd ir).
Definition ureq_prov (w : cworld) (s : store) (ir : ureq) : store :=
  let '(u, pol) := nth_user (cw_world w) (fst ir) in prov_spec (cw_pre w) pol u s.

Fixpoint lin_s (fuel : nat) (w : cworld) (obs_store : cstore) (s : store) (pending : list (nat * op))
               (proved : list nat) (budget : N) (m : memo) : bool * N * memo :=
  match pending with
  | [] => (cstore_eqb (canon_store s) obs_store, budget, m)
  | _ =>
      match fuel with
      | O => (false, budget, m)
      | S f =>
          let cs := canon_store s in
          let ids := map fst pending in
          if seen m ids proved cs then (false, budget, m) else
          match (if homes_stay pending then find_pure (ureq_spec w) s cs pending pending else None) with
          | Some i => lin_s f w obs_store s (drop i pending) proved budget m
          | None =>
          let '(ok, b, m') :=
          (fix try (cands : list (nat * op)) (budget : N) (m : memo) : bool * N * memo :=
             match cands with
             | [] => (false, budget, m)
             | x :: rest =>
                 if N.eqb budget 0 then (false, 0, m) else
                 if minimal x pending then
                   (* the handler section of x, on the store as it is *)
                   let '(s1, o) := ureq_body w s (op_req (snd x)) in
                   let '(ok1, b1, m1) :=
                     if cresp_eqb (canon o) (op_resp (snd x))
                     then lin_s f w obs_store s1 (drop (fst x) pending) proved (N.pred budget) m
                     else (false, budget, m) in
                   if ok1 then (true, b1, m1) else
                   (* or the provisioning section of x, if it has not run yet and changes something *)
                   let s2 := ureq_prov w s (op_req (snd x)) in
                   let '(ok2, b2, m2) :=
                     if negb (existsb (Nat.eqb (fst x)) proved) && negb (cstore_eqb (canon_store s2) cs)
                     then (if N.eqb b1 0 then (false, 0, m1)
                           else lin_s f w obs_store s2 pending (fst x :: proved) (N.pred b1) m1)
                     else (false, b1, m1) in
                   if ok2 then (true, b2, m2) else try rest b2 m2
                 else try rest budget m
             end) pending budget m in
          if ok then (true, b, m') else (false, b, if N.eqb b 0 then m' else (ids, proved, cs) :: m')
          end
      end
  end.

(* verdict on one recorded history: 0 = linearisable at request level ([handle_pre] per request),
   1 = only when the gate's provisioning and the handler count as separate transactions,
   2 = not even then, 3 = search budget exhausted *)
Definition lin_verdict (w : cworld) (setup : list ureq) (ops : list op) (obs_store : cstore) (budget : N) : N :=
  let s0 := fst (run_spec w empty_store setup) in
  let pending := index_from 0 ops in
  let '(ok, b, _) := lin_b (S (length ops)) w obs_store s0 pending budget [] in
  if ok then 0 else
  let '(ok2, b2, _) := lin_s (2 * length ops + 1) w obs_store s0 pending [] budget [] in
  if ok2 then 1 else if N.eqb b 0 || N.eqb b2 0 then 3 else 2.
