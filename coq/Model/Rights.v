(* Hand-written canonical model of the three simple rights back-ends
   radicale/rights/{authenticated,owner_only,owner_write}.py and of rights.intersect,
   plus their closed-form specifications by component list.
   Tied to the code by Proofs/GenEqRights.v (tie T: equal to the regenerated translation).
   Executable definitions only; no proofs in this file. *)
From Coq Require Import List NArith Bool String.
Import ListNotations.
Require Import RV.Lib.PyStr RV.Model.Path.
Open Scope N_scope.

(* authenticated.Rights.__init__: self._verify_user = self.configuration.get("auth", "type") != "none"
   (owner_only and owner_write inherit it) *)
(* The option is `str_or_callable`: Some name, or None = a value that is not a str (an auth plugin given as a
   callable / class when Radicale is embedded); `x != "none"` is True for every non-str x. *)
Definition verify_user (auth_type : option pystr) : bool :=
  match auth_type with
  | Some t => negb (eqs t (str "none"))
  | None => true
  end.

(* `if self._verify_user and not user: return ""` *)
Definition anonymous_denied (verify : bool) (u : pystr) : bool := verify && negb (nonempty u).

(* sane_path.split("/", maxsplit=1)[0] *)
Definition first_component (sp : pystr) : pystr := fst (split1 slash sp).

(* the common tail of the three back-ends:
     if "/" not in sane_path: return <top>
     if sane_path.count("/") == 1: return <coll>
     return ""                                            *)
Definition by_depth (sp top coll : pystr) : pystr :=
  if negb (contains_char slash sp) then top
  else if count_char slash sp =? 1 then coll
  else [].

(* authenticated.Rights.authorization; verify = self._verify_user *)
Definition authenticated (verify : bool) (u p : pystr) : pystr :=
  if anonymous_denied verify u then [] else
  by_depth (strip_path p) (str "RW") (str "rw").

(* owner_only.Rights.authorization *)
Definition owner_only (verify : bool) (u p : pystr) : pystr :=
  if anonymous_denied verify u then [] else
  let sp := strip_path p in
  if negb (nonempty sp) then str "R" else
  if verify && negb (eqs u (first_component sp)) then [] else
  by_depth sp (str "RW") (str "rw").

(* owner_write.Rights.authorization *)
Definition owner_write (verify : bool) (u p : pystr) : pystr :=
  if anonymous_denied verify u then [] else
  let sp := strip_path p in
  if negb (nonempty sp) then str "R" else
  let owned := if verify then eqs u (first_component sp) else true in
  if owned then by_depth sp (str "RW") (str "rw") else by_depth sp (str "R") (str "r").

(* rights.intersect *)
Definition intersect (a b : pystr) : pystr := intersect_chars a b.

(* ---- closed-form specifications, by the component list `comps p` of Model/Path.v ---- *)

Definition owner_only_spec (verify : bool) (u : pystr) (cs : list pystr) : pystr :=
  if anonymous_denied verify u then [] else
  match cs with
  | [] => str "R"
  | [o] => if verify && negb (eqs u o) then [] else str "RW"
  | [o; _] => if verify && negb (eqs u o) then [] else str "rw"
  | _ => []
  end.

Definition owner_write_spec (verify : bool) (u : pystr) (cs : list pystr) : pystr :=
  if anonymous_denied verify u then [] else
  match cs with
  | [] => str "R"
  | [o] => if verify && negb (eqs u o) then str "R" else str "RW"
  | [o; _] => if verify && negb (eqs u o) then str "r" else str "rw"
  | _ => []
  end.

Definition authenticated_spec (verify : bool) (u : pystr) (cs : list pystr) : pystr :=
  if anonymous_denied verify u then [] else
  match cs with
  | [] | [_] => str "RW"
  | [_; _] => str "rw"
  | _ => []
  end.

(* permission letters: 'R' = 82, 'W' = 87, 'r' = 114, 'w' = 119 *)
Definition has_perm (c : N) (perms : pystr) : bool := contains_char c perms.
Definition no_write (perms : pystr) : bool :=
  negb (contains_char 87 perms) && negb (contains_char 119 perms).
