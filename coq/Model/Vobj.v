(* C14 -- component trees over content lines, vobject's serialisation order, and Radicale's documented
   clean-ups (radicale/item/__init__.py: read_components, check_and_sanitize_items) as functions.
   No proofs in this file. *)
From Coq Require Import List NArith Bool String.
Import ListNotations.
Require Import RV.Lib.PyStr RV.Model.ContentLine.
Open Scope N_scope.

(* ------------------------------------------------------------------ trees *)
Inductive node := L (l : cl) | C (name : pystr) (children : list node).

Definition s_BEGIN := str "BEGIN".   Definition s_END := str "END".

(* readComponents: a stack of open components (innermost first), children kept reversed *)
Definition frame := (pystr * list node)%type.

Fixpoint build_aux (ls : list cl) (stack : list frame) (tops : list node) : option (list node) :=
  match ls with
  | [] => match stack with [] => Some (rev tops) | _ => None end       (* "component was never closed" *)
  | l :: r =>
      if eqs (cl_name l) s_BEGIN then build_aux r ((upper_ascii (cl_value l), []) :: stack) tops
      else if eqs (cl_name l) s_END then
        match stack with
        | (n, ch) :: st =>
            if eqs (upper_ascii (cl_value l)) n then
              match st with
              | [] => build_aux r [] (C n (rev ch) :: tops)
              | (n', ch') :: st' => build_aux r ((n', C n (rev ch) :: ch') :: st') tops
              end
            else None                                                  (* "component wasn't closed" *)
        | [] => None                                                   (* END without BEGIN *)
        end
      else
        match stack with
        | (n, ch) :: st => build_aux r ((n, L l :: ch) :: st) tops
        | [] => None                                                   (* a line outside any component: outside the model *)
        end
  end.
Definition build (ls : list cl) : option (list node) := build_aux ls [] [].

Definition begin_line (n : pystr) : cl := mkCl None s_BEGIN [] n.
Definition end_line (n : pystr) : cl := mkCl None s_END [] n.

Fixpoint flatten (x : node) : list cl :=
  match x with
  | L l => [l]
  | C n ch => begin_line n :: (fix fl (l : list node) : list cl :=
                                 match l with [] => [] | y :: r => flatten y ++ fl r end) ch ++ [end_line n]
  end.
Definition flatten_all (l : list node) : list cl := List.concat (map flatten l).

(* ------------------------------------------------------------------ vobject's child order *)
Definition key_of (x : node) : pystr :=
  match x with L l => lower_ascii (cl_name l) | C n _ => lower_ascii n end.
Definition is_comp (x : node) : bool := match x with C _ _ => true | L _ => false end.

Definition sort_first (cname : pystr) : list pystr :=
  if eqs cname (str "VCALENDAR") then map str ["version"; "calscale"; "method"; "prodid"; "vtimezone"]%string
  else if eqs cname (str "VTIMEZONE") then map str ["tzid"; "last-modified"; "tzurl"; "standard"; "daylight"]%string
  else if eqs cname (str "VEVENT") || eqs cname (str "AVAILABLE")
       then map str ["uid"; "recurrence-id"; "dtstart"; "duration"; "dtend"]%string
  else if eqs cname (str "VFREEBUSY") || eqs cname (str "VAVAILABILITY")
       then map str ["uid"; "dtstart"; "duration"; "dtend"]%string
  else if eqs cname (str "VCARD") then map str ["version"; "prodid"; "uid"]%string
  else [].

Fixpoint insert_node (x : node) (l : list node) : list node :=
  match l with
  | [] => [x]
  | h :: t => if str_ltb (key_of h) (key_of x) then h :: insert_node x t else x :: l   (* strict: the sort is stable *)
  end.
Definition sort_nodes (l : list node) : list node := fold_right insert_node [] l.

Definition with_key (k : pystr) (l : list node) := filter (fun x => eqs (key_of x) k) l.
Definition without_keys (ks : list pystr) (l : list node) := filter (fun x => negb (mem_str (key_of x) ks)) l.

(* Component.getSortedChildren *)
Definition order_default (cname : pystr) (ch : list node) : list node :=
  let first := sort_first cname in
  List.concat (map (fun k => with_key k ch) first) ++ sort_nodes (without_keys first ch).

(* VCalendar2_0.serialize: properties first (sortFirst, then by name), then components (sortFirst, then by name) *)
Definition order_vcalendar (ch : list node) : list node :=
  let props := filter (fun x => negb (is_comp x)) ch in
  let comps := filter is_comp ch in
  order_default (str "VCALENDAR") props ++ order_default (str "VCALENDAR") comps.

Definition order_children (cname : pystr) (ch : list node) : list node :=
  if eqs cname (str "VCALENDAR") then order_vcalendar ch else order_default cname ch.

Fixpoint canon_node (x : node) : node :=
  match x with
  | L l => L l
  | C n ch => C n (order_children n (map canon_node ch))
  end.

(* the serialised text of an object as vobject writes it, given the tree it holds *)
Definition serialize_nodes (l : list node) : pystr := print_lines (flatten_all (map canon_node l)).
(* reading it back (vobject.readOne on stored text) *)
Definition read_nodes (t : pystr) : option (list node) :=
  match parse_lines t with Some ls => build ls | None => None end.

(* ------------------------------------------------------------------ clean-up 1: control characters *)
(* re.sub(r'[\x00-\x08\x0B\x0C\x0E-\x1F]', '', s) *)
Definition is_ctrl (c : N) : bool := (c <=? 8) || (c =? 11) || (c =? 12) || ((14 <=? c) && (c <=? 31)).
Definition strip_ctrl (s : pystr) : pystr := filter (fun c => negb (is_ctrl c)) s.

(* ------------------------------------------------------------------ clean-up 2: PHOTO data-URI prefix *)
(* re.sub(r"^(PHOTO(?:;[^:\r\n]*)?;ENCODING=b(?:;[^:\r\n]*)?:)data:[^;,\r\n]*;base64,", r"\1", s,
          flags=MULTILINE|IGNORECASE)  applied to one physical line (text after a line start). *)
Definition lower_s (s : pystr) : pystr := map lower_c' s.
Definition istarts (s p : pystr) : bool := startswith (lower_s s) (lower_s p).

(* does `hay` contain ";encoding=b" followed by ';' or the end of hay? (hay is lower-cased) *)
Fixpoint has_enc_b (hay : pystr) : bool :=
  match hay with
  | [] => false
  | _ :: r =>
      (startswith hay (str ";encoding=b")
       && match skipn 11 hay with [] => true | c :: _ => c =? SEMI end)
      || has_enc_b r
  end.

Definition no_colon_brk (c : N) : bool := negb ((c =? COLON) || is_brk c).
Definition media_char (c : N) : bool := negb ((c =? SEMI) || (c =? COMMA) || is_brk c).

Definition photo_fix_line (line : pystr) : pystr :=
  if istarts line (str "PHOTO") then
    let rest := skipn 5 line in
    let '(pars, r1) := span no_colon_brk rest in
    match r1 with
    | c :: r2 =>
        if (c =? COLON) && startswith pars [SEMI] && has_enc_b (lower_s pars) && istarts r2 (str "data:") then
          let '(media, r3) := span media_char (skipn 5 r2) in
          if istarts r3 (str ";base64,") then firstn 5 line ++ pars ++ COLON :: skipn 8 r3 else line
        else line
    | [] => line
    end
  else line.

(* split after every LF (MULTILINE: ^ matches at the start and after each "\n") *)
Definition photo_fix (t : pystr) : pystr := List.concat (map photo_fix_line (readlines t)).

(* read_components up to the call of vobject *)
Definition read_cleanup (t : pystr) : pystr := strip_ctrl (photo_fix t).

(* ------------------------------------------------------------------ clean-ups 3 and 4, on a VEVENT/VTODO/VJOURNAL *)
Definition lines_named (n : pystr) (ch : list node) : list cl :=
  flat_map (fun x => match x with L l => if eqs (cl_name l) n then [l] else [] | C _ _ => [] end) ch.
Definition drop_named (n : pystr) (ch : list node) : list node :=
  filter (fun x => match x with L l => negb (eqs (cl_name l) n) | C _ _ => true end) ch.

Definition param (k : pystr) (l : cl) : option (list pystr) :=
  match find (fun kv => eqs (fst kv) k) (cl_params l) with Some kv => Some (snd kv) | None => None end.
Definition del_param (k : pystr) (ps : list (pystr * list pystr)) := filter (fun kv => negb (eqs (fst kv) k)) ps.
(* dict assignment: replaces in place when the key exists, appends otherwise *)
Fixpoint set_param (k : pystr) (v : list pystr) (ps : list (pystr * list pystr)) :=
  match ps with
  | [] => [(k, v)]
  | (k', v') :: t => if eqs k k' then (k', v) :: t else (k', v') :: set_param k v t
  end.

Definition is_digit (c : N) : bool := (48 <=? c) && (c <=? 57).

(* --- durations: [+-]P(nW | [nD][T[nH][nM][nS]]), value in seconds; None = not of this shape *)
Fixpoint digits_val (s : pystr) (acc : N) : N := match s with c :: r => digits_val r (acc * 10 + (c - 48)) | [] => acc end.

(* consume  *(number unit)  with units from `units`, summing number * weight *)
Fixpoint dur_units (fuel : nat) (s : pystr) (units : list (N * N)) (acc : N) : option (N * pystr) :=
  match fuel with
  | O => None
  | S f =>
      let '(ds, r) := span is_digit s in
      match ds, r with
      | [], _ => Some (acc, s)
      | _ :: _, u :: r' =>
          match find (fun uw => fst uw =? u) units with
          | Some (_, w) => dur_units f r' units (acc + digits_val ds 0 * w)
          | None => None
          end
      | _ :: _, [] => None
      end
  end.

Definition duration_seconds (raw : pystr) : option N :=
  let s := match raw with c :: r => if (c =? 43) || (c =? 45) then r else raw | [] => raw end in
  match s with
  | c :: r =>
      if c =? 80 (* P *) then
        match dur_units (S (List.length r)) r [(87, 604800); (68, 86400)] 0 with   (* W D *)
        | Some (a, r1) =>
            match r1 with
            | [] => if nonempty r then Some a else None
            | t :: r2 =>
                if t =? 84 (* T *) then
                  match dur_units (S (List.length r2)) r2 [(72, 3600); (77, 60); (83, 1)] 0 with  (* H M S *)
                  | Some (b, []) => if nonempty r2 then Some (a + b) else None
                  | _ => None
                  end
                else None
            end
        | None => None
        end
      else None
  | [] => None
  end.

Definition s_DTEND := str "DTEND".     Definition s_DURATION := str "DURATION".  Definition s_DTSTART := str "DTSTART".
Definition s_EXDATE := str "EXDATE".   Definition s_RDATE := str "RDATE".        Definition s_VALUE := str "VALUE".
Definition s_DATE := str "DATE".       Definition s_DATETIME := str "DATE-TIME". Definition s_TZID := str "TZID".

(* clean-up 3: DTEND present and the first DURATION is zero: every DURATION is removed *)
Definition zero_duration_applies (ch : list node) : bool :=
  nonempty (lines_named s_DTEND ch)
  && match lines_named s_DURATION ch with
     | d :: _ => match duration_seconds (cl_value d) with Some 0 => true | _ => false end
     | [] => false
     end.
Definition fix_zero_duration (ch : list node) : list node :=
  if zero_duration_applies ch then drop_named s_DURATION ch else ch.

(* --- clean-up 4: EXDATE / RDATE get the value type of DTSTART *)
Definition is_date_str (v : pystr) : bool := Nat.eqb (List.length v) 8 && forallb is_digit v.
Definition is_datetime_str (v : pystr) : bool :=
  forallb is_digit (firstn 8 v) && match skipn 8 v with
                                    | t :: r => (t =? 84) && forallb is_digit (firstn 6 r) && Nat.eqb (List.length (firstn 6 r)) 6
                                                && match skipn 6 r with [] => true | [z] => z =? 90 | _ => false end
                                    | [] => false
                                    end.
Inductive vtype := TDate | TDateTime | TOther.
Definition vtype_eqb (a b : vtype) : bool :=
  match a, b with TDate, TDate | TDateTime, TDateTime | TOther, TOther => true | _, _ => false end.

Definition value_param_type (l : cl) : vtype :=
  match param s_VALUE l with
  | Some (v :: _) => if eqs (upper_ascii v) s_DATE then TDate else if eqs (upper_ascii v) s_DATETIME then TDateTime else TOther
  | _ => TDateTime
  end.
(* parseDtstart(allowSignatureMismatch=True) *)
Definition dtstart_type (l : cl) : vtype :=
  match value_param_type l with
  | TDate => if is_date_str (cl_value l) then TDate else TOther
  | TDateTime => if is_datetime_str (cl_value l) then TDateTime else if is_date_str (cl_value l) then TDate else TOther
  | TOther => TOther
  end.
Definition multidate_ok (t : vtype) (v : pystr) : bool :=
  match t with TDate => is_date_str v | TDateTime => is_datetime_str v | TOther => false end.

(* one EXDATE/RDATE line against the reference DTSTART; None = the real code raises (object refused) *)
Definition fix_dates_line (ref : cl) (rt : vtype) (l : cl) : option cl :=
  if nonempty (cl_value l) then
    let t := value_param_type l in
    let vals := split_on COMMA (cl_value l) in
    if negb (forallb (multidate_ok t) vals) then None
    else if vtype_eqb t rt then Some l
    else
      let time_part := skipn 8 (cl_value ref) in      (* "T" hhmmss ["Z"] of DTSTART, empty for a DATE *)
      let vals' := map (fun v => firstn 8 v ++ match rt with TDateTime => time_part | _ => [] end) vals in
      let ps0 := del_param s_VALUE (cl_params l) in
      let ps1 := match param s_VALUE ref with
                 | Some rv => set_param s_VALUE rv ps0
                 | None => match rt with TDate => set_param s_VALUE [s_DATE] ps0 | _ => ps0 end
                 end in
      (* a zone-aware DTSTART hands its TZID to the converted values (MultiDateBehavior.transformFromNative) *)
      let ps2 := match rt, param s_TZID ref with
                 | TDateTime, Some tz => set_param s_TZID tz ps1
                 | _, _ => ps1
                 end in
      Some (mkCl (cl_group l) (cl_name l) ps2 (join [COMMA] vals'))
  else Some l.

Fixpoint fix_dates_children (ref : cl) (rt : vtype) (ch : list node) : option (list node) :=
  match ch with
  | [] => Some []
  | x :: r =>
      match fix_dates_children ref rt r with
      | None => None
      | Some r' =>
          match x with
          | L l => if eqs (cl_name l) s_EXDATE || eqs (cl_name l) s_RDATE
                   then match fix_dates_line ref rt l with Some l' => Some (L l' :: r') | None => None end
                   else Some (x :: r')
          | C _ _ => Some (x :: r')
          end
      end
  end.

Definition fix_dates (ch : list node) : option (list node) :=
  match lines_named s_DTSTART ch with
  | ref :: _ => match dtstart_type ref with
                | TOther => None
                | rt => fix_dates_children ref rt ch
                end
  | [] => Some ch
  end.

Definition is_main_component (n : pystr) : bool :=
  eqs n (str "VEVENT") || eqs n (str "VTODO") || eqs n (str "VJOURNAL").

(* check_and_sanitize_items on the children of one VCALENDAR: the quirk fixes only
   (the UID / component-type checks are modelled in Split.v and C15) *)
Fixpoint sanitize_children (ch : list node) : option (list node) :=
  match ch with
  | [] => Some []
  | x :: r =>
      match sanitize_children r with
      | None => None
      | Some r' =>
          match x with
          | C n sub => if is_main_component n
                       then match fix_dates (fix_zero_duration sub) with
                            | Some sub' => Some (C n sub' :: r')
                            | None => None
                            end
                       else Some (x :: r')
          | L _ => Some (x :: r')
          end
      end
  end.

Definition sanitize (x : node) : option node :=
  match x with
  | C n ch => if eqs n (str "VCALENDAR")
              then match sanitize_children ch with Some ch' => Some (C n ch') | None => None end
              else Some x
  | L _ => Some x
  end.

(* none of the documented cases applies to this component *)
Definition dates_clean (ch : list node) : bool :=
  match lines_named s_DTSTART ch with
  | ref :: _ =>
      let rt := dtstart_type ref in
      forallb (fun l => negb (nonempty (cl_value l)) || vtype_eqb (value_param_type l) rt)
              (lines_named s_EXDATE ch ++ lines_named s_RDATE ch)
  | [] => true
  end.
Definition nothing_to_clean (x : node) : bool :=
  match x with
  | C n ch => negb (eqs n (str "VCALENDAR"))
              || forallb (fun y => match y with
                                   | C m sub => negb (is_main_component m) || (negb (zero_duration_applies sub) && dates_clean sub)
                                   | L _ => true
                                   end) ch
  | L _ => true
  end.

(* ------------------------------------------------------------------ value codecs per property (vobject behaviours) *)
(* Which codec vobject applies to a content line depends on the enclosing component: a name listed in the
   component behaviour's knownChildren gets the behaviour registered under that name (none registered = the raw
   value is kept), any other name gets the component's default behaviour, which is the TEXT codec.
   The tables below are the ones of vobject 0.9.x; checks/C14.py compares them with the installed library on
   every run.  Names whose registered behaviour converts to a native value (dates, durations, N, ADR, ORG) are
   listed as raw: the model is exact for them only on canonical values, which is what the byte-exact
   correspondence stream generates. *)
Inductive vclass := VRaw | VText | VMulti (sep : N).

Definition names (l : list string) : list pystr := map str l.
Definition recur_raw := names ["ATTACH"; "ATTENDEE"; "CREATED"; "DTSTAMP"; "DTSTART"; "EXDATE"; "EXRULE"; "LAST-MODIFIED";
  "ORGANIZER"; "RDATE"; "RECURRENCE-ID"; "RRULE"; "SEQUENCE"; "URL"]%string.
Definition raw_names (comp : pystr) : list pystr :=
  if eqs comp (str "VCALENDAR") then names ["VERSION"]%string
  else if eqs comp (str "VEVENT") then recur_raw ++ names ["DTEND"; "DURATION"; "GEO"; "PRIORITY"]%string
  else if eqs comp (str "VTODO") then recur_raw ++ names ["COMPLETED"; "DUE"; "DURATION"; "GEO"; "PERCENT"; "PRIORITY"]%string
  else if eqs comp (str "VJOURNAL") then recur_raw
  else if eqs comp (str "VALARM") then names ["DURATION"; "REPEAT"; "TRIGGER"]%string
  else if eqs comp (str "VTIMEZONE") then names ["LAST-MODIFIED"; "TZID"; "TZURL"]%string
  else if eqs comp (str "STANDARD") || eqs comp (str "DAYLIGHT") then names ["DTSTART"; "RRULE"]%string
  else if eqs comp (str "VCARD") then names ["ADR"; "GEO"; "N"; "ORG"; "VERSION"]%string
  else [].
Definition multi_names (comp : pystr) : list (pystr * N) :=
  if eqs comp (str "VEVENT") || eqs comp (str "VTODO")
  then [(str "CATEGORIES", COMMA); (str "RESOURCES", COMMA); (str "REQUEST-STATUS", SEMI)]
  else if eqs comp (str "VJOURNAL") then [(str "CATEGORIES", COMMA); (str "REQUEST-STATUS", SEMI)]
  else if eqs comp (str "VCARD") then [(str "CATEGORIES", COMMA)]
  else [].

(* base64 payloads bypass the TEXT codec: iCalendar when ENCODING=BASE64, vCard whenever ENCODING is present *)
Definition s_ENCODING := str "ENCODING".
Definition is_base64 (comp : pystr) (l : cl) : bool :=
  match param s_ENCODING l with
  | Some (v :: _) => if eqs comp (str "VCARD") then true else eqs (upper_ascii v) (str "BASE64")
  | _ => false
  end.

Definition value_class (comp : pystr) (l : cl) : vclass :=
  if mem_str (cl_name l) (raw_names comp) then VRaw
  else match find (fun kv => eqs (fst kv) (cl_name l)) (multi_names comp) with
       | Some (_, sep) => VMulti sep
       | None => if is_base64 comp l then VRaw else VText
       end.

Definition canon_value (comp : pystr) (l : cl) : cl :=
  match value_class comp l with
  | VRaw => l
  | VText => mkCl (cl_group l) (cl_name l) (cl_params l) (text_canon (cl_value l))
  | VMulti sep => mkCl (cl_group l) (cl_name l) (cl_params l) (multitext_canon sep (cl_value l))
  end.

Fixpoint canon_values (comp : pystr) (x : node) : node :=
  match x with
  | L l => L (canon_value comp l)
  | C n ch => C n (map (canon_values n) ch)
  end.

(* ------------------------------------------------------------------ PUT of one object, end to end *)
(* vobject never folds PHOTO lines of a vCard (wacky_apple_photo_serialize) *)
Definition fold_line_in (comp : pystr) (l : cl) : pystr :=
  if eqs comp (str "VCARD") && eqs (cl_name l) (str "PHOTO") then print_cl l ++ [CR; LF] else fold_line (print_cl l).

Fixpoint print_node (comp : pystr) (x : node) : pystr :=
  match x with
  | L l => fold_line_in comp l
  | C n ch => fold_line (print_cl (begin_line n))
              ++ (fix pl (l : list node) : pystr := match l with [] => [] | y :: r => print_node n y ++ pl r end) ch
              ++ fold_line (print_cl (end_line n))
  end.

(* stored text of an accepted single-object upload; None = refused or outside the model *)
Definition put_model (t : pystr) : option pystr :=
  match parse_lines_qp (read_cleanup t) with
  | Some ls =>
      match build ls with
      | Some [x] =>
          match sanitize (canon_values [] x) with
          | Some y => Some (print_node [] (canon_node y))
          | None => None
          end
      | _ => None
      end
  | None => None
  end.

(* what a later cache miss recomputes from the stored text (multifilesystem/get.py: read_components +
   check_and_sanitize_items + serialize): the same pipeline applied to the stored text *)
Definition reload_model (stored : pystr) : option pystr := put_model stored.
