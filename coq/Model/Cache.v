(* Model/Cache.v -- executable model of Radicale's item cache (property C13).

   Follows, line by line, radicale/storage/multifilesystem/{cache,get,upload,move,delete,create_collection}.py
   at the pinned commit.  No proofs here: the model must still run when a proof breaks.

   Abstractions (see notes/C13.md):
   * a collection is a number, an item name (href, always a safe file-system component) is a number;
   * the bytes of an item file are a content id [content := N]; a file is (content id, size, mtime_ns);
   * [derive v b] is what the server computes from the bytes [b] when the cache misses, under cache version [v]
     (read_components + check_and_sanitize_items + Item + _item_cache_content: uid, etag, text, name, tag,
     start, end); [None] = that code raises.  It is a Section variable: the theorems hold for every such function;
   * SHA-256(version + bytes) and the string  version + "size=S;mtime=M"  are the free constructors
     [KHash] / [KStat] (a hex digest never equals a string containing '=' and ';').
   * a cache entry file is [EOk key d] (a pickle (key, *d)), [EGarbage] (pickle.load raises UnpicklingError or
     ValueError, or the first element is empty: swallowed by _load_item_cache) or [EEmpty] (an empty file:
     EOFError, which _load_item_cache does NOT catch). *)
From Coq Require Import List NArith Bool.
Import ListNotations.
Open Scope N_scope.

(* ------------------------------------------------------------------ association lists (directories) *)
Section AMap.
  Context {K V : Type}.
  Variable keqb : K -> K -> bool.

  Fixpoint alook (m : list (K * V)) (k : K) : option V :=
    match m with
    | [] => None
    | (k', v) :: r => if keqb k' k then Some v else alook r k
    end.

  Definition adel (m : list (K * V)) (k : K) : list (K * V) :=
    filter (fun kv => negb (keqb (fst kv) k)) m.

  Definition aput (m : list (K * V)) (k : K) (v : V) : list (K * V) := (k, v) :: adel m k.
End AMap.

(* ------------------------------------------------------------------ names, files, keys, configuration *)
Definition coll := N.
Definition href := N.
Definition content := N.

Record file := mkFile { f_bytes : content; f_size : N; f_mtime : N }.

Inductive kmode := MHash | MStat.          (* [storage] use_mtime_and_size_for_item_cache = False | True *)
Inductive loc := LIn | LSub (root : N).    (* [storage] use_cache_subfolder_for_item = False | True:
                                              <collection>/.Radicale.cache/item  |  <root>/collection-cache/<path>/.Radicale.cache/item
                                              where <root> is filesystem_cache_folder, or filesystem_folder when that is empty *)
Inductive lockmode := LkR | LkW.           (* self._storage._lock.locked *)

Record cfg := mkCfg { g_mode : kmode; g_loc : loc; g_ver : N; g_skip : bool; g_cw : bool }.
(* g_ver: storage.CACHE_VERSION (an id);  g_skip: [storage] skip_broken_item;
   g_cw: the cache location can be written (false: every write of an entry by _get fails with an OSError -- disk full,
   quota, read-only file system; get.py then serves the freshly built content without storing it) *)

Inductive ckey :=
| KHash (v : N) (b : content)              (* _item_cache_hash: sha256(CACHE_VERSION + raw_text).hexdigest() *)
| KStat (v : N) (size mtime : N).          (* _item_cache_mtime_and_size: CACHE_VERSION + "size=" + size + ";mtime=" + mtime_ns *)

Definition key_ver (k : ckey) : N := match k with KHash v _ => v | KStat v _ _ => v end.

Definition ckey_eqb (a b : ckey) : bool :=
  match a, b with
  | KHash v x, KHash w y => N.eqb v w && N.eqb x y
  | KStat v s m, KStat w t n => N.eqb v w && N.eqb s t && N.eqb m n
  | _, _ => false
  end.

Definition loc_eqb (a b : loc) : bool :=
  match a, b with LIn, LIn => true | LSub m, LSub n => N.eqb m n | _, _ => false end.

Definition fkey := (coll * href)%type.                 (* an item file *)
Definition ekey := (loc * coll * href)%type.           (* a cache entry file *)
Definition fkey_eqb (a b : fkey) : bool := N.eqb (fst a) (fst b) && N.eqb (snd a) (snd b).
Definition ekey_eqb (a b : ekey) : bool :=
  match a, b with (l, c, h), (l', c', h') => loc_eqb l l' && N.eqb c c' && N.eqb h h' end.

Section Model.
  Context {D : Type}.                                  (* CacheContent *)
  Variable derive : N -> content -> option D.          (* version -> bytes -> derived (None = exception) *)

  Inductive entry := EOk (k : ckey) (d : D) | EGarbage | EEmpty.
  (* EEmpty stands for every entry file whose load raises something _load_item_cache does not catch: an empty file
     (EOFError), a pickle that is not a sequence (TypeError) *)

  Definition files := list (fkey * file).
  Definition cache := list (ekey * entry).
  Record st := mkSt { s_files : files; s_cache : cache }.

  Definition flook (fs : files) (c : coll) (h : href) : option file := alook fkey_eqb fs (c, h).
  Definition clook (ca : cache) (l : loc) (c : coll) (h : href) : option entry := alook ekey_eqb ca (l, c, h).

  (* get.py 82-90 / upload.py 51-58: the key of the current configuration for a file *)
  Definition key_of (g : cfg) (f : file) : ckey :=
    match g_mode g with
    | MStat => KStat (g_ver g) (f_size f) (f_mtime f)
    | MHash => KHash (g_ver g) (f_bytes f)
    end.

  (* cache.py 103-124  _load_item_cache *)
  Inductive lres := LHit (d : D) | LMiss | LRaise.
  Definition load_item_cache (g : cfg) (ca : cache) (c : coll) (h : href) (key : ckey) : lres :=
    match clook ca (g_loc g) c h with
    | None => LMiss                                            (* FileNotFoundError: pass *)
    | Some (EOk k d) => if ckey_eqb k key then LHit d else LMiss   (* hash_ and hash_ == cache_hash *)
    | Some EGarbage => LMiss                                   (* (pickle.UnpicklingError, ValueError): warning *)
    | Some EEmpty => LRaise                                    (* EOFError propagates *)
    end.

  (* cache.py 84-101  _store_item_cache (always called with a cache_hash at the pinned commit) *)
  Definition store_item_cache (g : cfg) (ca : cache) (c : coll) (h : href) (key : ckey) (d : D) : cache :=
    aput ekey_eqb ca (g_loc g, c, h) (EOk key d).

  (* cache.py 126-130 + 39-67  _clean_item_cache: remove the entries (of the current location) of this collection
     whose name is not an item file *)
  Definition clean_item_cache (g : cfg) (fs : files) (ca : cache) (c : coll) : cache :=
    filter (fun kv => match fst kv with
                      | (l, c', h) => negb (loc_eqb l (g_loc g) && N.eqb c' c &&
                                            match flook fs c h with None => true | Some _ => false end)
                      end) ca.

  (* ---------------------------------------------------------------- get.py 55-140  _get *)
  Inductive gres := GAbsent | GItem (d : D) | GSkip | GFail.
  Inductive ev := EvHit | EvMiss | EvHit2 | EvStore (k : ckey) | EvClean | EvBroken | EvRaise | EvStoreFail.
  Record gout := mkGout { o_res : gres; o_cache : cache; o_cleaned : bool; o_evs : list ev }.

  (* [ca] is the cache at the first lookup, [ca2] the cache when the cache lock has been taken (another reader may
     have filled entries in the meantime; [ca2 = ca] when nobody did).  Under the exclusive storage lock there is no
     second lookup and no other process. *)
  Definition get_at (g : cfg) (lk : lockmode) (cleaned : bool) (fs : files) (ca ca2 : cache)
             (c : coll) (h : href) : gout :=
    match flook fs c h with
    | None => mkGout GAbsent ca cleaned []                     (* FileNotFoundError: return None *)
    | Some f =>
      let key := key_of g f in
      match load_item_cache g ca c h key with
      | LRaise => mkGout GFail ca cleaned [EvRaise]
      | LHit d => mkGout (GItem d) ca cleaned [EvHit]
      | LMiss =>
        let cb := match lk with LkR => ca2 | LkW => ca end in
        match (match lk with LkR => load_item_cache g cb c h key | LkW => LMiss end) with
        | LRaise => mkGout GFail cb cleaned [EvMiss; EvRaise]
        | LHit d => mkGout (GItem d) cb cleaned [EvMiss; EvHit2]
        | LMiss =>
          match derive (g_ver g) (f_bytes f) with
          | None => mkGout (if g_skip g then GSkip else GFail) cb cleaned [EvMiss; EvBroken]
          | Some d =>
            (* try: _store_item_cache(...)  except OSError: cache_content = self._item_cache_content(temp_item) *)
            let c3 := if g_cw g then store_item_cache g cb c h key d else cb in
            let e3 := if g_cw g then EvStore key else EvStoreFail in
            if cleaned then mkGout (GItem d) c3 true [EvMiss; e3]
            else mkGout (GItem d) (clean_item_cache g fs c3 c) true [EvMiss; e3; EvClean]
          end
        end
      end
    end.

  Definition get (g : cfg) (lk : lockmode) (cleaned : bool) (fs : files) (ca : cache) (c : coll) (h : href) : gout :=
    get_at g lk cleaned fs ca ca c h.

  (* what a server without any cache answers *)
  Definition cold (g : cfg) (of : option file) : gres :=
    match of with
    | None => GAbsent
    | Some f => match derive (g_ver g) (f_bytes f) with
                | Some d => GItem d
                | None => if g_skip g then GSkip else GFail
                end
    end.

  (* ---------------------------------------------------------------- get.py 44-53 _list *)
  Definition list_coll (fs : files) (c : coll) : list href :=
    map (fun kv => snd (fst kv)) (filter (fun kv => N.eqb (fst (fst kv)) c) fs).

  (* ---------------------------------------------------------------- upload.py 38-70  upload
     [f] is the file that results (bytes = item.serialize(), size and mtime as the kernel reports them),
     [d] = _item_cache_content(item) of the uploaded item.  The final _get is done by the caller ([exec_op]). *)
  Definition upload_write (g : cfg) (s : st) (c : coll) (h : href) (f : file) (d : D) : st :=
    let fs' := aput fkey_eqb (s_files s) (c, h) f in                         (* _atomic_write(path) *)
    let ca' := store_item_cache g (s_cache s) c h (key_of g f) d in          (* _store_item_cache(href, item, cache_hash) *)
    mkSt fs' ca'.

  (* ---------------------------------------------------------------- create_collection.py + upload.py 72-138
     create_collection(href, items, props) with props: a new folder replaces the collection.  The item files are
     those of [items]; the in-collection cache of [c] is replaced by the new folder's (the entries written by
     _upload_all_nonatomic when the location is LIn, nothing otherwise); the entries of the sub-folder tree are
     not touched (with LSub the entries of the bulk upload are written below the temporary name and stay there,
     orphaned). *)
  Definition not_coll_file (c : coll) (kv : fkey * file) : bool := negb (N.eqb (fst (fst kv)) c).
  Definition not_in_coll_entry (c : coll) (kv : ekey * entry) : bool :=
    match fst kv with (l, c', _) => negb (loc_eqb l LIn && N.eqb c' c) end.

  Fixpoint bulk_files (fs : files) (c : coll) (items : list (href * file * D)) : files :=
    match items with
    | [] => fs
    | (h, f, _) :: r => bulk_files (aput fkey_eqb fs (c, h) f) c r
    end.
  Fixpoint bulk_cache (g : cfg) (ca : cache) (c : coll) (items : list (href * file * D)) : cache :=
    match items with
    | [] => ca
    | (h, f, d) :: r => bulk_cache g (aput ekey_eqb ca (LIn, c, h) (EOk (key_of g f) d)) c r
    end.

  Definition create_collection (g : cfg) (s : st) (c : coll) (items : list (href * file * D)) : st :=
    let fs0 := filter (not_coll_file c) (s_files s) in
    let ca0 := filter (not_in_coll_entry c) (s_cache s) in
    mkSt (bulk_files fs0 c items)
         (match g_loc g with LIn => bulk_cache g ca0 c items | LSub _ => ca0 end).

  (* ---------------------------------------------------------------- delete.py 31-62 *)
  Definition delete_item (g : cfg) (s : st) (c : coll) (h : href) : option st :=
    match flook (s_files s) c h with
    | None => None                                                           (* ComponentNotFoundError *)
    | Some _ => Some (mkSt (adel fkey_eqb (s_files s) (c, h))
                           (adel ekey_eqb (s_cache s) (g_loc g, c, h)))      (* isfile(cache_file): remove *)
    end.

  Definition delete_coll (s : st) (c : coll) : st :=
    mkSt (filter (not_coll_file c) (s_files s)) (filter (not_in_coll_entry c) (s_cache s)).

  (* ---------------------------------------------------------------- move.py 31-69 *)
  Definition move_item (g : cfg) (s : st) (c : coll) (h : href) (c2 : coll) (h2 : href) : option st :=
    match flook (s_files s) c h with
    | None => None                                                           (* os.replace: OSError -> ValueError *)
    | Some f =>
      let fs' := aput fkey_eqb (adel fkey_eqb (s_files s) (c, h)) (c2, h2) f in
      let ca' := match clook (s_cache s) (g_loc g) c h with
                 | None => s_cache s                                         (* FileNotFoundError: pass *)
                 | Some e => aput ekey_eqb (adel ekey_eqb (s_cache s) (g_loc g, c, h)) (g_loc g, c2, h2) e
                 end in
      Some (mkSt fs' ca')
    end.

  (* ---------------------------------------------------------------- storage calls as seen by a handler *)
  Inductive sop :=
  | OGet (obj : N) (c : coll) (h : href)                       (* Collection._get on the Collection object [obj] *)
  | OList (c : coll)                                           (* Collection._list *)
  | OUpload (obj : N) (c : coll) (h : href) (f : file) (d : D) (* Collection.upload *)
  | OUploadFail (c : coll) (h : href) (f : file)               (* Collection.upload when writing the cache entry fails
                                                                  (upload.py 59-63: the item file is already replaced; the
                                                                  entry is only ever published by the rename at the end of
                                                                  _atomic_write, so the old entry file is untouched) *)
  | OCreate (c : coll) (items : list (href * file * D))        (* Storage.create_collection with props *)
  | OMove (c : coll) (h : href) (c2 : coll) (h2 : href)        (* Storage.move *)
  | ODelete (c : coll) (h : href)                              (* Collection.delete(href) *)
  | ODeleteColl (c : coll).                                    (* Collection.delete() *)

  Inductive sres := RGet (r : gres) | RNames (l : list href) | RDone | RError.

  (* per-request state: the store and the Collection objects whose _item_cache_cleaned flag is set *)
  Record rst := mkRst { r_st : st; r_cleaned : list N }.

  Definition is_cleaned (cl : list N) (obj : N) : bool := existsb (N.eqb obj) cl.

  (* result, instrumentation events (cache hit / miss / store: NOT visible to the handler), new state *)
  Definition exec_get (g : cfg) (lk : lockmode) (r : rst) (obj : N) (c : coll) (h : href) : sres * list ev * rst :=
    let o := get g lk (is_cleaned (r_cleaned r) obj) (s_files (r_st r)) (s_cache (r_st r)) c h in
    (RGet (o_res o), o_evs o,
     mkRst (mkSt (s_files (r_st r)) (o_cache o))
           (if o_cleaned o then (if is_cleaned (r_cleaned r) obj then r_cleaned r else obj :: r_cleaned r)
            else r_cleaned r)).

  Definition exec_op (g : cfg) (lk : lockmode) (o : sop) (r : rst) : sres * list ev * rst :=
    match o with
    | OGet obj c h => exec_get g lk r obj c h
    | OList c => (RNames (list_coll (s_files (r_st r)) c), [], r)
    | OUpload obj c h f d =>
        (* upload.py 64-70: history, then uploaded_item = self._get(href, verify_href=False) *)
        let '(a, evs, r') := exec_get g lk (mkRst (upload_write g (r_st r) c h f d) (r_cleaned r)) obj c h in
        (a, EvStore (key_of g f) :: evs, r')
    | OUploadFail c h f =>
        (RError, [], mkRst (mkSt (aput fkey_eqb (s_files (r_st r)) (c, h) f) (s_cache (r_st r))) (r_cleaned r))
    | OCreate c items => (RDone, [], mkRst (create_collection g (r_st r) c items) (r_cleaned r))
    | OMove c h c2 h2 => match move_item g (r_st r) c h c2 h2 with
                         | Some s' => (RDone, [], mkRst s' (r_cleaned r))
                         | None => (RError, [], r)
                         end
    | ODelete c h => match delete_item g (r_st r) c h with
                     | Some s' => (RDone, [], mkRst s' (r_cleaned r))
                     | None => (RError, [], r)
                     end
    | ODeleteColl c => (RDone, [], mkRst (delete_coll (r_st r) c) (r_cleaned r))
    end.

  (* the same calls on a server that has no cache at all: the specification *)
  Definition spec_op (g : cfg) (o : sop) (fs : files) : sres * files :=
    match o with
    | OGet _ c h => (RGet (cold g (flook fs c h)), fs)
    | OList c => (RNames (list_coll fs c), fs)
    | OUpload _ c h f _ => (RGet (cold g (Some f)), aput fkey_eqb fs (c, h) f)
    | OUploadFail c h f => (RError, aput fkey_eqb fs (c, h) f)
    | OCreate c items => (RDone, bulk_files (filter (not_coll_file c) fs) c items)
    | OMove c h c2 h2 => match flook fs c h with
                         | None => (RError, fs)
                         | Some f => (RDone, aput fkey_eqb (adel fkey_eqb fs (c, h)) (c2, h2) f)
                         end
    | ODelete c h => match flook fs c h with
                     | None => (RError, fs)
                     | Some _ => (RDone, adel fkey_eqb fs (c, h))
                     end
    | ODeleteColl c => (RDone, filter (not_coll_file c) fs)
    end.

  (* a handler: any program that talks to the store only through these calls *)
  Inductive prog (R : Type) := Ret (x : R) | Do (o : sop) (k : sres -> prog R).
  Arguments Ret {R} x.
  Arguments Do {R} o k.

  Fixpoint run {R} (g : cfg) (lk : lockmode) (p : prog R) (r : rst) : R * rst :=
    match p with
    | Ret x => (x, r)
    | Do o k => let '(a, _, r') := exec_op g lk o r in run g lk (k a) r'
    end.

  Fixpoint run_spec {R} (g : cfg) (p : prog R) (fs : files) : R * files :=
    match p with
    | Ret x => (x, fs)
    | Do o k => let '(a, fs') := spec_op g o fs in run_spec g (k a) fs'
    end.

  (* ---------------------------------------------------------------- what happens between requests *)
  (* things done to the cache by somebody else (the cache is documented as disposable) *)
  Inductive adv :=
  | ADrop (l : loc) (c : coll) (h : href)          (* remove one entry file *)
  | ADropColl (l : loc) (c : coll)                 (* remove the .Radicale.cache tree of one collection at one location *)
  | ADropAll                                       (* remove every cache tree *)
  | APlant (l : loc) (c : coll) (h : href) (e : entry).   (* put back an entry file saved earlier *)

  Definition adv_apply (a : adv) (ca : cache) : cache :=
    match a with
    | ADrop l c h => adel ekey_eqb ca (l, c, h)
    | ADropColl l c => filter (fun kv => match fst kv with (l', c', _) => negb (loc_eqb l' l && N.eqb c' c) end) ca
    | ADropAll => []
    | APlant l c h e => aput ekey_eqb ca (l, c, h) e
    end.

  (* an item file written / removed by other means while the storage lock is held *)
  Definition ext_edit (s : st) (c : coll) (h : href) (of : option file) : st :=
    match of with
    | Some f => mkSt (aput fkey_eqb (s_files s) (c, h) f) (s_cache s)
    | None => mkSt (adel fkey_eqb (s_files s) (c, h)) (s_cache s)
    end.

  (* histories: requests (each with the configuration in force: mode, location, version may change between
     requests) and external edits; before every step somebody may manipulate the cache *)
  Inductive hstep (R : Type) :=
  | HReq (g : cfg) (lk : lockmode) (p : prog R)
  | HExt (c : coll) (h : href) (of : option file).
  Arguments HReq {R} g lk p.
  Arguments HExt {R} c h of.

  Definition hstep_apply {R} (x : hstep R) (s : st) : option R * st :=
    match x with
    | HReq g lk p => let '(a, r) := run g lk p (mkRst s []) in (Some a, r_st r)
    | HExt c h of => (None, ext_edit s c h of)
    end.

  (* [advs] gives, for every step, the list of manipulations applied before it (missing = none) *)
  Fixpoint run_hist {R} (hs : list (hstep R)) (advs : list (list adv)) (s : st) : list (option R) * st :=
    match hs with
    | [] => ([], s)
    | x :: r =>
      let s1 := mkSt (s_files s) (fold_left (fun ca a => adv_apply a ca) (hd [] advs) (s_cache s)) in
      let '(a, s2) := hstep_apply x s1 in
      let '(l, s3) := run_hist r (tl advs) s2 in
      (a :: l, s3)
    end.

  Definition ext_files (fs : files) (c : coll) (h : href) (of : option file) : files :=
    match of with Some f => aput fkey_eqb fs (c, h) f | None => adel fkey_eqb fs (c, h) end.

  Fixpoint run_hist_spec {R} (hs : list (hstep R)) (fs : files) : list (option R) * files :=
    match hs with
    | [] => ([], fs)
    | HReq g lk p :: r => let '(a, fs1) := run_spec g p fs in
                          let '(l, fs2) := run_hist_spec r fs1 in (Some a :: l, fs2)
    | HExt c h of :: r => let '(l, fs2) := run_hist_spec r (ext_files fs c h of) in (None :: l, fs2)
    end.
End Model.

Arguments Ret {D R} x.
Arguments Do {D R} o k.
Arguments HReq {D R} g lk p.
Arguments HExt {D R} c h of.
