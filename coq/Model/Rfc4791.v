(* C16 -- RFC 4791 section 9.9, written literally, over Z seconds since the epoch.
   SPECIFICATION side only (no Radicale code here): the object grammar with an exactly computable
   occurrence set, and the overlap tables of section 9.9 for VEVENT / VTODO / VJOURNAL.
   No proofs in this file. *)
From Coq Require Import ZArith List Bool.
Import ListNotations.
Open Scope Z_scope.

(* ------------------------------------------------------------------ extended time
   A time-range bound that is absent is -infinity / +infinity (RFC 4791 9.9).  Radicale uses
   DATETIME_MIN / DATETIME_MAX (years 1 and 9999) for them; the model uses true infinities, which is the
   same thing as long as every finite date-time is representable by Python's datetime (assumption). *)
Inductive xt := MInf | Fin (z : Z) | PInf.

Definition xlt (a b : xt) : bool :=
  match a, b with
  | MInf, MInf => false
  | MInf, _ => true
  | Fin _, MInf => false
  | Fin x, Fin y => x <? y
  | Fin _, PInf => true
  | PInf, _ => false
  end.
Definition xle (a b : xt) : bool := negb (xlt b a).
Definition xeqb (a b : xt) : bool :=
  match a, b with MInf, MInf => true | PInf, PInf => true | Fin x, Fin y => x =? y | _, _ => false end.

(* a time-range element: start / end attribute, each optional *)
Definition trange := (option Z * option Z)%type.
Definition tr_start (r : trange) : xt := match fst r with Some z => Fin z | None => MInf end.
Definition tr_end (r : trange) : xt := match snd r with Some z => Fin z | None => PInf end.
(* "at least one attribute MUST always be present" *)
Definition tr_bounded (r : trange) : bool := match r with (None, None) => false | _ => true end.
(* "the value of the end attribute MUST be greater than the value of the start attribute" *)
Definition tr_proper (r : trange) : bool := xlt (tr_start r) (tr_end r).

(* ------------------------------------------------------------------ Python timedelta
   datetime.timedelta normalises to (days, seconds, microseconds) with 0 <= seconds < 86400 and
   0 <= microseconds < 10^6.  iCalendar DURATION values have no fraction, so microseconds = 0.
   `.seconds` is the seconds FIELD, not the total. *)
Record timedelta := { td_days : Z; td_secs : Z; td_micro : Z }.
Definition td_of_total (t : Z) : timedelta := {| td_days := t / 86400; td_secs := t mod 86400; td_micro := 0 |}.
Definition td_total (d : timedelta) : Z := td_days d * 86400 + td_secs d.

Definition DAY : Z := 86400.

(* ------------------------------------------------------------------ the grammar *)
Inductive vkind := KDate | KDateTime.          (* VALUE=DATE or UTC DATE-TIME *)
Inductive freq := Hourly | Daily | Weekly.
Inductive rbound := RCount (n : Z) | RUntil (u : Z) | RForever.
Record rrule := { r_freq : freq; r_interval : Z; r_bound : rbound }.
Definition r_period (r : rrule) : Z := r_interval r * match r_freq r with Hourly => 3600 | Daily => 86400 | Weekly => 604800 end.

(* recurrence: the rule and the EXDATE list (instants, seconds) *)
Record recur := { rc_rule : rrule; rc_ex : list Z }.

Inductive ending := EDtend (t : Z) | EDuration (d : Z) | ENone.

(* all instants are "seconds since the epoch of the UTC date-time"; a DATE value d is the instant
   d 00:00:00 UTC (date_to_datetime), i.e. a multiple of 86400 *)
Record vevent := { ev_kind : vkind; ev_start : Z; ev_end : ending; ev_rec : option recur }.
Record vtodo := { td_dtstart : option Z; td_duration : option Z; td_due : option Z;
                  td_completed : option Z; td_created : option Z; td_rec : option recur }.
Record vjournal := { jn_start : option (vkind * Z); jn_rec : option recur }.
Inductive obj := OEvent (e : vevent) | OTodo (t : vtodo) | OJournal (j : vjournal).

(* ------------------------------------------------------------------ occurrence sets (dateutil's expansion, as arithmetic)
   FREQ=DAILY|WEEKLY;INTERVAL=i from s0: the instants s0 + k * period, k = 0, 1, ...;
   COUNT=n keeps k < n (counted before EXDATE removal), UNTIL=u keeps instants <= u; EXDATE removes equal instants. *)
Definition in_bound (b : rbound) (s0 p k : Z) : bool :=
  match b with RCount n => k <? n | RUntil u => s0 + k * p <=? u | RForever => true end.

Definition mem (x : Z) (l : list Z) : bool := existsb (Z.eqb x) l.

Definition occurs (s0 : Z) (rc : option recur) (D : Z) : Prop :=
  match rc with
  | None => D = s0
  | Some r => exists k, 0 <= k /\ in_bound (r_bound (rc_rule r)) s0 (r_period (rc_rule r)) k = true
                        /\ D = s0 + k * r_period (rc_rule r) /\ mem D (rc_ex r) = false
  end.

(* ------------------------------------------------------------------ 9.9, VEVENT table, per instance with start D
   (the instance keeps the length of the master: DTEND_D = D + (DTEND - DTSTART)) *)
Definition vevent_row (ev : vevent) (D : Z) (s e : xt) : bool :=
  match ev_end ev with
  | EDtend t =>                      (* (start <  DTEND AND end > DTSTART) *)
      xlt s (Fin (D + (t - ev_start ev))) && xlt (Fin D) e
  | EDuration d =>
      if 0 <? d then                 (* (start <  DTSTART+DURATION AND end > DTSTART) *)
        xlt s (Fin (D + d)) && xlt (Fin D) e
      else                           (* (start <= DTSTART AND end > DTSTART) *)
        xle s (Fin D) && xlt (Fin D) e
  | ENone =>
      match ev_kind ev with
      | KDateTime =>                 (* (start <= DTSTART AND end > DTSTART) *)
          xle s (Fin D) && xlt (Fin D) e
      | KDate =>                     (* (start <  DTSTART+P1D AND end > DTSTART) *)
          xlt s (Fin (D + DAY)) && xlt (Fin D) e
      end
  end.

Definition rfc_overlaps_vevent (ev : vevent) (r : trange) : Prop :=
  exists D, occurs (ev_start ev) (ev_rec ev) D /\ vevent_row ev D (tr_start r) (tr_end r) = true.

(* ------------------------------------------------------------------ 9.9, VJOURNAL table *)
Definition vjournal_row (k : vkind) (D : Z) (s e : xt) : bool :=
  match k with
  | KDateTime => xle s (Fin D) && xlt (Fin D) e          (* (start <= DTSTART) AND (end > DTSTART) *)
  | KDate => xlt s (Fin (D + DAY)) && xlt (Fin D) e      (* (start <  DTSTART+P1D) AND (end > DTSTART) *)
  end.

Definition rfc_overlaps_vjournal (j : vjournal) (r : trange) : Prop :=
  match jn_start j with
  | None => False                                        (* no DTSTART: FALSE *)
  | Some (k, s0) => exists D, occurs s0 (jn_rec j) D /\ vjournal_row k D (tr_start r) (tr_end r) = true
  end.

(* ------------------------------------------------------------------ 9.9, VTODO table
   columns DTSTART DURATION DUE COMPLETED CREATED; rows in the order of the RFC. *)
Inductive todo_row :=
| TR1 (dtstart dur : Z)          (* Y Y N * * *)
| TR2 (dtstart due : Z)          (* Y N Y * * *)
| TR3 (dtstart : Z)              (* Y N N * * *)
| TR4 (due : Z)                  (* N N Y * * *)
| TR5 (completed created : Z)    (* N N N Y Y *)
| TR6 (completed : Z)            (* N N N Y N *)
| TR7 (created : Z)              (* N N N N Y *)
| TR8.                           (* N N N N N *)

(* Which row applies.  Combinations the table does not list (DURATION without DTSTART, DURATION and DUE
   together) are not well-formed iCalendar (RFC 5545 3.6.2) and are excluded by wf_vtodo; the function is
   total so that it can be evaluated: it then picks the row Radicale picks. *)
Definition todo_row_of (t : vtodo) : todo_row :=
  match td_dtstart t, td_duration t, td_due t, td_completed t, td_created t with
  | Some s, Some d, _, _, _ => TR1 s d
  | Some s, None, Some u, _, _ => TR2 s u
  | Some s, None, None, _, _ => TR3 s
  | None, _, Some u, _, _ => TR4 u
  | None, _, None, Some c, Some r => TR5 c r
  | None, _, None, Some c, None => TR6 c
  | None, _, None, None, Some r => TR7 r
  | None, _, None, None, None => TR8
  end.

(* The condition of a row for the instance whose reference instant (DTSTART, or DUE for row 4) is D. *)
Definition vtodo_row (row : todo_row) (D : Z) (s e : xt) : bool :=
  match row with
  | TR1 _ dur =>   (* (start <= DTSTART+DURATION) AND ((end > DTSTART) OR (end >= DTSTART+DURATION)) *)
      xle s (Fin (D + dur)) && (xlt (Fin D) e || xle (Fin (D + dur)) e)
  | TR2 s0 due =>  (* ((start < DUE) OR (start <= DTSTART)) AND ((end > DTSTART) OR (end >= DUE)) *)
      let due' := D + (due - s0) in
      (xlt s (Fin due') || xle s (Fin D)) && (xlt (Fin D) e || xle (Fin due') e)
  | TR3 _ =>       (* (start <= DTSTART) AND (end > DTSTART) *)
      xle s (Fin D) && xlt (Fin D) e
  | TR4 _ =>       (* (start < DUE) AND (end >= DUE) *)
      xlt s (Fin D) && xle (Fin D) e
  | TR5 c r =>     (* ((start <= CREATED) OR (start <= COMPLETED)) AND ((end >= CREATED) OR (end >= COMPLETED)) *)
      (xle s (Fin r) || xle s (Fin c)) && (xle (Fin r) e || xle (Fin c) e)
  | TR6 c =>       (* (start <= COMPLETED) AND (end >= COMPLETED) *)
      xle s (Fin c) && xle (Fin c) e
  | TR7 r =>       (* (end > CREATED) *)
      xlt (Fin r) e
  | TR8 => true    (* TRUE *)
  end.

(* reference instant of the master and whether instances exist *)
Definition todo_ref (row : todo_row) : option Z :=
  match row with
  | TR1 s _ | TR2 s _ | TR3 s => Some s
  | TR4 u => Some u
  | TR5 _ r => Some r | TR6 c => Some c | TR7 r => Some r
  | TR8 => None
  end.

(* recurrence only applies with a DTSTART (RFC 5545: RRULE requires DTSTART) *)
Definition todo_rec (t : vtodo) : option recur :=
  match td_dtstart t with Some _ => td_rec t | None => None end.

Definition rfc_overlaps_vtodo (t : vtodo) (r : trange) : Prop :=
  let row := todo_row_of t in
  match todo_ref row with
  | None => vtodo_row row 0 (tr_start r) (tr_end r) = true
  | Some s0 => exists D, occurs s0 (todo_rec t) D /\ vtodo_row row D (tr_start r) (tr_end r) = true
  end.

Definition rfc4791_overlaps (o : obj) (r : trange) : Prop :=
  match o with
  | OEvent ev => rfc_overlaps_vevent ev r
  | OTodo t => rfc_overlaps_vtodo t r
  | OJournal j => rfc_overlaps_vjournal j r
  end.

(* ------------------------------------------------------------------ well-formed objects of the grammar *)
Definition wf_rrule (r : rrule) : Prop := 1 <= r_interval r.
Definition wf_recur (rc : option recur) : Prop := match rc with None => True | Some r => wf_rrule (rc_rule r) end.

Definition wf_vevent (ev : vevent) : Prop :=
  wf_recur (ev_rec ev) /\
  match ev_end ev with
  | EDtend t => ev_start ev < t            (* RFC 5545: DTEND later than DTSTART *)
  | EDuration d => 0 <= d
  | ENone => True
  end.

Definition wf_vjournal (j : vjournal) : Prop := wf_recur (jn_rec j).

Definition wf_vtodo (t : vtodo) : Prop :=
  wf_recur (td_rec t) /\
  (* DURATION needs DTSTART and excludes DUE (RFC 5545 3.6.2) *)
  match td_duration t with
  | Some d => 0 <= d /\ td_dtstart t <> None /\ td_due t = None
  | None => True
  end /\
  (* DUE not before DTSTART *)
  match td_dtstart t, td_due t with Some s, Some u => s <= u | _, _ => True end /\
  (* RRULE needs DTSTART *)
  match td_rec t with Some _ => td_dtstart t <> None | None => True end /\
  (* COMPLETED not before CREATED *)
  match td_completed t, td_created t with Some c, Some r => r <= c | _, _ => True end.

Definition wf_obj (o : obj) : Prop :=
  match o with OEvent ev => wf_vevent ev | OTodo t => wf_vtodo t | OJournal j => wf_vjournal j end.
