(* C14 -- the storage codec made explicit.  Item files and .Radicale.props are TEXT written with one charset, hashed
   (cache key) through an encode with a charset, and read back through a decode with a charset; in the source every one of
   these sites names its charset (or inherits the interpreter default).  Gen/C14EncSites.v lists every open()/.encode()/.decode()
   of radicale/storage/multifilesystem with the way its charset is chosen (regenerated on every run, tie T).
   A charset is a partial encoder and a partial decoder; the only law ever used is `codec_ok` (decoding what the SAME charset
   encoded gives the text back).  Two concrete charsets (UTF-8, ISO-8859-1) serve as witnesses.  No proofs in this file. *)
From Coq Require Import List NArith Bool String.
Import ListNotations.
Require Import RV.Lib.PyStr.
Open Scope N_scope.

Definition bytes := list N.
Record codec := mkCodec { enc : pystr -> option bytes; dec : bytes -> option pystr }.
Definition codec_ok (c : codec) : Prop := forall s b, enc c s = Some b -> dec c b = Some s.

(* ------------------------------------------------------------------ how a site chooses its charset *)
Inductive enc_arg :=
| EStock                 (* self._encoding = [encoding] stock *)
| EStockUnlessBinary     (* `None if "b" in mode else self._encoding` *)
| EBinary                (* open(..., "rb"/"wb"): no text codec *)
| EFixed (name : string) (* a literal charset name *)
| EDefault.              (* text mode / encode() / decode() without a charset: interpreter default *)

Inductive role :=
| ItemWrite | ItemHash | ItemRead       (* the stored object file: written, hashed for the cache key, read *)
| PropsWrite | PropsRead                (* .Radicale.props *)
| Internal.                             (* cache pickles, history, tokens, lock, mtime probe: never client text *)

Record site := mkSite { s_file : string; s_fn : string; s_kind : string; s_role : role; s_enc : enc_arg }.

Definition role_eqb (a b : role) : bool :=
  match a, b with
  | ItemWrite, ItemWrite | ItemHash, ItemHash | ItemRead, ItemRead | PropsWrite, PropsWrite | PropsRead, PropsRead | Internal, Internal => true
  | _, _ => false
  end.
Definition is_content_role (r : role) : bool := negb (role_eqb r Internal).
Definition uses_stock (e : enc_arg) : bool := match e with EStock | EStockUnlessBinary => true | _ => false end.

(* every site that touches client text takes the configured storage charset; each content role occurs *)
Definition sites_ok (l : list site) : bool :=
  forallb (fun s => negb (is_content_role (s_role s)) || uses_stock (s_enc s)) l
  && forallb (fun r => existsb (fun s => role_eqb (s_role s) r) l) [ItemWrite; ItemHash; ItemRead; PropsWrite; PropsRead].

(* the charset a content site works with, given the configured one and the interpreter default (content sites are text mode) *)
Definition resolve (stock dflt : codec) (fixed : string -> codec) (e : enc_arg) : codec :=
  match e with
  | EStock | EStockUnlessBinary => stock
  | EBinary => mkCodec (fun _ => None) (fun _ => None)
  | EFixed n => fixed n
  | EDefault => dflt
  end.

Definition sites_of (r : role) (l : list site) : list site := filter (fun s => role_eqb (s_role s) r) l.

(* ------------------------------------------------------------------ the storage round trip through the file *)
(* upload: the text is written through a write site (an unencodable text raises: the upload is refused) and the cache key is
   the hash of the text encoded through a hash site; a later read hashes the FILE bytes: the entry is valid iff both byte
   strings are equal; on a miss the file is decoded through the read site and parsed again. *)
Definition file_bytes (w : codec) (text : pystr) : option bytes := enc w text.
Definition cache_valid (w h : codec) (text : pystr) : bool :=
  match enc w text, enc h text with
  | Some a, Some b => eqs a b
  | _, _ => false
  end.
Definition cold_text (w r : codec) (text : pystr) : option pystr :=
  match enc w text with Some b => dec r b | None => None end.

(* ------------------------------------------------------------------ two concrete charsets *)
Definition utf8_enc_char (c : N) : option bytes :=
  if c <? 128 then Some [c]
  else if c <? 2048 then Some [192 + c / 64; 128 + c mod 64]
  else if c <? 65536 then
    if (55296 <=? c) && (c <=? 57343) then None          (* surrogates: 'utf-8' codec can't encode *)
    else Some [224 + c / 4096; 128 + (c / 64) mod 64; 128 + c mod 64]
  else if c <? 1114112 then Some [240 + c / 262144; 128 + (c / 4096) mod 64; 128 + (c / 64) mod 64; 128 + c mod 64]
  else None.
Fixpoint utf8_enc (s : pystr) : option bytes :=
  match s with
  | [] => Some []
  | c :: r => match utf8_enc_char c, utf8_enc r with Some a, Some b => Some (a ++ b) | _, _ => None end
  end.

Definition is_cont (b : N) : bool := (128 <=? b) && (b <? 192).
Definition ocons (c : N) (o : option pystr) : option pystr := match o with Some s => Some (c :: s) | None => None end.
(* strict decoder: no overlong forms, no surrogates, nothing above U+10FFFF, no truncated sequence *)
Fixpoint utf8_dec (b : bytes) : option pystr :=
  match b with
  | [] => Some []
  | x :: r =>
      if x <? 128 then ocons x (utf8_dec r)
      else if x <? 194 then None
      else if x <? 224 then
        match r with
        | y :: r' => if is_cont y then ocons ((x - 192) * 64 + (y - 128)) (utf8_dec r') else None
        | _ => None
        end
      else if x <? 240 then
        match r with
        | y :: z :: r' =>
            if is_cont y && is_cont z then
              let c := (x - 224) * 4096 + (y - 128) * 64 + (z - 128) in
              if (c <? 2048) || ((55296 <=? c) && (c <=? 57343)) then None else ocons c (utf8_dec r')
            else None
        | _ => None
        end
      else if x <? 245 then
        match r with
        | y :: z :: w :: r' =>
            if is_cont y && is_cont z && is_cont w then
              let c := (x - 240) * 262144 + (y - 128) * 4096 + (z - 128) * 64 + (w - 128) in
              if (c <? 65536) || (1114112 <=? c) then None else ocons c (utf8_dec r')
            else None
        | _ => None
        end
      else None
  end.
Definition utf8 : codec := mkCodec utf8_enc utf8_dec.

Definition latin1_enc (s : pystr) : option bytes := if forallb (fun c => c <? 256) s then Some s else None.
Definition latin1_dec (b : bytes) : option pystr := if forallb (fun c => c <? 256) b then Some b else None.
Definition latin1 : codec := mkCodec latin1_enc latin1_dec.
