(* C06, handler-level confinement: the provenance language of the regenerated site table (Gen/C06Sites.v, written by
   translate/t_c06sites.py), its semantics [den], and the reflective checker [sites_ok].  Definitions only. *)
From Coq Require Import List NArith Bool String.
Import ListNotations.
Require Import RV.Lib.PyStr RV.Model.Path.
Open Scope list_scope.

(* How a path (or a single path component) handed to the operating system was built, read off the source text. *)
Inductive prov : Type :=
| PRoot                         (* configuration.get("storage", "filesystem_folder" | "filesystem_cache_folder") *)
| PNone                         (* the constant None (not a path at all) *)
| PJoin (b c : prov)            (* os.path.join(b, c) *)
| PPtf (b : prov)               (* pathutils.path_to_filesystem(b, <any string whatsoever>) *)
| PDir (p : prov)               (* os.path.dirname(p) *)
| PBase (p : prov)              (* os.path.basename(p) *)
| PTmp (p : prov)               (* TemporaryDirectory(prefix=".Radicale.tmp-", dir=p) *)
| PRebase (p : prov)            (* p.replace(<collection-root folder>, <collection-cache folder>) *)
| CLit (s : string)             (* a string literal *)
| CChecked                      (* passed is_safe_filesystem_path_component on every path to this use *)
| CScan                         (* an entry name returned by os.scandir / os.listdir *)
| CToken                        (* passed check_token_name, or a sha256 hexdigest *)
| PParam (f x : string)         (* parameter x of the internal function f: the value of some listed call's argument *)
| PEither (a b : prov)          (* join of control-flow paths *)
| PReviewed (why : string)      (* hand-reviewed exception: trusted *)
| PUnknown (why : string).      (* anything else: never accepted *)

Record site := mkSite { s_file : string; s_fun : string; s_sink : string; s_line : N; s_prov : prov }.

Definition calltab := list (string * string * prov).

Definition callers (calls : calltab) (f x : string) : list prov :=
  map snd (filter (fun e => String.eqb (fst (fst e)) f && String.eqb (snd (fst e)) x) calls).

(* ---------------------------------------------------------------- semantics *)
(* A component with its origin: true = the text was chosen by a client (it reached the storage as an argument),
   false = chosen by the server code (a literal, a temporary name) or read back from a directory listing. *)
Definition comp := (bool * pystr)%type.

(* A value: a path = one of the configured folders followed by components; a single component; None; or
   VOut = a path that may lie outside the configured folders (dirname of the folder itself). *)
Inductive val := VP (cs : list comp) | VC (c : comp) | VNone | VOut.

(* The string the operating system receives for a path value below the folder [root]. *)
Definition fs_render (root : pystr) (cs : list comp) : pystr :=
  root ++ List.concat (map (fun c => slash :: snd c) cs).

Definition tmp_prefix : pystr := str ".Radicale.tmp-".

(* What must hold of every value that reaches the operating system. *)
Definition good_c (c : comp) : Prop :=
  is_safe_path_component (snd c) = true /\ (fst c = true -> is_safe_filesystem_path_component (snd c) = true).

Definition good (v : val) : Prop :=
  match v with VP cs => Forall good_c cs | VC c => good_c c | VNone => True | VOut => False end.

Inductive den (calls : calltab) : prov -> val -> Prop :=
| d_root : den calls PRoot (VP [])
| d_none : den calls PNone VNone
| d_join b c cs x : den calls b (VP cs) -> den calls c (VC x) -> den calls (PJoin b c) (VP (cs ++ [x]))
| d_join_out b c v : den calls b VOut -> den calls c v -> den calls (PJoin b c) VOut
  (* path_to_filesystem refuses or appends components each of which passed is_safe_filesystem_path_component
     (Props C06_to_fs; C06SitesProofs.ptf_bridge restates it for this rendering) *)
| d_ptf b cs parts : den calls b (VP cs) ->
    Forall (fun p => is_safe_filesystem_path_component p = true) parts ->
    den calls (PPtf b) (VP (cs ++ map (pair true) parts))
| d_ptf_out b : den calls b VOut -> den calls (PPtf b) VOut
| d_dir p cs x : den calls p (VP (cs ++ [x])) -> den calls (PDir p) (VP cs)
| d_dir_root p : den calls p (VP []) -> den calls (PDir p) VOut
| d_dir_out p : den calls p VOut -> den calls (PDir p) VOut
| d_base p cs x : den calls p (VP (cs ++ [x])) -> den calls (PBase p) (VC x)
| d_base_root p : den calls p (VP []) -> den calls (PBase p) VOut
| d_base_out p : den calls p VOut -> den calls (PBase p) VOut
  (* tempfile appends characters of [a-z0-9_] to the prefix: in particular no separator *)
| d_tmp p cs sfx : den calls p (VP cs) -> contains_char slash sfx = false ->
    den calls (PTmp p) (VP (cs ++ [(false, tmp_prefix ++ sfx)]))
| d_tmp_out p : den calls p VOut -> den calls (PTmp p) VOut
  (* the replace leaves the path alone or exchanges the leading collection-root for collection-cache *)
| d_rebase_same p v : den calls p v -> den calls (PRebase p) v
| d_rebase_swap p rest : den calls p (VP ((false, str "collection-root") :: rest)) ->
    den calls (PRebase p) (VP ((false, str "collection-cache") :: rest))
| d_lit s : den calls (CLit s) (VC (false, str s))
| d_checked c : is_safe_filesystem_path_component c = true -> den calls CChecked (VC (true, c))
  (* the kernel never lists "", ".", ".." or a name containing "/" *)
| d_scan c : is_safe_path_component c = true -> den calls CScan (VC (false, c))
| d_token c : check_token_name c = true -> den calls CToken (VC (true, c))
| d_param f x q v : In (f, x, q) calls -> den calls q v -> den calls (PParam f x) v
| d_either_l a b v : den calls a v -> den calls (PEither a b) v
| d_either_r a b v : den calls b v -> den calls (PEither a b) v
  (* a hand-reviewed value is TRUSTED to be good (listed in notes/C06.md) *)
| d_reviewed why v : good v -> den calls (PReviewed why) v.

(* ---------------------------------------------------------------- the checker *)
Definition FUEL : nat := 12.

(* every path value of p has at least one component below the configured folder *)
Fixpoint nonempty_p (calls : calltab) (fuel : nat) (p : prov) : bool :=
  match fuel with
  | O => false
  | S k =>
    match p with
    | PJoin _ _ | PTmp _ | PNone => true
    | PPtf b | PRebase b => nonempty_p calls k b
    | PEither a b => nonempty_p calls k a && nonempty_p calls k b
    | PParam f x => forallb (nonempty_p calls k) (callers calls f x)
    | _ => false
    end
  end.

Fixpoint okp (calls : calltab) (p : prov) : bool :=
  match p with
  | PRoot | PNone | CChecked | CScan | CToken | PParam _ _ => true
  | PJoin b c => okp calls b && okp calls c
  | PPtf b | PTmp b | PRebase b => okp calls b
  | PDir b | PBase b => okp calls b && nonempty_p calls FUEL b
  | CLit s => is_safe_path_component (str s)
  | PEither a b => okp calls a && okp calls b
  | PReviewed _ => true
  | PUnknown _ => false
  end.

Definition sites_ok (calls : calltab) (sites : list site) : bool :=
  forallb (fun e => okp calls (snd e)) calls && forallb (fun s => okp calls (s_prov s)) sites.

Fixpoint count_reviewed (p : prov) : nat :=
  match p with
  | PReviewed _ => 1
  | PJoin a b | PEither a b => count_reviewed a + count_reviewed b
  | PPtf a | PDir a | PBase a | PTmp a | PRebase a => count_reviewed a
  | _ => 0
  end.

(* ================================================================= the application side (radicale/app/*.py)
   How a string handed to a storage entry point was obtained, read off the source text. *)
Inductive aprov : Type :=
| ASan                          (* pathutils.sanitize_path(<anything>) *)
| ALit (s : string)
| ASuffix (a : aprov)           (* a[len(prefix):]  (taken under the startswith(prefix + "/") guard) *)
| AStrip (a : aprov) | AUnstrip (a : aprov)          (* pathutils.strip_path / unstrip_path *)
| ADirname (a : aprov) | ABasename (a : aprov)       (* posixpath.dirname / basename *)
| AJoin (a b : aprov) | ACat (a b : aprov)           (* posixpath.join, string concatenation *)
| AUserPath (a : aprov)         (* "/%s/" % a *)
| ASafeComp                     (* "" or a value that passed is_safe_path_component (the login name at the gate) *)
| AConfig                       (* a configuration value (names of the predefined collections) *)
| AFromStorage                  (* an attribute of an object returned by the storage (item.href, collection.path) *)
| ANameFromPath                 (* pathutils.name_from_path(...): checks is_safe_path_component *)
| ANone
| AParam (f x : string)         (* parameter of a function of radicale/app: resolved through app_calls;
                                   ("do_*", "path") is what the gate hands to every handler *)
| AEither (a b : aprov)
| AUnknown (why : string).

Inductive arole := RPath | RName | RToken.
Record asite := mkASite { a_file : string; a_fun : string; a_entry : string; a_role : arole; a_line : N; a_prov : aprov }.
Definition acalltab := list (string * string * aprov).
Definition acallers (calls : acalltab) (f x : string) : list aprov :=
  map snd (filter (fun e => String.eqb (fst (fst e)) f && String.eqb (snd (fst e)) x) calls).

(* "sanitised-like": the result of sanitize_path, "/", a "/"-aligned suffix of one, the parent of one, the principal
   path of a checked login name (optionally followed by a configured collection name). *)
Fixpoint san_like (calls : acalltab) (fuel : nat) (a : aprov) : bool :=
  match fuel with
  | O => false
  | S k =>
    match a with
    | ASan => true
    | ALit s => String.eqb s "/"
    | ASuffix b => san_like calls k b
    | AEither b c => san_like calls k b && san_like calls k c
    | AUserPath ASafeComp => true
    | ACat (AUserPath ASafeComp) AConfig => true
    | AUnstrip (ADirname (AStrip b)) => san_like calls k b
    | AParam f x => forallb (san_like calls k) (acallers calls f x)
    | _ => false
    end
  end.

(* a name: last component of a sanitised-like path, a checked name, a name the storage returned, or None *)
Fixpoint name_like (calls : acalltab) (fuel : nat) (a : aprov) : bool :=
  match fuel with
  | O => false
  | S k =>
    match a with
    | ABasename (AStrip b) => san_like calls FUEL b
    | ANameFromPath | AFromStorage | ANone => true
    | AEither b c => name_like calls k b && name_like calls k c
    | AParam f x => forallb (name_like calls k) (acallers calls f x)
    | _ => false
    end
  end.

Definition asite_ok (calls : acalltab) (s : asite) : bool :=
  match a_role s with
  | RPath => san_like calls FUEL (a_prov s)
  | RName => name_like calls FUEL (a_prov s)
  | RToken => true                 (* any text: the storage validates it (C06_token) *)
  end.

Definition app_sites_ok (calls : acalltab) (sites : list asite) : bool := forallb (asite_ok calls) sites.
