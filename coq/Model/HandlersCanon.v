(* Canonical observable responses of Model/Handlers.v for the correspondence check:
   what the harness can reconstruct from a real HTTP response, order-insensitive. No proofs. *)
From Coq Require Import List NArith Bool.
Import ListNotations.
Require Import RV.Lib.PyStr RV.Lib.Item RV.Model.Store RV.Model.Access RV.Model.Handlers.
Open Scope N_scope.

Fixpoint path_leb (a b : path) : bool :=
  match a, b with
  | [], _ => true
  | _ :: _, [] => false
  | x :: a', y :: b' => if N.ltb x y then true else if N.ltb y x then false else path_leb a' b'
  end.

Section Sort.
  Context {A : Type} (leb : A -> A -> bool).
  Fixpoint insert (x : A) (l : list A) : list A :=
    match l with [] => [x] | y :: r => if leb x y then x :: l else y :: insert x r end.
  Definition isort (l : list A) : list A := fold_right insert [] l.
End Sort.

(* canonical entry: (path, kind) with kind 0 = 404, 1 = collection, 2 = item *)
Inductive centry :=
| CEColl (p : path) (t : tag) (props : list (N * N)) (w : bool)
| CEItem (p : path) (o : obj) (w : bool)
| CE404 (p : path).
Definition centry_path (e : centry) : path := match e with CEColl p _ _ _ | CEItem p _ _ | CE404 p => p end.
Definition canon_entry (e : entry) : centry :=
  match e with
  | ECollE p t props w => CEColl p t (isort (fun a b => N.leb (fst a) (fst b)) props) w
  | EItemE p o w => CEItem p o w
  | E404 p => CE404 p
  end.

Inductive cpayload :=
| CPNone
| CPEtagItem (o : obj)
| CPEtagColl
| CPItem (o : obj)
| CPExport (t : tag) (l : list obj)
| CPListing (l : list centry)
| CPBusy (n : N).                      (* number of busy periods of a free-busy answer *)

Definition canon_payload (p : payload) : cpayload :=
  match p with
  | PNone => CPNone
  | PEtag (EtItem o) => CPEtagItem o
  | PEtag _ => CPEtagColl
  | PItem o => CPItem o
  | PExport t l => CPExport t (isort (fun a b => N.leb (o_uid a) (o_uid b))
                                 (map (fun o => mkObj (o_uid o) (o_comp o) (N.modulo (o_cid o) 10)) l))
  | PListing l => CPListing (isort (fun a b => path_leb (centry_path a) (centry_path b)) (map canon_entry l))
  | PBusy l => CPBusy (N.of_nat (length l))
  end.

Definition cresp := (status * cpayload)%type.
Definition canon (r : response) : cresp := (fst r, canon_payload (snd r)).

(* decidable equality on canonical responses *)
Definition status_eqb (a b : status) : bool :=
  match a, b with
  | S200, S200 | S201, S201 | S204, S204 | S207, S207 | S400, S400 | S403NA, S403NA | S403F, S403F
  | S403Dir, S403Dir | S403Report, S403Report | S404, S404 | S405, S405 | S409, S409 | S409Uid, S409Uid
  | S409Null, S409Null | S412, S412 | S500, S500 | S502, S502 => true
  | _, _ => false
  end.
Fixpoint list_eqb {A} (eqb : A -> A -> bool) (a b : list A) : bool :=
  match a, b with
  | [], [] => true
  | x :: a', y :: b' => eqb x y && list_eqb eqb a' b'
  | _, _ => false
  end.
Definition props_eqb (a b : list (N * N)) : bool :=
  list_eqb (fun x y => N.eqb (fst x) (fst y) && N.eqb (snd x) (snd y)) a b.
Definition centry_eqb (a b : centry) : bool :=
  match a, b with
  | CEColl p t pr w, CEColl p' t' pr' w' => path_eqb p p' && tag_eqb t t' && props_eqb pr pr' && Bool.eqb w w'
  | CEItem p o w, CEItem p' o' w' => path_eqb p p' && obj_eqb o o' && Bool.eqb w w'
  | CE404 p, CE404 p' => path_eqb p p'
  | _, _ => false
  end.
Definition cpayload_eqb (a b : cpayload) : bool :=
  match a, b with
  | CPNone, CPNone | CPEtagColl, CPEtagColl => true
  | CPEtagItem o, CPEtagItem o' | CPItem o, CPItem o' => obj_eqb o o'
  | CPExport t l, CPExport t' l' => tag_eqb t t' && list_eqb obj_eqb l l'
  | CPListing l, CPListing l' => list_eqb centry_eqb l l'
  | CPBusy n, CPBusy n' => N.eqb n n'
  | _, _ => false
  end.
Definition cresp_eqb (a b : cresp) : bool := status_eqb (fst a) (fst b) && cpayload_eqb (snd a) (snd b).

(* policies given as tables (default: no permission) *)
Definition pol_of_table (l : list (path * pystr)) : policy :=
  fun p => match find (fun e => path_eqb (fst e) p) l with Some e => snd e | None => [] end.

(* a history of requests by several users, each with their own policy table *)
Definition ureq := (N * request)%type.     (* user index: 0 = anonymous, k>0 = user with home name 10+k-1... given explicitly *)
Record world := mkWorld { w_cfg : config; w_pols : list (option name * list (path * pystr)) }.

Definition nth_user (w : world) (i : N) : option name * policy :=
  match nth_error (w_pols w) (N.to_nat i) with
  | Some (u, t) => (u, pol_of_table t)
  | None => (None, fun _ => [])
  end.

Fixpoint run_world (w : world) (s : store) (rs : list ureq) : list cresp :=
  match rs with
  | [] => []
  | (i, r) :: rest =>
      let '(u, pol) := nth_user w i in
      let '(s', out) := handle (w_cfg w) pol u s r in
      canon out :: run_world w s' rest
  end.

(* the canonical dump of a store, for comparison with the real storage folder *)
Definition cstore := list (path * tag * list (N * N) * list (name * obj)).
Definition canon_store (s : store) : cstore :=
  isort (fun a b => path_leb (fst (fst (fst a))) (fst (fst (fst b))))
        (map (fun pc => (fst pc, c_tag (snd pc),
                         isort (fun a b => N.leb (fst a) (fst b)) (c_props (snd pc)),
                         isort (fun a b => N.leb (fst a) (fst b)) (c_items (snd pc)))) s).
Fixpoint final_store (w : world) (s : store) (rs : list ureq) : store :=
  match rs with
  | [] => s
  | (i, r) :: rest =>
      let '(u, pol) := nth_user w i in
      final_store w (fst (handle (w_cfg w) pol u s r)) rest
  end.
Definition cstore_eqb (a b : cstore) : bool :=
  list_eqb (fun x y =>
    let '(p, t, pr, it) := x in let '(p', t', pr', it') := y in
    path_eqb p p' && tag_eqb t t' && props_eqb pr pr'
    && list_eqb (fun a b => N.eqb (fst a) (fst b) && obj_eqb (snd a) (snd b)) it it') a b.
