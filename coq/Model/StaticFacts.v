(* C09 -- static facts about the source that the concurrency argument rests on, as terms that
   translate/t_c09static.py regenerates (Gen/C09Static.v), and the small models that say why they matter.
   Definitions only.

   1. Lock-file identity.  All server processes that share one storage folder must lock THE SAME file; the path is
      a term over the configured folders, [lock_file cfg p] evaluates it (Python's `a or b`: a when set, else b).
   2. Temporary names.  Readers run concurrently under the shared lock and write cache / sync-token files through
      CollectionBase._atomic_write; [aw_run] is the file-system model of two such writers (open-for-write
      truncates an existing name and keeps writing to that inode, rename fails when the source name is gone). *)
From Coq Require Import List String NArith Bool.
Import ListNotations.
Open Scope string_scope.

Inductive folder := FStorage | FCache.
Inductive lfolder := LF (f : folder) | LOr (a b : lfolder) | LUnknownF.
Inductive lpath := LJoin (d : lfolder) (name : string) | LUnknown (what : string).
Inductive tmpname := TmpFreshDir | TmpMkstemp | TmpFixedSibling | TmpOther.

(* [storage] filesystem_folder, and filesystem_cache_folder ("" = not set) of one server instance *)
Record folders := mkFolders { storage_folder : string; cache_folder : string }.

Fixpoint eval_folder (c : folders) (d : lfolder) : option string :=
  match d with
  | LF FStorage => Some (storage_folder c)
  | LF FCache => Some (cache_folder c)
  | LOr a b => match eval_folder c a with
               | Some "" => eval_folder c b
               | r => r
               end
  | LUnknownF => None
  end.

Definition lock_file (c : folders) (p : lpath) : option (string * string) :=
  match p with
  | LJoin d name => match eval_folder c d with Some f => Some (f, name) | None => None end
  | LUnknown _ => None
  end.

(* ---- two concurrent _atomic_write of the same target ---- *)
Inductive awstep := AwOpen | AwWrite | AwRename.
Record awfs := mkFs { names : list (string * nat); data : list (nat * N); next : nat }.

Fixpoint lookup_name (l : list (string * nat)) (n : string) : option nat :=
  match l with [] => None | (m, i) :: r => if String.eqb m n then Some i else lookup_name r n end.
Definition remove_name (l : list (string * nat)) (n : string) := filter (fun e => negb (String.eqb (fst e) n)) l.
Fixpoint lookup_data (l : list (nat * N)) (i : nat) : option N :=
  match l with [] => None | (j, c) :: r => if Nat.eqb i j then Some c else lookup_data r i end.
Definition set_data (l : list (nat * N)) (i : nat) (c : N) := (i, c) :: filter (fun e => negb (Nat.eqb (fst e) i)) l.

(* a writer: temp name, content, its open file (inode), steps left *)
Record writer := mkW { w_tmp : string; w_content : N; w_fd : option nat; w_todo : list awstep }.
Definition new_writer (tmp : string) (c : N) : writer := mkW tmp c None [AwOpen; AwWrite; AwRename].

Inductive awres := AwOk (fs : awfs) (w : writer) | AwFail (why : string).

Definition aw_step (target : string) (fs : awfs) (w : writer) : awres :=
  match w_todo w with
  | [] => AwOk fs w
  | AwOpen :: rest =>
      match lookup_name (names fs) (w_tmp w) with
      | Some i => AwOk (mkFs (names fs) (set_data (data fs) i 0%N) (next fs)) (mkW (w_tmp w) (w_content w) (Some i) rest)   (* truncate *)
      | None => AwOk (mkFs ((w_tmp w, next fs) :: names fs) (set_data (data fs) (next fs) 0%N) (S (next fs)))
                     (mkW (w_tmp w) (w_content w) (Some (next fs)) rest)
      end
  | AwWrite :: rest =>
      match w_fd w with
      | Some i => AwOk (mkFs (names fs) (set_data (data fs) i (w_content w)) (next fs)) (mkW (w_tmp w) (w_content w) (w_fd w) rest)
      | None => AwFail "write without open"
      end
  | AwRename :: rest =>
      match lookup_name (names fs) (w_tmp w) with
      | Some i => AwOk (mkFs ((target, i) :: remove_name (remove_name (names fs) (w_tmp w)) target) (data fs) (next fs))
                       (mkW (w_tmp w) (w_content w) (w_fd w) rest)
      | None => AwFail "rename: no such file"          (* FileNotFoundError -> the request answers 500 *)
      end
  end.

(* run a schedule (false = writer A, true = writer B); None = some step failed *)
Fixpoint aw_run (target : string) (sch : list bool) (fs : awfs) (a b : writer) : option (awfs * writer * writer) :=
  match sch with
  | [] => Some (fs, a, b)
  | false :: r => match aw_step target fs a with AwOk fs' a' => aw_run target r fs' a' b | AwFail _ => None end
  | true :: r => match aw_step target fs b with AwOk fs' b' => aw_run target r fs' a b' | AwFail _ => None end
  end.

Fixpoint merges (a : list bool) : list bool -> list (list bool) :=
  match a with
  | [] => fun b => [b]
  | x :: a' => fix inner (b : list bool) : list (list bool) :=
                 match b with
                 | [] => [x :: a']
                 | y :: b' => (map (cons x) (merges a' (y :: b')) ++ map (cons y) (inner b'))%list
                 end
  end.
(* every interleaving of the three steps of writer A with the three steps of writer B *)
Definition aw_merges : list (list bool) := merges [false; false; false] [true; true; true].

Definition target_content (target : string) (r : option (awfs * writer * writer)) : option N :=
  match r with
  | Some (fs, _, _) => match lookup_name (names fs) target with Some i => lookup_data (data fs) i | None => None end
  | None => None
  end.

Definition aw_empty : awfs := mkFs [] [] 0.
(* both writers complete and the target holds exactly one writer's content *)
Definition aw_good (target : string) (ta tb : string) (sch : list bool) : bool :=
  match target_content target (aw_run target sch aw_empty (new_writer ta 1%N) (new_writer tb 2%N)) with
  | Some c => N.eqb c 1 || N.eqb c 2
  | None => false
  end.
