(* C09 -- concurrent requests over one readers-writer lock (abstract model).  Definitions only, no proofs.

   A request is a program over a shared state [St]:

       pre ; Acquire m ; body ; Release ; post              (one critical section)
       or several such sections in sequence                 (the request gate: home check under r,
                                                             home creation under w, then the handler's section)

   [Tau] is a step that touches no storage (parsing, rights, building the response); [Step u k] is ONE storage
   step inside a critical section: the shared state becomes [u s] and the thread continues with [k s] (what it
   read); [Ret r] is the response.  A concurrent execution of n requests is a schedule = list of thread
   numbers; [exec] runs it step by step.  A step [Acq m] is enabled iff the abstract readers-writer lock admits
   it: "either any number of readers or exactly one writer" ([admits]) -- that is C11's specification of the
   lock, taken here as the definition of an admissible schedule.

   The state may hold more than the collection data (the disposable cache area): [obs : St -> D] projects to
   the data.  The well-formedness predicate [wf] states the hypotheses of the theorems:
     - every storage step lies inside a critical section, no nested acquisition   (C10: lock discipline),
     - steps under the shared lock leave [obs] unchanged                          (C10: writers table),
     - what a step does to [obs] and how the thread continues depend on [obs] only (C13: the cache never
       changes what clients see). *)
From Coq Require Import List Arith Bool.
Import ListNotations.

Inductive lmode := Rd | Wr.

Fixpoint upd {A} (l : list A) (i : nat) (x : A) : list A :=
  match l, i with
  | [], _ => []
  | _ :: r, O => x :: r
  | y :: r, S j => y :: upd r j x
  end.

Section Conc.
  Variables St Resp : Type.

  Inductive prog :=
  | Ret (r : Resp)
  | Tau (k : prog)
  | Acq (m : lmode) (k : prog)
  | Step (u : St -> St) (k : St -> prog)
  | Rel (k : prog).

  Record thread := mkT { held : option lmode; code : prog }.
  Definition config := (St * list thread)%type.

  Definition holds_w (t : thread) : bool := match held t with Some Wr => true | _ => false end.
  Definition holds_any (t : thread) : bool := match held t with Some _ => true | None => false end.

  (* the abstract readers-writer lock: a reader is admitted iff no writer holds, a writer iff nobody holds *)
  Definition admits (m : lmode) (ts : list thread) : bool :=
    match m with Rd => negb (existsb holds_w ts) | Wr => negb (existsb holds_any ts) end.

  Inductive kind := KTau | KAcq | KStep | KRel.

  Definition step1 (i : nat) (c : config) : option (config * kind) :=
    let '(s, ts) := c in
    match nth_error ts i with
    | None => None
    | Some t =>
        match code t, held t with
        | Tau k, h => Some ((s, upd ts i (mkT h k)), KTau)
        | Acq m k, None => if admits m ts then Some ((s, upd ts i (mkT (Some m) k)), KAcq) else None
        | Step u k, Some m => Some ((u s, upd ts i (mkT (Some m) (k s))), KStep)
        | Rel k, Some m => Some ((s, upd ts i (mkT None k)), KRel)
        | _, _ => None                      (* finished, or ill-formed *)
        end
    end.

  (* a schedule is admitted iff [exec] returns a configuration *)
  Fixpoint exec (sch : list nat) (c : config) : option config :=
    match sch with
    | [] => Some c
    | i :: rest => match step1 i c with Some (c', _) => exec rest c' | None => None end
    end.

  (* the threads in the order in which they acquire the lock (one entry per critical section) *)
  Fixpoint acq_order (sch : list nat) (c : config) : list nat :=
    match sch with
    | [] => []
    | i :: rest => match step1 i c with
                   | Some (c', KAcq) => i :: acq_order rest c'
                   | Some (c', _) => acq_order rest c'
                   | None => []
                   end
    end.

  Definition init (s0 : St) (progs : list prog) : config := (s0, map (mkT None) progs).

  Definition finished (c : config) (rs : list Resp) : Prop :=
    snd c = map (fun r => mkT None (Ret r)) rs.

  (* ---- one-at-a-time semantics ---- *)
  Fixpoint norm (p : prog) : prog := match p with Tau k => norm k | _ => p end.

  (* from inside a critical section to its Release: the state reached and how the thread continues *)
  Fixpoint run_sect (p : prog) (s : St) : St * prog :=
    match p with
    | Tau k => run_sect k s
    | Step u k => run_sect (k s) (u s)
    | Rel k => (s, k)
    | Ret _ | Acq _ _ => (s, p)
    end.

  (* a whole request executed alone *)
  Fixpoint run_prog (p : prog) (s : St) : St * Resp :=
    match p with
    | Ret r => (s, r)
    | Tau k | Acq _ k | Rel k => run_prog k s
    | Step u k => run_prog (k s) (u s)
    end.

  (* the section-atomic machine: thread i executes its next critical section in one go *)
  Definition astate := (St * list prog)%type.
  Definition asect (i : nat) (a : astate) : astate :=
    match nth_error (snd a) i with
    | Some p => match norm p with
                | Acq _ k => let r := run_sect k (fst a) in (fst r, upd (snd a) i (snd r))
                | _ => a
                end
    | None => a
    end.

  Inductive areach : astate -> list nat -> astate -> Prop :=
  | ar_nil : forall a, areach a [] a
  | ar_cons : forall a i p m k rest a',
      nth_error (snd a) i = Some p -> norm p = Acq m k ->
      areach (asect i a) rest a' -> areach a (i :: rest) a'.

  (* the requests executed one at a time in the given order *)
  Definition serial_step (progs : list prog) (acc : St * list (nat * Resp)) (i : nat) : St * list (nat * Resp) :=
    match nth_error progs i with
    | Some p => let r := run_prog p (fst acc) in (fst r, snd acc ++ [(i, snd r)])
    | None => acc
    end.
  Definition serial_from (progs : list prog) (order : list nat) (acc : St * list (nat * Resp)) :=
    fold_left (serial_step progs) order acc.
  Definition serial (progs : list prog) (order : list nat) (s0 : St) := serial_from progs order (s0, []).

  (* one critical section: up to local steps the request is Acquire ; body ; Release ; post *)
  Definition one_section (p : prog) : Prop :=
    exists m k, norm p = Acq m k /\ forall s, exists r, norm (snd (run_sect k s)) = Ret r.

  (* ---- hypotheses on programs ---- *)
  Variable D : Type.
  Variable obs : St -> D.

  Fixpoint wf (h : option lmode) (p : prog) : Prop :=
    match p with
    | Ret _ => h = None
    | Tau k => wf h k
    | Acq m k => h = None /\ wf (Some m) k
    | Rel k => h <> None /\ wf None k
    | Step u k =>
        (exists m, h = Some m /\ (m = Rd -> forall s, obs (u s) = obs s)) /\
        (forall s s', obs s = obs s' -> obs (u s) = obs (u s') /\ k s = k s') /\
        (forall s, wf h (k s))
    end.

  (* ---- real-time order ---- *)
  (* every step of a happens before every step of b: a's response precedes b's invocation *)
  Definition precedes (sch : list nat) (a b : nat) : Prop :=
    forall i j, nth_error sch i = Some a -> nth_error sch j = Some b -> i < j.
  Definition before (a b : nat) (l : list nat) : Prop := exists l1 l2 l3, l = l1 ++ a :: l2 ++ b :: l3.

  Inductive subseq : list nat -> list nat -> Prop :=
  | ss_nil : forall l, subseq [] l
  | ss_keep : forall x a b, subseq a b -> subseq (x :: a) (x :: b)
  | ss_skip : forall x a b, subseq a b -> subseq a (x :: b).

  (* ---- the request gate: check under r, provision under w, then the handler's own section ---- *)
  (* [absent s]: the home collection is missing (and may be created); [P]: what the w section does;
     [g1]: what the r section does to the state (cache only); [H]: the handler. *)
  Definition gated (absent : St -> bool) (P : St -> St) (g1 : St -> St) (H : prog) : prog :=
    Acq Rd (Step g1 (fun s => Rel (if absent s then Acq Wr (Step P (fun _ => Rel H)) else H))).

  Record greq := mkG { g_absent : St -> bool; g_P : St -> St; g_g1 : St -> St; g_H : prog }.
  Definition gprog (q : greq) : prog := gated (g_absent q) (g_P q) (g_g1 q) (g_H q).

  (* the sequential specification of a gated request: provision, then the handler, as ONE transaction *)
  Definition spec_step (qs : list greq) (acc : St * list (nat * Resp)) (i : nat) :=
    match nth_error qs i with
    | Some q => let r := run_prog (g_H q) (g_P q (fst acc)) in (fst r, snd acc ++ [(i, snd r)])
    | None => acc
    end.
  Definition spec_serial (qs : list greq) (order : list nat) (s0 : St) :=
    fold_left (spec_step qs) order (s0, []).
End Conc.

Arguments Ret {St Resp}. Arguments Tau {St Resp}. Arguments Acq {St Resp}. Arguments Step {St Resp}. Arguments Rel {St Resp}.
Arguments mkT {St Resp}. Arguments held {St Resp}. Arguments code {St Resp}.
Arguments step1 {St Resp}. Arguments exec {St Resp}. Arguments acq_order {St Resp}. Arguments init {St Resp}.
Arguments finished {St Resp}. Arguments norm {St Resp}. Arguments run_sect {St Resp}. Arguments run_prog {St Resp}.
Arguments asect {St Resp}. Arguments areach {St Resp}. Arguments serial {St Resp}. Arguments serial_from {St Resp}.
Arguments serial_step {St Resp}. Arguments one_section {St Resp}. Arguments wf {St Resp D}.
Arguments gated {St Resp}. Arguments spec_serial {St Resp}. Arguments spec_step {St Resp}. Arguments admits {St Resp}.
Arguments mkG {St Resp}. Arguments g_absent {St Resp}. Arguments g_P {St Resp}. Arguments g_g1 {St Resp}. Arguments g_H {St Resp}. Arguments gprog {St Resp}.
Arguments holds_w {St Resp}. Arguments holds_any {St Resp}.
