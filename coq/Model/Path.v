(* Hand-written canonical model of radicale/pathutils.py (string functions).
   Tied to the code by Proofs/GenEqPath.v (tie T: equal to the regenerated
   translation) and by the correspondence run of checks/C06.py (tie K). *)
From Coq Require Import List NArith Bool String.
Import ListNotations.
Require Import RV.Lib.PyStr.
Open Scope N_scope.

Definition is_safe_path_component (p : pystr) : bool :=
  nonempty p && negb (contains_char slash p) && negb (mem_str p [str "."; str ".."]).

Definition is_safe_filesystem_path_component (p : pystr) : bool :=
  nonempty p && negb (nonempty (posix_dirname p)) && negb (mem_str p [str "."; str ".."])
  && negb (startswith p [dot]) && negb (endswith p [tilde]) && is_safe_path_component p.

Definition safe_parts (p : pystr) : list pystr :=
  filter is_safe_path_component (split_on slash (normpath p)).

Definition join_parts (parts : list pystr) : pystr :=
  fold_left posix_join parts [slash].

Definition sanitize_path (p : pystr) : pystr :=
  let new_path := join_parts (safe_parts p) in
  new_path ++ (if endswith new_path [slash] then [] else if endswith p [slash] then [slash] else []).

Definition strip_path (p : pystr) : pystr := strip_char slash p.

Definition unstrip_path (sp : pystr) (trailing : bool) : pystr :=
  let p := slash :: sp in
  if trailing && negb (endswith p [slash]) then p ++ [slash] else p.

(* components of a sanitised path *)
Definition comps (p : pystr) : list pystr :=
  match strip_path p with [] => [] | sp => split_on slash sp end.

(* path_to_filesystem without the collision check (identity on Linux, see DESIGN C06 P):
   None = UnsafePathError *)
Definition path_to_filesystem (root sane_path : pystr) : option pystr :=
  let parts := match sane_path with [] => [] | _ => split_on slash sane_path end in
  fold_left (fun acc part =>
               match acc with
               | None => None
               | Some sp => if is_safe_filesystem_path_component part
                            then Some (posix_join sp part) else None
               end) parts (Some root).

Definition is_hex (c : N) : bool := contains_char c (str "0123456789abcdef").
Definition check_token_name (t : pystr) : bool :=
  N.eqb (N.of_nat (List.length t)) 64 && forallb is_hex t.

(* name_from_path: None = ValueError *)
Definition name_from_path (path coll_path : pystr) : option pystr :=
  let start := unstrip_path coll_path true in
  if negb (startswith (path ++ [slash]) start) then None else
  let name := skipn (List.length start) path in
  if nonempty name && negb (is_safe_path_component name) then None else Some name.
