(* C20 -- the process around serve(): radicale/__main__.py run() and its exit-signal handling.  No proofs here.

   run() installs, for every exit signal (SIGTERM, SIGINT, SIGHUP, SIGQUIT), first a handler that raises SystemExit
   (`exit_signal_handler`, in force during start-up), later -- just before serve() -- `shutdown_signal_handler`, which
   closes the harness end of the shutdown socket pair.  A signal that arrives while serve() runs executes the installed
   handler in the main thread (the thread that runs the accept loop and the finally block):
     * HShutdown: the handler's actions run; closing the shutdown socket is the event EStop of Model/Server.v;
     * HExit: SystemExit propagates out of serve() -- also out of its finally block, which is then abandoned: run() is left,
       the daemon worker threads die with the process, a request in flight is cut off; exit status 1;
     * HDefault: the process is killed by the signal; HIgnore: nothing.
   What the shutdown handler does is a list of `action`s, REGENERATED from the source on every run
   (Gen/MainSigGen.v, translate/t_c20main.py) and compared with `shutdown_handler_model` below. *)
From Coq Require Import List NArith Bool String.
Import ListNotations.

Inductive handler := HDefault | HIgnore | HExit | HShutdown.

Inductive action :=
  | ACloseShutdown          (* shutdown_socket.close() *)
  | AInstall (h : handler)  (* signal.signal(n, h) for the exit signals *)
  | ANop.                   (* logging *)

Inductive life :=
  | Running                 (* run() is inside serve() (loop or finally block) *)
  | Exited (code : N)       (* the main thread left serve() by an exception / the process was killed:
                               whatever was in flight is cut off *).

Record proc := mkP { installed : handler (* the handler of every exit signal: they are always installed together *);
                     sock_closed : bool  (* the shutdown socket has been closed = EStop has happened *);
                     alive : life }.

(* the state in which serve() is entered *)
Definition proc0 : proc := mkP HShutdown false Running.

Definition do_action (p : proc) (a : action) : proc :=
  match a with
  | ACloseShutdown => mkP (installed p) true (alive p)     (* closing a closed socket again is a no-op *)
  | AInstall h => mkP h (sock_closed p) (alive p)
  | ANop => p
  end.

(* one exit signal is delivered; acts = the body of the shutdown handler *)
Definition deliver (acts : list action) (p : proc) : proc :=
  match alive p with
  | Exited _ => p
  | Running =>
    match installed p with
    | HShutdown => fold_left do_action acts p
    | HExit => mkP (installed p) (sock_closed p) (Exited 1)
    | HDefault => mkP (installed p) (sock_closed p) (Exited 143)
    | HIgnore => p
    end
  end.

Fixpoint deliver_n (acts : list action) (n : nat) (p : proc) : proc :=
  match n with O => p | S k => deliver_n acts k (deliver acts p) end.

(* what the model's shutdown event was written from: the handler closes the shutdown socket and does nothing else *)
Definition shutdown_handler_model : list action := [ACloseShutdown].

(* a handler body is harmless if it never installs a handler that leaves serve(), and does close the socket *)
Definition keeps_draining (a : action) : bool :=
  match a with AInstall HShutdown | AInstall HIgnore => true | AInstall _ => false | _ => true end.
Definition closes (a : action) : bool := match a with ACloseShutdown => true | _ => false end.
Definition installs_ignore (a : action) : bool := match a with AInstall HIgnore => true | _ => false end.

Open Scope string_scope.
(* the statement skeleton of the signal-related part of run() the model was written from *)
Definition main_skeleton : list string :=
  ["exit_signal_numbers = [signal.SIGTERM, signal.SIGINT]";
   "if sys.platform == 'win32':";
   "  exit_signal_numbers.append(signal.SIGBREAK)";
   "else:";
   "  exit_signal_numbers.append(signal.SIGHUP)";
   "  exit_signal_numbers.append(signal.SIGQUIT)";
   "def exit_signal_handler(signal_number, stack_frame):";
   "  sys.exit(1)";
   "for signal_number in exit_signal_numbers:";
   "  signal.signal(signal_number, exit_signal_handler)";
   "shutdown_socket, shutdown_socket_out = socket.socketpair()";
   "def shutdown_signal_handler(signal_number, stack_frame):";
   "  shutdown_socket.close()";
   "for signal_number in exit_signal_numbers:";
   "  signal.signal(signal_number, shutdown_signal_handler)";
   "try:";
   "  server.serve(configuration, shutdown_socket_out)";
   "except Exception:";
   "  logger.critical('An exception occurred during server startup: %s', e, exc_info=False)";
   "  sys.exit(1)"].
