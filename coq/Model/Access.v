(* Hand model of app/base.py Access.check (tie T: Proofs/GenEqAccess.v). None = ValueError. *)
From Coq Require Import List NArith Bool String.
Import ListNotations.
Require Import RV.Lib.PyStr RV.Lib.Item.
Open Scope N_scope.

Definition access_check (perms pperms : pystr) (is_root : bool) (permission : pystr) (item : item_kind)
  : option bool :=
  if negb (contains_sub permission (str "rwdDoO")) then None else
  let '(ps, pps) :=
    match item with
    | NoItem => (permission ++ upper_ascii permission, permission)
    | IsCollection t => ((if nonempty t then permission else upper_ascii permission), [])
    | IsItem => ([], permission)
    end in
  Some (nonempty (intersect_chars perms ps) || (negb is_root && nonempty (intersect_chars pperms pps))).
