(* C14 -- BaseCollection.serialize (radicale/storage/__init__.py), the whole-collection export of a
   calendar: Radicale's own line-based state machine, modelled statement by statement.
   This is the code WITH the fix notes/fixes/C14-export-folded-tzid.patch (a folded TZID line is unfolded
   before it is used as the de-duplication key); `step_unfixed` is the pinned code, kept to state what
   was wrong.  No proofs in this file. *)
From Coq Require Import List NArith ZArith Bool String.
Import ListNotations.
Require Import RV.Lib.PyStr RV.Model.ContentLine.
Open Scope N_scope.

Definition line := pystr.

Definition s_BEGINc := str "BEGIN:".
Definition s_ENDc := str "END:".
Definition s_TZIDc := str "TZID:".
Definition s_BEGIN_VCALENDAR := str "BEGIN:VCALENDAR".
Definition s_BEGIN_VTIMEZONE := str "BEGIN:VTIMEZONE".

(* variables of the Python function that live across lines and across items *)
Record st := mkSt {
  in_vcalendar : bool;
  vtimezones : list line;          (* the string `vtimezones`, as the list of its lines *)
  included_tzids : list pystr;     (* the set `included_tzids` *)
  vtimezone : list line;           (* the list `vtimezone` (lines of the VTIMEZONE being read) *)
  tzid : option pystr;
  tzid_line : bool;                (* fix: the previous line belongs to the (folded) TZID line *)
  components : list line           (* the string `components`, as the list of its lines *)
}.

Definition st0 : st := mkSt false [] [] [] None false [].

Definition starts_wsp (l : line) : bool := match l with c :: _ => is_wsp c | [] => false end.

(* `if tzid is None or tzid not in included_tzids: vtimezones += ...; if tzid is not None: add; clear; tzid = None` *)
Definition flush_tz (s : st) : st :=
  let keep := match tzid s with None => true | Some t => negb (mem_str t (included_tzids s)) end in
  mkSt (in_vcalendar s)
       (if keep then vtimezones s ++ vtimezone s else vtimezones s)
       (match tzid s with Some t => if mem_str t (included_tzids s) then included_tzids s else included_tzids s ++ [t]
                        | None => included_tzids s end)
       [] None false (components s).

(* the body of `for line in item.serialize().split("\r\n")`; depth is the variable before the line *)
Definition step (ds : Z * st) (l : line) : Z * st :=
  let '(depth, s) := ds in
  let depth := if startswith l s_BEGINc then (depth + 1)%Z else depth in
  let s :=
    if (depth =? 1)%Z && eqs l s_BEGIN_VCALENDAR then
      mkSt true (vtimezones s) (included_tzids s) (vtimezone s) (tzid s) (tzid_line s) (components s)
    else if in_vcalendar s then
      let inv := if (depth =? 1)%Z && startswith l s_ENDc then false else true in
      if (depth =? 2)%Z && eqs l s_BEGIN_VTIMEZONE then
        mkSt inv (vtimezones s) (included_tzids s) (vtimezone s ++ [l]) (tzid s) (tzid_line s) (components s)
      else if nonempty (vtimezone s) then
        let s1 := mkSt inv (vtimezones s) (included_tzids s) (vtimezone s ++ [l]) (tzid s) (tzid_line s) (components s) in
        if (depth =? 2)%Z && startswith l s_TZIDc then
          mkSt inv (vtimezones s1) (included_tzids s1) (vtimezone s1) (Some (skipn 5 l)) true (components s1)
        else if tzid_line s1 && starts_wsp l then
          mkSt inv (vtimezones s1) (included_tzids s1) (vtimezone s1)
               (match tzid s1 with Some t => Some (t ++ skipn 1 l) | None => None end) true (components s1)
        else if (depth =? 2)%Z && startswith l s_ENDc then flush_tz s1
        else mkSt inv (vtimezones s1) (included_tzids s1) (vtimezone s1) (tzid s1) false (components s1)
      else if (2 <=? depth)%Z then
        mkSt inv (vtimezones s) (included_tzids s) (vtimezone s) (tzid s) (tzid_line s) (components s ++ [l])
      else
        mkSt inv (vtimezones s) (included_tzids s) (vtimezone s) (tzid s) (tzid_line s) (components s)
    else s in
  let depth := if startswith l s_ENDc then (depth - 1)%Z else depth in
  (depth, s).

(* the pinned (unfixed) body: the key is the rest of the first PHYSICAL line "TZID:..." *)
Definition step_unfixed (ds : Z * st) (l : line) : Z * st :=
  let '(depth, s) := ds in
  let depth := if startswith l s_BEGINc then (depth + 1)%Z else depth in
  let s :=
    if (depth =? 1)%Z && eqs l s_BEGIN_VCALENDAR then
      mkSt true (vtimezones s) (included_tzids s) (vtimezone s) (tzid s) false (components s)
    else if in_vcalendar s then
      let inv := if (depth =? 1)%Z && startswith l s_ENDc then false else true in
      if (depth =? 2)%Z && eqs l s_BEGIN_VTIMEZONE then
        mkSt inv (vtimezones s) (included_tzids s) (vtimezone s ++ [l]) (tzid s) false (components s)
      else if nonempty (vtimezone s) then
        let s1 := mkSt inv (vtimezones s) (included_tzids s) (vtimezone s ++ [l]) (tzid s) false (components s) in
        if (depth =? 2)%Z && startswith l s_TZIDc then
          mkSt inv (vtimezones s1) (included_tzids s1) (vtimezone s1) (Some (skipn 5 l)) false (components s1)
        else if (depth =? 2)%Z && startswith l s_ENDc then flush_tz s1
        else s1
      else if (2 <=? depth)%Z then
        mkSt inv (vtimezones s) (included_tzids s) (vtimezone s) (tzid s) false (components s ++ [l])
      else
        mkSt inv (vtimezones s) (included_tzids s) (vtimezone s) (tzid s) false (components s)
    else s in
  let depth := if startswith l s_ENDc then (depth - 1)%Z else depth in
  (depth, s).

(* str.split("\r\n") *)
Fixpoint split_crlf_aux (acc : pystr) (t : pystr) : list line :=
  match t with
  | [] => [rev acc]
  | c :: r =>
      match r with
      | d :: r' => if (c =? CR) && (d =? LF) then rev acc :: split_crlf_aux [] r' else split_crlf_aux (c :: acc) r
      | [] => [rev (c :: acc)]
      end
  end.
Definition split_crlf (t : pystr) : list line := split_crlf_aux [] t.

Definition run_item (stp : Z * st -> line -> Z * st) (s : st) (item_lines : list line) : st :=
  snd (fold_left stp item_lines (0%Z, s)).            (* `depth = 0` for every item *)
Definition run_items (stp : Z * st -> line -> Z * st) (items : list (list line)) : st :=
  fold_left (run_item stp) items st0.

Definition crlf_lines (ls : list line) : pystr := List.concat (map (fun l => l ++ [CR; LF]) ls).

(* template.find("\r\nEND:VCALENDAR\r\n") + 2 ; -1 when absent (then the Python slices at 1: modelled as is) *)
Fixpoint find_sub (needle hay : pystr) (i : nat) : option nat :=
  if startswith hay needle then Some i
  else match hay with [] => None | _ :: r => find_sub needle r (S i) end.
Definition marker : pystr := [CR; LF] ++ str "END:VCALENDAR" ++ [CR; LF].

Definition export_with (stp : Z * st -> line -> Z * st) (template : pystr) (item_texts : list pystr) : pystr :=
  let s := run_items stp (map split_crlf item_texts) in
  let pos := match find_sub marker template 0 with Some i => (i + 2)%nat | None => 1%nat end in
  firstn pos template ++ crlf_lines (vtimezones s) ++ crlf_lines (components s) ++ skipn pos template.

Definition export := export_with step.
Definition export_unfixed := export_with step_unfixed.

(* ------------------------------------------------------------------ specification side *)
(* Shape of an item as the storage holds it (one serialised VCALENDAR): depth-2 blocks. *)
Definition is_begin (l : line) : bool := startswith l s_BEGINc.
Definition is_end (l : line) : bool := startswith l s_ENDc.

(* lines strictly inside a component that opened at depth d: nested components are balanced *)
Inductive inner : list line -> Prop :=
| inner_nil : inner []
| inner_plain l r : is_begin l = false -> is_end l = false -> inner r -> inner (l :: r)
| inner_nest b mid e r : is_begin b = true -> is_end e = true -> is_begin e = false ->
    inner mid -> inner r -> inner (b :: mid ++ e :: r).

Record block := mkBlock { b_begin : line; b_inner : list line; b_end : line }.
Definition block_lines (b : block) : list line := b_begin b :: b_inner b ++ [b_end b].
Definition is_tz_block (b : block) : bool := eqs (b_begin b) s_BEGIN_VTIMEZONE.

Definition wf_block (b : block) : Prop :=
  is_begin (b_begin b) = true /\ is_end (b_begin b) = false /\
  is_end (b_end b) = true /\ is_begin (b_end b) = false /\ inner (b_inner b).

(* the key the export uses for a VTIMEZONE block: the last top-level "TZID:" line with its continuation
   lines unfolded.  `tz_key_scan` walks the inner lines exactly as the state machine sees them. *)
Fixpoint tz_key_scan (depth : Z) (key : option pystr) (open : bool) (ls : list line) : option pystr :=
  match ls with
  | [] => key
  | l :: r =>
      let depth := if is_begin l then (depth + 1)%Z else depth in
      let '(key', open') :=
        if (depth =? 2)%Z && startswith l s_TZIDc then (Some (skipn 5 l), true)
        else if open && starts_wsp l then (match key with Some t => Some (t ++ skipn 1 l) | None => None end, true)
        else (key, false) in
      let depth := if is_end l then (depth - 1)%Z else depth in
      tz_key_scan depth key' open' r
  end.
Definition tz_key (b : block) : option pystr := tz_key_scan 2 None false (b_inner b).

(* keep the first block of every key; blocks without key are always kept *)
Fixpoint dedup_tz (seen : list pystr) (bs : list block) : list block :=
  match bs with
  | [] => []
  | b :: r =>
      match tz_key b with
      | None => b :: dedup_tz seen r
      | Some k => if mem_str k seen then dedup_tz seen r else b :: dedup_tz (seen ++ [k]) r
      end
  end.

Record item := mkItem { i_props : list line; i_blocks : list block }.
Definition s_END_VCALENDAR := str "END:VCALENDAR".
(* "BEGIN:VCALENDAR" props blocks "END:VCALENDAR" "" (the text ends with CRLF, so split leaves a last empty line) *)
Definition item_lines (it : item) : list line :=
  s_BEGIN_VCALENDAR :: i_props it ++ List.concat (map block_lines (i_blocks it)) ++ [s_END_VCALENDAR; []].
Definition wf_item (it : item) : Prop :=
  Forall (fun l => is_begin l = false /\ is_end l = false) (i_props it) /\ Forall wf_block (i_blocks it).

Definition tz_blocks (its : list item) : list block := filter is_tz_block (flat_map i_blocks its).
Definition comp_blocks (its : list item) : list block := filter (fun b => negb (is_tz_block b)) (flat_map i_blocks its).
