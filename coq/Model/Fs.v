(* File-system model L1 for C02 / C12 (flat: a path is a list of classified names).

   Paths are relative to the storage folder (`[]` = [storage] filesystem_folder itself):
     [Root; Safe u; Safe c; Safe h]                  collection-root/u/c/h
     [Root; Safe u; Tmp 3; Safe 0]                   collection-root/u/.Radicale.tmp-XXXX/collection
     [Root; Safe u; Safe c; Cache; CItem; Safe h]    .../c/.Radicale.cache/item/h
     CRoot :: ...                                    collection-cache/... (the use_cache_subfolder_for_X options)
   The harness keeps the dictionary between real component strings and `Safe n` / `Other n`; temp
   names `.Radicale.tmp-*` are numbered in order of first appearance.

   A state is a look-up function plus a finite over-approximation `dom` of its support (needed only to
   decide "directory not empty" and to list a directory).  Every primitive step has its effect on
   `look` written down directly, so the frame and update equations hold by computation.
   No proofs here (Proofs/FsLemmas.v). *)
From Coq Require Import List NArith Bool.
Import ListNotations.
Open Scope N_scope.

Inductive name :=
| Root | CRoot                      (* collection-root, collection-cache *)
| Safe (n : N)                      (* a name a client may use (is_safe_filesystem_path_component) *)
| Props                             (* .Radicale.props *)
| Cache | CItem | CHist | CTok      (* .Radicale.cache and its sub-folders item, history, sync-token *)
| Tmp (k : N)                       (* .Radicale.tmp-* *)
| Other (n : N).                    (* any other reserved / unsafe leaf (lock files, dot files, ...~) *)

Definition path := list name.
Inductive node := D | F (c : N).    (* directory | file with content id c *)

Inductive errno := ENOSPC | EACCES | EIO | ENOENT | EEXIST | ENOTEMPTY | ENOTDIR | EISDIR | EINVAL.

Inductive step :=
| Mkdir (p : path)                  (* mkdir, also mkdtemp *)
| Create (p : path)                 (* open(O_WRONLY|O_CREAT|O_TRUNC) *)
| Write (p : path) (c : N)          (* write(2) of the whole buffered content, through the open fd *)
| FsyncF (p : path)                 (* fsync of the file descriptor *)
| FsyncD (p : path)                 (* open(dir) + fsync *)
| Rename (a b : path)               (* os.replace / os.rename *)
| Exchange (a b : path)             (* renameat2(RENAME_EXCHANGE) *)
| Unlink (p : path)
| Rmdir (p : path)
| Rmtree (p : path).                (* shutil.rmtree of a temp directory, collapsed to one step *)

Definition name_eqb (a b : name) : bool :=
  match a, b with
  | Root, Root | CRoot, CRoot | Props, Props | Cache, Cache | CItem, CItem | CHist, CHist | CTok, CTok => true
  | Safe x, Safe y | Tmp x, Tmp y | Other x, Other y => N.eqb x y
  | _, _ => false
  end.

Fixpoint path_eqb (p q : path) : bool :=
  match p, q with
  | [], [] => true
  | x :: p', y :: q' => name_eqb x y && path_eqb p' q'
  | _, _ => false
  end.

(* prefix a q: a is a (non-strict) prefix of q;  strip a q: q without its first |a| components *)
Fixpoint prefix (a q : path) : bool :=
  match a, q with
  | [], _ => true
  | x :: a', y :: q' => name_eqb x y && prefix a' q'
  | _ :: _, [] => false
  end.
Definition strip (a q : path) : path := skipn (List.length a) q.
Definition parent (p : path) : path := removelast p.
Definition nonempty (p : path) : bool := match p with [] => false | _ => true end.

Record fs := { look : path -> option node; dom : list path }.

Definition is_some {A} (o : option A) : bool := match o with Some _ => true | None => false end.
Definition is_dir (s : fs) (p : path) : bool := match look s p with Some D => true | _ => false end.
Definition is_file (s : fs) (p : path) : bool := match look s p with Some (F _) => true | _ => false end.
Definition is_child (p q : path) : bool := prefix p q && Nat.eqb (List.length q) (S (List.length p)).
Definition has_child (s : fs) (p : path) : bool :=
  existsb (fun q => is_child p q && is_some (look s q)) (dom s).

Fixpoint dedup (l : list path) : list path :=
  match l with
  | [] => []
  | p :: r => if existsb (path_eqb p) r then dedup r else p :: dedup r
  end.
(* entries of directory p (full paths), each once *)
Definition ls (s : fs) (p : path) : list path :=
  dedup (filter (fun q => is_child p q && is_some (look s q)) (dom s)).

Definition upd (p : path) (v : option node) (s : fs) : fs :=
  {| look := fun q => if path_eqb q p then v else look s q; dom := p :: dom s |}.

Definition rekey (a b q : path) : path := if prefix a q then b ++ strip a q else q.

Definition apply (st : step) (s : fs) : fs + errno :=
  match st with
  | Mkdir p =>
      if negb (nonempty p) then inr EINVAL
      else if is_some (look s p) then inr EEXIST
      else if negb (is_dir s (parent p)) then inr ENOENT
      else inl (upd p (Some D) s)
  | Create p =>
      if negb (nonempty p) then inr EINVAL
      else if negb (is_dir s (parent p)) then inr ENOENT
      else if is_dir s p then inr EISDIR
      else inl (upd p (Some (F 0)) s)
  | Write p c => if is_file s p then inl (upd p (Some (F c)) s) else inr EINVAL
  | FsyncF p => if is_file s p then inl s else inr ENOENT
  | FsyncD p => if is_dir s p then inl s else inr ENOENT
  | Unlink p =>
      match look s p with
      | Some (F _) => inl (upd p None s)
      | Some D => inr EISDIR
      | None => inr ENOENT
      end
  | Rmdir p =>
      if negb (nonempty p) then inr EINVAL
      else match look s p with
           | Some D => if has_child s p then inr ENOTEMPTY else inl (upd p None s)
           | Some (F _) => inr ENOTDIR
           | None => inr ENOENT
           end
  | Rmtree p =>
      if negb (nonempty p) then inr EINVAL
      else if is_dir s p
      then inl {| look := fun q => if prefix p q then None else look s q; dom := dom s |}
      else inr ENOENT
  | Rename a b =>
      if negb (nonempty a && nonempty b) then inr EINVAL
      else if prefix a b then inr EINVAL
      else if negb (is_dir s (parent b)) then inr ENOENT
      else
        let go := inl {| look := fun q => if prefix b q then look s (a ++ strip b q)
                                          else if prefix a q then None else look s q;
                         dom := b :: map (rekey a b) (dom s) |} in
        match look s a, look s b with
        | None, _ => inr ENOENT
        | Some _, None => go
        | Some (F _), Some (F _) => go
        | Some D, Some D => if has_child s b then inr ENOTEMPTY else go
        | Some (F _), Some D => inr EISDIR
        | Some D, Some (F _) => inr ENOTDIR
        end
  | Exchange a b =>
      if negb (nonempty a && nonempty b) then inr EINVAL
      else if prefix a b || prefix b a then inr EINVAL
      else if negb (is_some (look s a) && is_some (look s b)) then inr ENOENT
      else inl {| look := fun q => if prefix b q then look s (a ++ strip b q)
                                   else if prefix a q then look s (b ++ strip a q) else look s q;
                  dom := map (fun q => if prefix a q then b ++ strip a q
                                       else if prefix b q then a ++ strip b q else q) (dom s) |}
  end.

(* ------------------------------------------------------------------ classification of paths *)
Definition is_safe (n : name) : bool := match n with Safe _ => true | _ => false end.
Definition is_props (n : name) : bool := match n with Props => true | _ => false end.

(* relative data path: Safe components only, the last one may be the props file *)
Fixpoint rel_data (r : path) : bool :=
  match r with
  | [] => true
  | x :: r' => match r' with
               | [] => is_safe x || is_props x
               | _ => is_safe x && rel_data r'
               end
  end.
(* client-visible (data) path: below collection-root, no reserved component except a final props file.
   Everything else -- cache, temp directories, lock files, the separate cache area -- is invisible. *)
Definition is_data (p : path) : bool := match p with Root :: r => rel_data r | _ => false end.

(* may step st change what is found at path p? *)
Definition touch (st : step) (p : path) : bool :=
  match st with
  | Mkdir q | Create q | Write q _ | Unlink q | Rmdir q => path_eqb p q
  | FsyncF _ | FsyncD _ => false
  | Rmtree q => prefix q p
  | Rename a b | Exchange a b => prefix a p || prefix b p
  end.

(* the step leaves every data path alone (paths must be non-empty: `[]` is the folder itself) *)
Definition nd_path (q : path) : bool := nonempty q && negb (is_data q).
Definition nondata_step (st : step) : bool :=
  match st with
  | Mkdir q | Create q | Write q _ | Unlink q | Rmdir q | Rmtree q => nd_path q
  | FsyncF _ | FsyncD _ => true
  | Rename a b | Exchange a b => nd_path a && nd_path b
  end.

(* ------------------------------------------------------------------ invariants (as bool-free Props) *)
(* every entry's parent is a directory; the storage folder exists; dom covers the support *)
Definition closed (s : fs) : Prop :=
  look s [] = Some D /\ forall p x, look s (p ++ [x]) <> None -> look s p = Some D.
Definition dom_ok (s : fs) : Prop := forall p, look s p <> None -> In p (dom s).
Definition fs_inv_weak (s : fs) : Prop := closed s /\ dom_ok s.

(* two states show the same client-visible store *)
Definition abs_eq (s s' : fs) : Prop := forall p, is_data p = true -> look s p = look s' p.

(* ------------------------------------------------------------------ durability monitor (C12) *)
(* DW p: file p has written data that is not fsynced.  DE p: the directory entry p was created /
   removed / replaced and its parent directory is not fsynced since. *)
Inductive dent := DW (p : path) | DE (p : path).
Definition dpath (d : dent) : path := match d with DW p | DE p => p end.
Definition dent_eqb (x y : dent) : bool :=
  match x, y with DW p, DW q | DE p, DE q => path_eqb p q | _, _ => false end.
Definition dmap (f : path -> path) (d : dent) : dent := match d with DW p => DW (f p) | DE p => DE (f p) end.

Record mon := { m_dirty : list dent; m_bad : bool }.
Definition mon0 : mon := {| m_dirty := []; m_bad := false |}.

Definition drop (f : dent -> bool) (m : mon) : mon := {| m_dirty := filter (fun d => negb (f d)) (m_dirty m); m_bad := m_bad m |}.
Definition add (d : dent) (m : mon) : mon := {| m_dirty := d :: m_dirty m; m_bad := m_bad m |}.
Definition flag (b : bool) (m : mon) : mon := {| m_dirty := m_dirty m; m_bad := m_bad m || b |}.
Definition under (a : path) (d : dent) : bool := prefix a (dpath d).
(* something dirty sits at or below the (now visible) path b *)
Definition exposes (b : path) (m : mon) : bool := existsb (fun d => under b d && is_data (dpath d)) (m_dirty m).

Definition dstep (st : step) (m : mon) : mon :=
  match st with
  | Mkdir p => add (DE p) (drop (under p) m)       (* a new directory is empty: records below p are stale *)
  | Create p => flag (is_data p) (add (DE p) m)
  | Write p _ => flag (is_data p) (add (DW p) m)
  | FsyncF p => drop (dent_eqb (DW p)) m
  | FsyncD d => drop (fun x => match x with DE q => path_eqb (parent q) d | DW _ => false end) m
  | Unlink p => add (DE p) (drop (fun x => path_eqb (dpath x) p) m)
  | Rmdir p => add (DE p) (drop (under p) m)
  | Rmtree p => add (DE p) (drop (under p) m)
  | Rename a b =>
      let m1 := drop (fun x => under b x || dent_eqb (DE a) x) m in          (* target overwritten *)
      let m2 := {| m_dirty := map (dmap (rekey a b)) (m_dirty m1); m_bad := m_bad m1 |} in
      add (DE a) (add (DE b) (flag (exposes b m2) m2))
  | Exchange a b =>
      let m1 := drop (fun x => dent_eqb (DE a) x || dent_eqb (DE b) x) m in
      let sw := fun q => if prefix a q then b ++ strip a q else if prefix b q then a ++ strip b q else q in
      let m2 := {| m_dirty := map (dmap sw) (m_dirty m1); m_bad := m_bad m1 |} in
      add (DE a) (add (DE b) (flag (exposes b m2 || exposes a m2) m2))
  end.

Definition mon_run (t : list step) : mon := fold_left (fun m st => dstep st m) t mon0.
Definition clean (m : mon) : Prop :=
  m_bad m = false /\ forall d, In d (m_dirty m) -> is_data (dpath d) = false.

(* C12's predicate on a trace of successfully executed steps:
   - no file is created or written in place under a visible name,
   - no Rename / Exchange makes visible a file with unsynced data or a directory entry whose
     directory was not synced (the data is flushed BEFORE it becomes visible),
   - at the end no visible directory entry is left unsynced (the directory is flushed AFTERWARDS). *)
Definition durable (t : list step) : Prop := clean (mon_run t).
Definition durableb (t : list step) : bool :=
  let m := mon_run t in negb (m_bad m) && forallb (fun d => negb (is_data (dpath d))) (m_dirty m).
