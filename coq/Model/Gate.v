(* C05: decision skeleton of radicale/app/__init__.py Application._handle_request
   (DESIGN Appendix A "Gate"), as a function from an abstract WSGI environ + configuration +
   the external parties (auth back-end, handler, storage/rights answers about the principal
   collection, Python library calls) to the outcome.  Tied to the code by correspondence
   (checks/C05.py: the real Application with a scripted back-end and scripted handlers) and by
   the regenerated statement skeleton (Gen/GateSkelGen.v, Proofs/GenEqLoginMap.v).
   No proofs in this file. *)
From Coq Require Import List NArith ZArith Bool String.
Import ListNotations.
Require Import RV.Lib.PyStr RV.Model.Path RV.Model.C05Text RV.Model.LoginMap.
Open Scope N_scope.

Inductive auth_kind := ANone | ADenyAll | ARemoteUser | AXRemoteUser | AOther.
(* AOther: any back-end that only implements _login (htpasswd, custom plugin, ...) *)

Record config := {
  c_script_name : pystr;       (* [server] script_name, "" or "/x" without trailing slash *)
  c_internal : bool;           (* [server] _internal_server *)
  c_max_len : Z;               (* [server] max_content_length *)
  c_kind : auth_kind;          (* [auth] type *)
  c_lc : bool; c_uc : bool; c_sd : bool   (* lc_username / uc_username / strip_domain *)
}.

(* int(environ.get("CONTENT_LENGTH") or 0): absent or "" is CLNum 0 *)
Inductive clen := CLInvalid | CLNum (z : Z).

Record environ := {
  e_method : pystr;            (* REQUEST_METHOD as received *)
  e_path_info : pystr;         (* PATH_INFO, "" when absent *)
  e_fwd_for : pystr; e_fwd_host : pystr; e_fwd_proto : pystr; e_fwd_server : pystr;
                               (* HTTP_X_FORWARDED_FOR/_HOST/_PROTO/_SERVER, "" when absent *)
  e_x_script : option pystr;   (* HTTP_X_SCRIPT_NAME, None when the key is absent *)
  e_script : pystr;            (* SCRIPT_NAME, "" when absent *)
  e_auth : pystr;              (* HTTP_AUTHORIZATION, "" when absent *)
  e_ctype : pystr;             (* CONTENT_TYPE (only an argument of the external charset decoding) *)
  e_remote_user : pystr;       (* REMOTE_USER, "" when absent *)
  e_x_remote_user : pystr;     (* HTTP_X_REMOTE_USER, "" when absent *)
  e_clen : clen
}.

(* reverse_proxy: any of the four headers non-empty *)
Definition e_forwarded (env : environ) : bool :=
  nonempty (e_fwd_for env) || nonempty (e_fwd_host env) || nonempty (e_fwd_proto env)
  || nonempty (e_fwd_server env).

Inductive hresp := HNotAllowed | HResp (status : N) | HRaise.

Inductive effect :=
| EBackend (login pw : pystr)            (* the back-end's _login was called with exactly these *)
| EHomeRecheck (user : pystr) (found : bool) (* second discover("/user/") under the w lock (a read) *)
| EHome (user : pystr) (created : bool)  (* create_collection("/user/") attempted under the w lock *)
| EDispatch (m bp path user : pystr).    (* do_<m>(environ, bp, path, user) was called *)

Inductive final :=
| FBadRequest          (* 400: X-Script-Name without leading slash; negative CONTENT_LENGTH (internal server) *)
| FPrefixError         (* 500: SCRIPT_NAME without leading slash *)
| FMethodNotAllowed    (* 405 *)
| FRedirect (loc : pystr)  (* 301; loc = the URL path handed to httputils.redirect, which percent-encodes it (C18) *)
| FNotFound            (* 404 .well-known *)
| FTooLarge            (* 413 *)
| FError               (* uncaught exception -> 500 *)
| FHandler (status : N)    (* the handler's own answer *)
| FForbidden           (* NOT_ALLOWED left as 403 *)
| FUnauthorized.       (* 401 + WWW-Authenticate *)

Record result := { r_effects : list effect; r_final : final }.

Inductive cred := CFail | CCreds (ext : bool) (login pw : pystr).

Definition method_names : list pystr :=
  [str "DELETE"; str "GET"; str "HEAD"; str "MKCALENDAR"; str "MKCOL"; str "MOVE"; str "OPTIONS";
   str "POST"; str "PROPFIND"; str "PROPPATCH"; str "PUT"; str "REPORT"].

Definition wk_caldav := str "/.well-known/caldav".
Definition wk_carddav := str "/.well-known/carddav".
Definition wk := str "/.well-known".
Definition wk_slash := str "/.well-known/".
Definition basic := str "Basic".

Section Gate.
  (* ---- external parties: never axioms, every theorem quantifies over them ---- *)
  Variables py_lower py_upper : pystr -> pystr.                 (* str.lower / str.upper *)
  Variable basic_decode : pystr -> pystr -> option pystr.       (* content-type, ASCII payload ->
       decode_request(b64decode(payload)); None = binascii.Error / LookupError *)
  Variable backend : pystr -> pystr -> option pystr.            (* AOther: _login; None = raises *)
  Variable handler : pystr -> pystr -> pystr -> pystr -> hresp. (* do_<m>(bp, path, user) *)
  Variable home_exists : pystr -> bool.                         (* discover("/user/") yields something (under the r lock) *)
  Variable home_exists_w : pystr -> bool.                       (* the same look-up repeated under the w lock, just before creating *)
  Variable rights_w : pystr -> bool.                            (* "W" in rights("/user/") *)
  Variable create_fails : pystr -> bool.                        (* create_collection raises ValueError *)

  Definition base_prefix (cfg : config) (env : environ) : final + pystr :=
    if nonempty (c_script_name cfg) && e_forwarded env then inr (c_script_name cfg)
    else
      let '(from_x, bp) := match e_x_script env with Some s => (true, s) | None => (false, e_script env) end in
      if nonempty bp && negb (startswith bp [slash])
      then inl (if from_x then FBadRequest else FPrefixError)
      else inr (if endswith bp [slash] then rstrip_char slash bp else bp).

  Definition request_path (env : environ) (bp : pystr) : pystr :=
    let p := sanitize_path (e_path_info env) in
    if e_forwarded env && nonempty bp
    then (if startswith (p ++ [slash]) (bp ++ [slash])       (* only at a path-component boundary (commit db03c86) *)
          then (let r := skipn (List.length bp) p in if nonempty r then r else [slash])
          else p)
    else p.

  Definition external_login (k : auth_kind) (env : environ) : option (pystr * pystr) :=
    match k with
    | ARemoteUser => Some (e_remote_user env, [])
    | AXRemoteUser => Some (e_x_remote_user env, [])
    | _ => None
    end.

  Definition creds (cfg : config) (env : environ) : cred :=
    match external_login (c_kind cfg) env with
    | Some (l, p) => CCreds true l p
    | None =>
        if startswith (e_auth env) basic then
          let payload := py_strip (skipn 5 (e_auth env)) in
          if negb (is_ascii payload) then CFail else
          match basic_decode (e_ctype env) payload with
          | None => CFail
          | Some text =>
              match split1 colon text with
              | (l, Some p) => CCreds false l p
              | (_, None) => CFail
              end
          end
        else CCreds false [] []
    end.

  (* the configured back-end's _login *)
  Definition backend_login (k : auth_kind) (login pw : pystr) : option pystr :=
    match k with
    | ANone | ARemoteUser | AXRemoteUser => Some login
    | ADenyAll => Some []
    | AOther => backend login pw
    end.

  Definition mapped (cfg : config) (login : pystr) : pystr :=
    map_login py_lower py_upper (c_lc cfg) (c_uc cfg) (c_sd cfg) login.

  (* steps 8-11 of Appendix A, after the login *)
  Definition after_login (cfg : config) (env : environ) (m bp path : pystr)
             (ext : bool) (login user0 : pystr) : result :=
    let user1 := if nonempty user0 && negb (is_safe_path_component user0) then [] else user0 in
    let '(user2, eff_home) :=
      if nonempty user1 then
        if home_exists user1 then (user1, [])
        else if rights_w user1
             then (if home_exists_w user1 then (user1, [EHomeRecheck user1 true])     (* created meanwhile: nothing to do *)
                   else if create_fails user1 then ([], [EHomeRecheck user1 false; EHome user1 false])
                        else (user1, [EHomeRecheck user1 false; EHome user1 true]))
             else (user1, [])
      else (user1, []) in
    let na := if negb (nonempty user2) && negb ext then FUnauthorized else FForbidden in
    let dispatch :=
      if negb (nonempty login) || nonempty user2 then
        {| r_effects := eff_home ++ [EDispatch m bp path user2];
           r_final := match handler m bp path user2 with
                      | HRaise => FError | HNotAllowed => na | HResp s => FHandler s end |}
      else {| r_effects := eff_home; r_final := na |} in
    if c_internal cfg then
      match e_clen env with
      | CLInvalid => {| r_effects := eff_home; r_final := FError |}
      | CLNum z =>
          if Z.ltb z 0 then {| r_effects := eff_home; r_final := FBadRequest |}
          else if negb (Z.eqb z 0) && Z.ltb 0 (c_max_len cfg) && Z.ltb (c_max_len cfg) z
          then {| r_effects := eff_home; r_final := FTooLarge |}
          else dispatch
      end
    else dispatch.

  Definition early (f : final) : result := {| r_effects := []; r_final := f |}.

  Definition with_effects (pre : list effect) (r : result) : result :=
    {| r_effects := pre ++ r_effects r; r_final := r_final r |}.

  Definition gate (cfg : config) (env : environ) : result :=
    let m := py_upper (e_method env) in
    match base_prefix cfg env with
    | inl f => early f
    | inr bp =>
        let path := request_path env bp in
        if negb (mem_str m method_names) then early FMethodNotAllowed else
        let rp := rstrip_char slash path in
        if endswith rp wk_caldav || endswith rp wk_carddav then early (FRedirect (bp ++ [slash])) else
        if endswith path wk || contains_sub wk_slash path then early FNotFound else
        match creds cfg env with
        | CFail => early FError
        | CCreds ext login pw =>
            if nonempty login then
              let ml := mapped cfg login in
              match backend_login (c_kind cfg) ml pw with
              | None => {| r_effects := [EBackend ml pw]; r_final := FError |}
              | Some user0 => with_effects [EBackend ml pw] (after_login cfg env m bp path ext login user0)
              end
            else after_login cfg env m bp path ext login []
        end
    end.

  (* the request got as far as looking at credentials *)
  Definition reaches_auth (cfg : config) (env : environ) : bool :=
    match base_prefix cfg env with
    | inl _ => false
    | inr bp =>
        let path := request_path env bp in
        let rp := rstrip_char slash path in
        mem_str (py_upper (e_method env)) method_names
        && negb (endswith rp wk_caldav || endswith rp wk_carddav)
        && negb (endswith path wk || contains_sub wk_slash path)
    end.
End Gate.

(* what a client sees *)
Definition status_of (f : final) : N :=
  match f with
  | FBadRequest => 400 | FPrefixError => 500 | FMethodNotAllowed => 405 | FRedirect _ => 301
  | FNotFound => 404 | FTooLarge => 413 | FError => 500 | FHandler s => s
  | FForbidden => 403 | FUnauthorized => 401
  end.
Definition www_authenticate (f : final) : bool := match f with FUnauthorized => true | _ => false end.

Definition is_dispatch (e : effect) : bool := match e with EDispatch _ _ _ _ => true | _ => false end.
Definition is_home (e : effect) : bool := match e with EHome _ _ => true | _ => false end.
Definition is_early (f : final) : bool :=
  match f with
  | FBadRequest | FPrefixError | FMethodNotAllowed | FRedirect _ | FNotFound | FTooLarge => true
  | _ => false
  end.

(* the content-length test of the internal server lets the request through *)
Definition clen_ok (cfg : config) (env : environ) : Prop :=
  c_internal cfg = false \/
  exists z, e_clen env = CLNum z /\ Z.ltb z 0 = false /\
            (negb (Z.eqb z 0) && Z.ltb 0 (c_max_len cfg) && Z.ltb (c_max_len cfg) z) = false.

Definition set_identity_headers (env : environ) (ru xru : pystr) : environ :=
  {| e_method := e_method env; e_path_info := e_path_info env; e_fwd_for := e_fwd_for env;
     e_fwd_host := e_fwd_host env; e_fwd_proto := e_fwd_proto env; e_fwd_server := e_fwd_server env;
     e_x_script := e_x_script env; e_script := e_script env; e_auth := e_auth env;
     e_ctype := e_ctype env; e_remote_user := ru; e_x_remote_user := xru; e_clen := e_clen env |}.
