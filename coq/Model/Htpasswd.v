(* C05: model of radicale/auth/htpasswd.py (Auth.__init__, _read_htpasswd, _login, the scheme
   dispatch _plain/_bcrypt/_md5apr1/_sha256/_sha512/_autodetect) -- the code WITH the fix
   notes/fixes/C05-htpasswd-verify-bcrypt-unbound.patch (`_verify_bcrypt` bound whenever
   autodetect is configured); the flag h_vb_bound keeps the pinned tree's behaviour expressible
   (bound only if a 60-character bcrypt entry was in the file at start-up) for the regression
   witness.  The hash functions of passlib / bcrypt are ONE external function `ext_verify`
   (Section variable).  Tied to the code by correspondence (checks/C05.py, suite "htpasswd").
   No proofs in this file. *)
From Coq Require Import List NArith Bool String.
Import ListNotations.
Require Import RV.Lib.PyStr RV.Model.C05Text.
Open Scope N_scope.

Inductive enc := EPlain | EMd5 | ESha256 | ESha512 | EBcrypt | EAuto.   (* htpasswd_encryption *)
Inductive scheme := SPlain | SMd5 | SSha256 | SSha512 | SBcrypt.
(* outcome of a library verify call: bool, ValueError (caught by _login), any other exception *)
Inductive vres := VTrue | VFalse | VValueError | VRaise.

(* the file as open(..., encoding="utf-8") sees it *)
(* FMissing: os.stat fails;  FUnreadable: open() raises OSError (EACCES, EIO, a directory ...) while os.stat works;
   FUndecodable: UnicodeDecodeError while reading *)
Inductive ftext := FMissing | FUndecodable | FUnreadable | FText (t : pystr).
Record hfile := { f_text : ftext; f_size : N; f_mtime : N }.

Definition table := list (pystr * pystr).     (* dict login -> digest, insertion order *)

Fixpoint lookup (t : table) (l : pystr) : option pystr :=
  match t with
  | [] => None
  | (k, v) :: r => if eqs k l then Some v else lookup r l
  end.

(* re.match(r"^\$2(a|b|x|y)?\$", digest) *)
Definition bcrypt_prefix (d : pystr) : bool :=
  startswith d (str "$2$") || startswith d (str "$2a$") || startswith d (str "$2b$")
  || startswith d (str "$2x$") || startswith d (str "$2y$").

Definition len (s : pystr) : N := N.of_nat (List.length s).

Definition bcrypt_shaped (d : pystr) : bool := bcrypt_prefix d && (len d =? 60).

(* one line of the file: Some (login, digest) for "login:digest" with both parts non-empty,
   on a line that is neither blank nor a comment *)
Inductive line_kind := LSkip | LNoColon | LEmptyPart | LEntry (login digest : pystr).

Definition classify_line (line : pystr) : line_kind :=
  let ls := py_lstrip line in
  if negb (nonempty ls) || startswith ls [hash_sign] then LSkip else
  match split1 colon line with
  | (_, None) => LNoColon
  | (l, Some d) => if negb (nonempty l) || negb (nonempty d) then LEmptyPart else LEntry l d
  end.

(* _read_htpasswd(init, _): None = RuntimeError (only when init); result = (dict, bcrypt_use) *)
Fixpoint read_lines (init has_bcrypt : bool) (lines : list pystr) (tab : table) (buse : N)
  : option (table * N) :=
  match lines with
  | [] => Some (tab, buse)
  | line :: rest =>
      match classify_line line with
      | LSkip => read_lines init has_bcrypt rest tab buse
      | LNoColon | LEmptyPart =>
          if init then None else read_lines init has_bcrypt rest tab buse
      | LEntry l d =>
          match lookup tab l with
          | Some _ => if init then None else read_lines init has_bcrypt rest tab buse
          | None =>
              if bcrypt_shaped d then
                if init then read_lines init has_bcrypt rest (tab ++ [(l, d)]) (buse + 1)
                else if has_bcrypt then read_lines init has_bcrypt rest (tab ++ [(l, d)]) buse
                     else read_lines init has_bcrypt rest tab buse
              else read_lines init has_bcrypt rest (tab ++ [(l, d)]) buse
          end
      end
  end.

Inductive read_res := RRaise | RError | ROk (t : table) (buse : N).
(* RRaise: an exception that is not turned into RuntimeError (os.stat on a missing file after the
   caught OSError, UnicodeDecodeError); RError: RuntimeError of the start-up read *)
Definition read_file (init has_bcrypt : bool) (f : hfile) : read_res :=
  match f_text f with
  | FMissing => if init then RError else RRaise
  | FUndecodable => RRaise
  | FUnreadable => if init then RError else ROk [] 0     (* the OSError is caught: empty dict, nobody authenticates *)
  | FText t =>
      match read_lines init has_bcrypt (file_lines t) [] 0 with
      | None => RError
      | Some (tab, buse) => ROk tab buse
      end
  end.

Record hconfig := { h_enc : enc; h_cache : bool; h_module : bool (* `import bcrypt` works *) }.

Record hstate := {
  h_tab : table; h_size : N; h_mtime : N;
  h_has_bcrypt : bool;      (* self._has_bcrypt *)
  h_vb_bound : bool         (* self._verify_bcrypt exists *)
}.

(* Auth.__init__ ; None = RuntimeError / exception: the server does not start.
   `fixed` = true: the patched code (bound whenever autodetect);  false: the pinned tree. *)
Definition init_with (fixed : bool) (cfg : hconfig) (f : hfile) : option hstate :=
  match read_file true false f with
  | ROk tab buse =>
      let mk hb vb := Some {| h_tab := tab; h_size := f_size f; h_mtime := f_mtime f;
                              h_has_bcrypt := hb; h_vb_bound := vb |} in
      match h_enc cfg with
      | EPlain | EMd5 | ESha256 | ESha512 => mk false false
      | EBcrypt => if h_module cfg then mk true false else None
      | EAuto =>
          if h_module cfg then mk true (if fixed then true else negb (buse =? 0))
          else if buse =? 0 then mk false (if fixed then true else false) else None
      end
  | _ => None
  end.
Definition init := init_with true.

Section Verify.
  Variable ext_verify : scheme -> pystr -> pystr -> vres.
  (* SMd5: apr_md5_crypt.verify(pw, hash); SSha256/SSha512: sha*_crypt.verify; SBcrypt:
     bcrypt.checkpw(pw.encode(), hash.encode()).  SPlain is never passed. *)

  Definition plain (h pw : pystr) : vres := if eqs h pw then VTrue else VFalse.

  Definition v_md5 (auto : bool) (h pw : pystr) : vres :=
    if auto && negb (len h =? 37) then plain h pw else ext_verify SMd5 (py_strip h) pw.
  Definition v_sha256 (auto : bool) (h pw : pystr) : vres :=
    if auto && negb (len h =? 63) then plain h pw else ext_verify SSha256 (py_strip h) pw.
  Definition v_sha512 (auto : bool) (h pw : pystr) : vres :=
    if auto && negb (len h =? 106) then plain h pw else ext_verify SSha512 (py_strip h) pw.
  Definition v_bcrypt (auto : bool) (h pw : pystr) : vres :=
    if auto && negb (len h =? 60) then plain h pw else ext_verify SBcrypt h pw.
  (* patched code, bcrypt module missing *)
  Definition v_bcrypt_unavailable (h pw : pystr) : vres :=
    if negb (len h =? 60) then plain h pw else VValueError.

  Definition v_autodetect (st : hstate) (h pw : pystr) : vres :=
    if startswith h (str "$apr1$") then v_md5 true h pw
    else if bcrypt_prefix h then
           (if negb (h_vb_bound st) then VRaise            (* AttributeError *)
            else if h_has_bcrypt st then v_bcrypt true h pw else v_bcrypt_unavailable h pw)
    else if startswith h (str "$5$") then v_sha256 true h pw
    else if startswith h (str "$6$") then v_sha512 true h pw
    else plain h pw.

  Definition run_verify (e : enc) (st : hstate) (h pw : pystr) : vres :=
    match e with
    | EPlain => plain h pw
    | EMd5 => v_md5 false h pw
    | ESha256 => v_sha256 false h pw
    | ESha512 => v_sha512 false h pw
    | EBcrypt => v_bcrypt false h pw
    | EAuto => v_autodetect st h pw
    end.

  Inductive lres := LUser (u : pystr) | LFail | LRaise.

  Definition check_entry (e : enc) (st : hstate) (tab : table) (login pw : pystr) : lres :=
    match lookup tab login with
    | None => LFail
    | Some d =>
        match run_verify e st d pw with
        | VTrue => LUser login
        | VFalse | VValueError => LFail
        | VRaise => LRaise
        end
    end.

  (* Auth._login *)
  Definition hlogin (cfg : hconfig) (st : hstate) (f : hfile) (login pw : pystr) : hstate * lres :=
    if h_cache cfg then
      match f_text f with
      | FMissing => (st, LRaise)                       (* os.stat raises *)
      | _ =>
          if negb (f_size f =? h_size st) || negb (f_mtime f =? h_mtime st) then
            match read_file false (h_has_bcrypt st) f with
            | ROk tab _ =>
                let st' := {| h_tab := tab; h_size := f_size f; h_mtime := f_mtime f;
                              h_has_bcrypt := h_has_bcrypt st; h_vb_bound := h_vb_bound st |} in
                (st', check_entry (h_enc cfg) st' tab login pw)
            | _ => (st, LRaise)
            end
          else (st, check_entry (h_enc cfg) st (h_tab st) login pw)
      end
    else
      match read_file false (h_has_bcrypt st) f with
      | ROk tab _ => (st, check_entry (h_enc cfg) st tab login pw)
      | _ => (st, LRaise)
      end.

  (* a whole history: the file as it is at each attempt *)
  Fixpoint run (cfg : hconfig) (st : hstate) (steps : list (hfile * pystr * pystr)) : list lres :=
    match steps with
    | [] => []
    | (f, l, pw) :: rest => let '(st', r) := hlogin cfg st f l pw in r :: run cfg st' rest
    end.

  (* ---- specification vocabulary (used by the theorems) ---- *)
  (* the scheme a digest is checked under *)
  Definition detect (e : enc) (h : pystr) : scheme :=
    match e with
    | EPlain => SPlain | EMd5 => SMd5 | ESha256 => SSha256 | ESha512 => SSha512 | EBcrypt => SBcrypt
    | EAuto =>
        if startswith h (str "$apr1$") then (if len h =? 37 then SMd5 else SPlain)
        else if bcrypt_prefix h then (if len h =? 60 then SBcrypt else SPlain)
        else if startswith h (str "$5$") then (if len h =? 63 then SSha256 else SPlain)
        else if startswith h (str "$6$") then (if len h =? 106 then SSha512 else SPlain)
        else SPlain
    end.

  Definition verify_as (s : scheme) (h pw : pystr) : vres :=
    match s with
    | SPlain => plain h pw
    | SBcrypt => ext_verify SBcrypt h pw
    | _ => ext_verify s (py_strip h) pw
    end.

  (* the entry that counts for a login in a re-read: the first well-formed "login:digest" line
     that is not dropped (bcrypt-shaped digests are dropped when the module is not loaded) *)
  Fixpoint first_entry (has_bcrypt : bool) (lines : list pystr) (login : pystr) : option pystr :=
    match lines with
    | [] => None
    | line :: rest =>
        match classify_line line with
        | LEntry l d =>
            if eqs l login && (has_bcrypt || negb (bcrypt_shaped d)) then Some d
            else first_entry has_bcrypt rest login
        | _ => first_entry has_bcrypt rest login
        end
    end.
End Verify.

(* ---- specification vocabulary that does not depend on the hash library ---- *)
(* the digest is usable by the dispatch: under autodetect a "$2?$" digest needs the bound
   _verify_bcrypt, and a 60-character one the loaded module *)
Definition dispatch_ok (e : enc) (st : hstate) (h : pystr) : Prop :=
  e = EAuto -> bcrypt_prefix h = true ->
  h_vb_bound st = true /\ (h_has_bcrypt st = true \/ bcrypt_shaped h = false).

(* the state's two flags as the (patched) start-up leaves them *)
Definition flags_ok (cfg : hconfig) (st : hstate) : Prop :=
  h_enc cfg = EAuto -> h_vb_bound st = true.

Definition present (t : pystr) (sz mt : N) : hfile := {| f_text := FText t; f_size := sz; f_mtime := mt |}.

(* the cached dict is what a re-read of `f` would produce *)
Definition coherent (st : hstate) (f : hfile) : Prop :=
  exists b, read_file false (h_has_bcrypt st) f = ROk (h_tab st) b.

Definition stamp_differs (st : hstate) (f : hfile) : bool :=
  negb (f_size f =? h_size st) || negb (f_mtime f =? h_mtime st).

