(* C14 -- check_and_sanitize_items, whole-collection upload: an object without UID (no UID property, or an empty first one)
   gets a generated UID: `if hasattr(item, "uid"): item.uid.value = uid  else: item.add("UID").value = uid`
   (same statement in the VCALENDAR and the VADDRESSBOOK branch).  No proofs in this file. *)
From Coq Require Import List NArith Bool String.
Import ListNotations.
Require Import RV.Lib.PyStr RV.Model.ContentLine RV.Model.Vobj.
Open Scope N_scope.

Definition s_UID := str "UID".
(* get_uid: value of the FIRST UID property, "" when there is none *)
Definition first_uid (ch : list node) : pystr := match lines_named s_UID ch with l :: _ => cl_value l | [] => [] end.

Fixpoint set_first_uid (v : pystr) (ch : list node) : list node :=
  match ch with
  | [] => []
  | L l :: r => if eqs (cl_name l) s_UID then L (mkCl (cl_group l) (cl_name l) (cl_params l) v) :: r else L l :: set_first_uid v r
  | x :: r => x :: set_first_uid v r
  end.

Definition assign_uid (fresh : pystr) (ch : list node) : list node :=
  if nonempty (first_uid ch) then ch
  else match lines_named s_UID ch with
       | [] => ch ++ [L (mkCl None s_UID [] fresh)]
       | _ :: _ => set_first_uid fresh ch
       end.

(* the shape of a seeded change: always add a property *)
Definition assign_uid_always_add (fresh : pystr) (ch : list node) : list node :=
  if nonempty (first_uid ch) then ch else ch ++ [L (mkCl None s_UID [] fresh)].

Definition uid_values (ch : list node) : list pystr := map cl_value (lines_named s_UID ch).
