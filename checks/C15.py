"""C15 -- The store stays well-formed and failed requests leave it untouched.

1. proof: Props/C15.v (invariant of the handler model over all histories, all policies; error => unchanged)
2. correspondence: real Application vs Model/Handlers.v on seeded histories with the invalid stream turned up
   (responses after every request + final store read back from the folder)
3. monitors on the implementation after EVERY request: no duplicate UID in a collection, no child collection
   inside a calendar/address book, every stored object valid for the collection type, error status => folder
   dump unchanged (except creation of the user's empty home), storage.verify() at the end of every history.
"""
from vlib import x_handlers as xh
from vlib import x_hcheck


def store_wellformed(dump):
    """dump: sorted list of (path, tag, props, items[(name, (uid, comp, cid))])."""
    bypath = {p: (tag, items) for p, tag, props, items in dump}
    for p, (tag, items) in bypath.items():
        uids = [o[0] for _, o in items]
        if len(set(uids)) != len(uids):
            return "collection %r holds two objects with one UID: %r" % (p, items)
        for n, o in items:
            if o[0] < 0:
                return "item %r in %r does not hold exactly one object" % (n, p)
            if tag == "TCal" and o[1] == "CCard" or tag == "TAdr" and o[1] != "CCard" or tag == "TNone":
                return "object %r in %r is not valid for collection type %s" % (o, p, tag)
        if p and bypath.get(p[:-1], ("TNone", []))[0] != "TNone":
            return "collection %r lies inside the %s collection %r" % (p, bypath[p[:-1]][0], p[:-1])
        if p and p[:-1] not in bypath:
            return "collection %r has no parent collection" % (p,)
    return None


def run(ctx):
    ctx.rule = ("seeded request histories (5-30 requests, 3 users incl. anonymous, random/owner/open rights tables, "
                "permit_delete/overwrite flags) over 4 collections x 5 item names x 4 UIDs x 3 contents with ~35% invalid "
                "requests (wrong component type, duplicate UIDs, several objects in one item, malformed XML/iCalendar, "
                "PROPPATCH of resourcetype, MOVE onto conflicting UIDs); non-trivial = at least one successful write and a "
                "non-empty final store; distinct by (history, world)")
    ctx.assumptions += ["request bodies outside the abstract grammar of Model/Handlers.v (VSUBSCRIBED, VLIST, several components with "
                        "one UID in one object, generated UIDs) are not generated", "vobject parsing of the generated bodies"]
    ctx.prove(extra_targets=x_hcheck.EXTRA)
    state = {}

    def monitor(world, hist, outs, runner):
        prev = [((), "TNone", [], [])]
        for k, ((ui, r), o, dump) in enumerate(zip(hist, outs, runner.dumps)):
            err = store_wellformed(dump)
            if err and "violation" not in state:
                state["violation"] = True
                ctx.violation("store not well-formed after request %d: %s" % (k, err),
                              dict(world=x_hcheck.world_json(world), history=hist[:k + 1], dump=repr(dump)))
            if o[0] not in ("S200", "S201", "S204", "S207") and dump != prev:
                # allowed: creation of the requesting user's empty home collection
                user = xh.USERS[ui]
                home = (xh.USER_NAME[user],) if user else None
                allowed = sorted(prev + [(home, "TNone", [], [])]) if home and all(p != home for p, *_ in prev) else None
                if dump != allowed and "violation" not in state:
                    state["violation"] = True
                    ctx.violation("request %d answered %s but the store changed" % (k, o[0]),
                                  dict(world=x_hcheck.world_json(world), history=hist[:k + 1], before=repr(prev), after=repr(dump)))
            prev = dump
        if runner.verify_ok is not True and "violation" not in state:
            state["violation"] = True
            ctx.violation("storage.verify() = %r after the history" % (runner.verify_ok,),
                          dict(world=x_hcheck.world_json(world), history=hist))
        ctx.count("verify-runs")

    # the storage hook is part of the configuration: a hook whose template names an unknown placeholder, and one that
    # exits with an error, must change neither an answer nor the store (every layout is compared with the first)
    x_hcheck.run_histories(ctx, ctx.n(220, 6000), monitor=monitor, tag="c15",
                           layouts=({}, {"hook": "echo %(collection)s changed by %(user)s"}, {"hook": "exit 3"}))
    # bodies outside the abstract grammar of the model: monitored directly on the stored files
    from vlib import x_scenarios
    x_scenarios.whole_upload_fidelity(ctx, ctx.n(60, 1500))
    x_scenarios.item_put_fidelity(ctx, ctx.n(120, 3000))
    x_scenarios.move_matrix(ctx)
    x_scenarios.predefined_collections(ctx)
    x_scenarios.truncated_uploads(ctx)


def replay(ctx, path):
    import json
    print(open(path).read()[:6000])
    return 0
