"""C02 -- Modifying requests are all-or-nothing under crashes and I/O errors.

1. proof: Props/C02.v (every storage operation, every weak-invariant state, every fault oracle: the visible store
   left behind is before or after, the rest untouched, normal end => after; residue invisible; the three-rename
   fall-back refuted)
2. correspondence (tie K): the un-faulted request under strace == the model's step list (as C12), then for the
   sampled / all boundaries k the request is re-run in a fresh copy of the pre-state with
   `strace -e inject=<call>:signal=KILL:when=<n>` (crash before the k-th mutating call) or `:error=E:when=<n>`
   (ENOSPC / EACCES / EIO); the class (before / after) of the surviving tree must equal the model's prediction
   for the same oracle
3. monitor on every surviving tree: visible store exactly before or exactly after, success answer => after,
   storage.verify() passes, a fresh server answers PROPFIND and PUT, nothing else changed
4. read-side faults (not modelled, monitor only): every call site (stat / fstat / open for reading / read / getdents
   on a path of the storage folder) of every request kind gets an errno of {EACCES, EIO, EMFILE, ENOSPC} once; the
   catalogue also holds requests the fault-free server REFUSES (Overwrite: F, UID conflicts, If-Match /
   If-None-Match, existing collection, unencodable text).  Rule: a request that met a fault is answered with an
   error, or has exactly the fault-free effect (2xx => the tree is the fault-free after-state)
5. faults on write() of large items (handed to the kernel by write(), not by flush()) and real short writes
   (RLIMIT_FSIZE: the kernel writes a prefix, then EFBIG)."""
import json
import os

from vlib import core
from vlib import x_c12 as X
from vlib import x_c12b as B
from vlib import x_c12c as C

ERRNOS = ["ENOSPC", "EACCES", "EIO"]


def data_step(st):
    k = st[0]
    if k in ("Rename", "Exchange"):
        return X.is_data(st[1]) or X.is_data(st[2])
    if k in ("Unlink", "Rmdir", "Mkdir", "Create", "Write", "Rmtree"):
        return X.is_data(st[1])
    return False


def select_points(ctx, un, pts):
    if not ctx.quick:
        return list(range(len(pts)))
    n = len(pts)
    if n == 0:
        return []
    ks = {0, n - 1}
    commit = [i for i, p in enumerate(pts) if data_step(un["steps"][p[0]][0])]
    for c in commit[:2]:
        ks |= {c - 1, c, c + 1}
    # write() of the data itself (items, props): the first one always
    ks |= set([i for i, p in enumerate(pts) if un["steps"][p[0]][0][0] == "Write" and un["steps"][p[0]][0][2] != 0][:1])
    while len(ks) < min(n, 9):
        ks.add(ctx.rng.randrange(n))
    return sorted(k for k in ks if 0 <= k < n)


def allowed_states(un, op):
    """home creation with predefined collections = several atomic units: home, then each collection"""
    if not op.get("predefined"):
        return []
    home = op["coll"]
    out = []
    names = list(B.PREDEF)
    for mask in range(1 << len(names)):
        st = dict(un["pre_abs"])
        st[home] = None
        for i, n in enumerate(names):
            if mask >> i & 1:
                for k, v in un["post_abs"].items():
                    if k == home + "/" + n or k.startswith(home + "/" + n + "/"):
                        st[k] = v
        out.append(st)
    return out


def run(ctx):
    ctx.rule = ("case = (request kind, store shape, cache layout, boundary k, crash | errno): the real server is killed before "
                "/ gets an error from the k-th mutating system call of the request; distinct by that tuple; non-trivial = the "
                "request changes the visible store (before != after)")
    ctx.assumptions += [
        "kernel: a system call is atomic with respect to SIGKILL; rename / renameat2(RENAME_EXCHANGE) are atomic; flock dies with the process",
        "Linux with renameat2 (the three-rename fall-back of rename_exchange is proved NOT atomic: C02_exchange_fallback_refuted)",
        "faults on mutating calls (mkdir, open(O_CREAT), write, fsync, rename*, unlink*, rmdir) are modelled and compared with the model's prediction; "
        "faults on read-side calls (stat, open for reading, read, getdents) are injected into the real server and judged by the monitor only "
        "(the model's Read / Ls do not fail)",
        "the handlers call the storage operations with existing collections and safe hrefs; for create_collection the parent exists",
        "quick tier: sampled boundaries (first, last, around the commit step, random); thorough tier: every boundary, every system call of a step",
    ]
    ctx.trusted += ["strace projection and injection bookkeeping in vlib/x_c12*.py (k-th model step <-> n-th invocation of a system call name, verified per run by the INJECTED / SIGKILL marks of strace)"]
    ctx.prove()
    base = C.make_base()
    try:
        _run(ctx, base)
    finally:
        C.cleanup(base)


def _run(ctx, base):
    ops = [o for o in B.op_requests() if o not in B.SKIP]
    guards = list(B.guard_requests())
    nofsync = list(B.nofsync_requests())
    if ctx.quick:
        cases = [("warm", (False, False), o) for o in ops + guards + nofsync]
        cases += [("residue", (False, False), o) for o in ("put_over_stale", "putcoll_replace", "delete_coll", "move_over_same", "delete_item")]
        cases += [("cold", (True, True), o) for o in ("put_new", "putcoll_new", "move_over_cross", "home_predef", "mkcalendar",
                                                      "g_put_otheruid", "g_move_noover_same")]
    else:
        cases = [(sh, lay, o) for sh in C.SHAPES for lay in B.LAYOUTS for o in ops]
        cases += [("warm", (False, False), o) for o in guards] + [("cold", (True, True), o) for o in guards]
        cases += [(sh, (False, False), o) for sh in ("warm", "residue") for o in nofsync]
    ctx.log("baseline: %d traced requests" % len(cases))
    with C.pool() as p:
        recs = C.baseline(ctx, base, cases, p)
        bad_corr = [((o, sh, tuple(lay)), rec["problems"]) for (sh, lay, o), rec in zip(cases, recs)
                    if rec["problems"] and not rec["un"].get("guard")]
        for (sh, lay, o), rec in zip(cases, recs):
            if rec["problems"] and rec["un"].get("guard"):
                un = rec["un"]
                d = sorted(k for k in set(un["pre_abs"]) | set(un["post_abs"]) if un["pre_abs"].get(k, 0) != un["post_abs"].get(k, 0))
                ctx.violation("C02: %s on store '%s' (layout %s), no fault: the request is refused with %s but the visible store changed at %s" % (
                    o, sh, tuple(lay), un["status"], d[:4]),
                    dict(request=B.http_of(B.all_ops()[o]), shape=sh, layout=list(lay), inject=None, status=un["status"],
                         problems=rec["problems"], note="replay: ./check C02 --replay <this file>"),
                    signature="C02:%s:fault-free" % o)
        ctx.obligation("correspondence:trace-vs-model", not bad_corr,
                       "" if not bad_corr else "; ".join("%s: %s" % (k, pr[0]) for k, pr in bad_corr[:6]))
        jobs, mjobs, meta = [], [], []
        seen_sites, rd_errors = set(), []
        def unmodelled_jobs(sh, lay, o, un, allowed):
            # read-side calls: not modelled; the monitor, the error-or-exact-effect rule and the same-process follow-ups
            if ctx.quick or (sh, tuple(lay)) == ("warm", (False, False)):
                if un.get("rsites_error"):
                    rd_errors.append("%s: %s" % (o, un["rsites_error"]))
                for site, err, occ in B.read_points(un, ctx.quick, seen_sites, B.all_ops()[o]):
                    tag = "%s-%d%d-%s-r%d-%s" % (sh, lay[0], lay[1], o, len(jobs), err)
                    frag = site["rel"].split("/" + X.TMP_PREFIX)[0].split(X.TMP_PREFIX)[0]
                    jobs.append(dict(base=base, shape=sh, lay=lay, opname=o, tag=tag, inject=("fault", err, site["name"], site["ordinal"]),
                                     pre_abs=un["pre_abs"], post_abs=un["post_abs"], list_before=un["list_before"],
                                     list_after=un["list_after"], allowed=allowed, names=un["names"], contents=un["contents"],
                                     rd=True, expect_frag=frag, base_status=un["status"]))
                    mjobs.append(None)
                    meta.append(dict(case=(o, sh, tuple(lay)), k=-3, label="%s of %s (call %s of the request on that path)" % (
                        site["variant"], site["key"][1], occ), mode="fault", err=err, un=un,
                                     variant="%s-%s" % (site["variant"], "props" if site["rel"].endswith(".Radicale.props") else
                                                        B.site_class(site["key"]).replace("file", "item"))))
            # real short writes of large items
            if o in ("put_big_new", "put_big_over"):
                for limit in ([4096] if ctx.quick else [1, 4096, 16384]):
                    tag = "%s-%d%d-%s-short%d" % (sh, lay[0], lay[1], o, limit)
                    jobs.append(dict(base=base, shape=sh, lay=lay, opname=o, tag=tag, inject=("short", None, "write", limit),
                                     pre_abs=un["pre_abs"], post_abs=un["post_abs"], list_before=un["list_before"],
                                     list_after=un["list_after"], allowed=allowed, names=un["names"], contents=un["contents"],
                                     base_status=un["status"]))
                    mjobs.append(None)
                    meta.append(dict(case=(o, sh, tuple(lay)), k=-5, label="write() beyond %d bytes (short write, then EFBIG)" % limit,
                                     mode="short", err="EFBIG", un=un))

        for (sh, lay, o), rec in zip(cases, recs):
            un = rec["un"]
            if un.get("error"):
                continue
            if un.get("monitor_only"):
                # no model request (fsync switched off): every boundary, killed and ENOSPC / EIO, judged by the monitor alone
                al = allowed_states(un, B.all_ops()[o])
                for n_, (k, name, ordinal, frag, label) in enumerate(B.injection_points(un, every_syscall=True)):
                    stk = un["steps"][k][0][0]
                    for mode, err in [("crash", None), ("fault", "ENOSPC" if n_ % 2 else "EIO")]:
                        if ctx.quick and mode == "fault" and stk not in ("Write", "Rename", "Exchange"):
                            continue
                        tag = "%s-%d%d-%s-m%d-%s%s" % (sh, lay[0], lay[1], o, len(jobs), mode, err or "")
                        jobs.append(dict(base=base, shape=sh, lay=lay, opname=o, tag=tag, inject=(mode, err, name, ordinal),
                                         pre_abs=un["pre_abs"], post_abs=un["post_abs"], list_before=un["list_before"],
                                         list_after=un["list_after"], allowed=al, names=un["names"], contents=un["contents"],
                                         base_status=un["status"]))
                        mjobs.append(None)
                        meta.append(dict(case=(o, sh, tuple(lay)), k=-2, label=label, mode=mode, err=err, un=un))
                continue
            if rec["problems"]:
                # the model no longer matches the server: search for a concrete failing boundary with the monitor alone
                for (k, name, ordinal, frag, label) in B.injection_points(un, every_syscall=True):
                    for mode, err in [("crash", None), ("fault", "ENOSPC")]:
                        tag = "%s-%d%d-%s-s%d-%s%s" % (sh, lay[0], lay[1], o, len(jobs), mode, err or "")
                        jobs.append(dict(base=base, shape=sh, lay=lay, opname=o, tag=tag, inject=(mode, err, name, ordinal),
                                         pre_abs=un["pre_abs"], post_abs=un["post_abs"], list_before=un["list_before"],
                                         list_after=un["list_after"], allowed=allowed_states(un, B.all_ops()[o]),
                                         names=un["names"], contents=un["contents"]))
                        mjobs.append(None)
                        meta.append(dict(case=(o, sh, tuple(lay)), k=-2, label=label, mode=mode, err=err, un=un))
                unmodelled_jobs(sh, lay, o, un, allowed_states(un, B.all_ops()[o]))
                continue
            ctx.traces_validated += 1
            allowed = allowed_states(un, B.all_ops()[o])
            pts = B.injection_points(un, every_syscall=not ctx.quick)
            sel = select_points(ctx, un, pts)
            for rank, i in enumerate(sel):
                k, name, ordinal, frag, label = pts[i]
                modes = [("crash", None)]
                if ctx.quick:
                    modes.append(("fault", ERRNOS[(i + len(o)) % 3]))
                    # the steps that change the visible store: a refusal (EACCES) too -- PermissionError has handlers of its own
                    if data_step(un["steps"][k][0]) and ("fault", "EACCES") not in modes:
                        modes.append(("fault", "EACCES"))
                else:
                    modes += [("fault", e) for e in ERRNOS]
                if un["steps"][k][0][0] in ("Rename", "Exchange") and data_step(un["steps"][k][0]):
                    modes.append(("fault", "EXDEV"))      # collections on different file systems
                for mode, err in modes:
                    tag = "%s-%d%d-%s-%d-%s%s" % (sh, lay[0], lay[1], o, i, mode, err or "")
                    jobs.append(dict(base=base, shape=sh, lay=lay, opname=o, tag=tag, inject=(mode, err, name, ordinal),
                                     pre_abs=un["pre_abs"], post_abs=un["post_abs"], list_before=un["list_before"],
                                     list_after=un["list_after"], allowed=allowed, names=un["names"], contents=un["contents"]))
                    stkind = un["steps"][k][0][0]
                    # TemporaryDirectory clean-up retries after a PermissionError: the real request goes on as if unfaulted
                    oracle = None if (mode == "fault" and err == "EACCES" and stkind == "Rmtree") else (
                        ("crash", k) if mode == "crash" else ("fail", k, "EIO" if err == "EXDEV" else err))
                    if un.get("guard"):
                        jobs[-1]["base_status"] = un["status"]
                        mjobs.append(None)
                        meta.append(dict(case=(o, sh, tuple(lay)), k=-4, label=label, mode=mode, err=err, un=un))
                        continue
                    mjobs.append(dict(lay=lay, entries=un["pre_entries"], oracle=oracle, request=un["request"]))
                    meta.append(dict(case=(o, sh, tuple(lay)), k=k, label=label, mode=mode, err=err, un=un))
            unmodelled_jobs(sh, lay, o, un, allowed)
            # lock-file opens precede every change: the store must stay as before
            if not ctx.quick or o in ("put_new", "delete_coll"):
                for (name, ordinal) in un["locks"][:1]:
                    for mode, err in [("crash", None), ("fault", "EACCES")]:
                        tag = "%s-%d%d-%s-lock-%s" % (sh, lay[0], lay[1], o, mode)
                        jobs.append(dict(base=base, shape=sh, lay=lay, opname=o, tag=tag, inject=(mode, err, name, ordinal),
                                         pre_abs=un["pre_abs"], post_abs=un["post_abs"], list_before=un["list_before"],
                                         list_after=un["list_after"], allowed=allowed, names=un["names"], contents=un["contents"]))
                        mjobs.append(None)
                        meta.append(dict(case=(o, sh, tuple(lay)), k=-1, label="open of the storage lock file", mode=mode, err=err, un=un))
        ctx.log("injection: %d runs" % len(jobs))
        results = p.map(B.inject_run, jobs, chunksize=4)
    real_m = [m for m in mjobs if m is not None]
    ctx.log("model: %d predictions" % len(real_m))
    mres = iter(X.model_runs(ctx, real_m, shard=60)) if real_m else iter([])
    misses, mism, viol = 0, [], 0
    for job, mj, mt, res in zip(jobs, mjobs, meta, results):
        un = mt["un"]
        nontrivial = un["pre_abs"] != un["post_abs"]
        ctx.case((mt["case"], mt["k"], mt["label"], mt["mode"], mt["err"]), nontrivial=nontrivial,
                 sample=dict(request=mt["case"][0], shape=mt["case"][1], boundary=mt["label"], mode=mt["mode"], errno=mt["err"],
                             outcome=res["cls"], status=res["status"]))
        ctx.count("mode:%s" % (mt["err"] or "crash"))
        ctx.count("outcome:%s" % res["cls"])
        ctx.count("request:%s" % mt["case"][0])
        model = next(mres) if mj is not None else None
        if not res["hit"]:
            misses += 1
            continue
        if res["problems"]:
            viol += 1
            ctx.violation("C02: %s on store '%s' (layout %s), %s %s [%s]: %s" % (
                mt["case"][0], mt["case"][1], mt["case"][2],
                "process killed" if mt["mode"] == "crash" else ("file size limit reached" if mt["mode"] == "short" else
                                                                 "system call fails with %s" % mt["err"]),
                "at" if mt["k"] in (-3, -5) else "at the boundary before", mt["label"],
                "; ".join(res["problems"])),
                dict(request=B.http_of(B.all_ops()[mt["case"][0]]), shape=mt["case"][1], layout=list(mt["case"][2]),
                     inject=list(job["inject"]), boundary=mt["label"], status=res["status"], problems=res["problems"],
                     rd=bool(job.get("rd")), fault_free_status=un["status"],
                     note="replay: ./check C02 --replay <this file>"),
                signature=("C02:%s:read-%s" % (mt["case"][0], mt["variant"])) if mt["k"] == -3 else
                          "C02:%s:%s" % (mt["case"][0], "crash" if mt["mode"] == "crash" else mt["err"]))
            continue
        if mj is None:
            if mt["k"] == -1 and res["cls"] not in ("before", "same"):
                mism.append("%s lock-open %s: store is %s" % (mt["case"], mt["mode"], res["cls"]))
            continue
        if model[0] == "error":
            mism.append("model does not evaluate: %s" % model[1][-300:])
            continue
        mev, code, ment = model
        ma = X.abs_of_entries(ment)
        ra = dict(res["abs_model"])
        if ma != ra:
            d = sorted(set(ma.items()) ^ set(ra.items()))[:3]
            mism.append("%s, %s before [%s]: the surviving visible store (%s) differs from the model's prediction at %s" % (
                mt["case"], mt["err"] or "kill", mt["label"], res["cls"], [(X.fmt_step(("x", q))[2:], v) for q, v in d]))
        elif res["status"] in B.SUCCESS and code != 0 and mt["err"] != "EACCES":
            # a success answer where the model raises: only tolerated for the PermissionError suppressions / retries
            mism.append("%s, %s before [%s]: answered %s but the model ends with outcome %d" % (
                mt["case"], mt["err"] or "kill", mt["label"], res["status"], code))
    ctx.extra["injection_runs"] = len(jobs)
    ctx.extra["injection_missed"] = misses
    ctx.obligation("harness:injections-hit", misses <= max(2, len(jobs) // 50), "%d of %d injections did not hit the intended call" % (misses, len(jobs)))
    ctx.obligation("harness:read-sites", not rd_errors, "; ".join(rd_errors[:4]))
    ctx.obligation("correspondence:injection-vs-model", not mism, "; ".join(mism[:5]))
    if mism:
        ctx.extra["injection_disagreements"] = mism[:20]


def replay(ctx, path):
    data = json.load(open(path))
    r = data.get("replay", {})
    print(json.dumps({k: v for k, v in r.items() if k != "request"}, indent=1)[:2000])
    if "request" not in r:
        return 0
    base = C.make_base()
    try:
        op = [k for k, v in B.all_ops().items() if B.http_of(v) == r["request"]]
        if not op:
            return 0
        un = B.unfaulted(base, r["shape"], tuple(r["layout"]), op[0])
        inject = list(r["inject"]) if r.get("inject") else None
        # the ordinal of a call counts from process start and moves with the harness / the code under test:
        # locate the call again by what the replay names (call site and occurrence, or model step)
        import re
        m = re.match(r"(\w+) of (\S+) \(call (\d+)/\d+ of the request", r.get("boundary", ""))
        if inject and m:
            occ = [x for x in un["rsites"] if x["key"] == (m.group(1), m.group(2))]
            i = int(m.group(3)) - 1
            if i < len(occ):
                inject[2], inject[3] = occ[i]["name"], occ[i]["ordinal"]
        elif inject and inject[0] != "short":
            hit = [p for p in B.injection_points(un, every_syscall=True) if p[4] == r.get("boundary")]
            if hit:
                inject[2], inject[3] = hit[0][1], hit[0][2]
        r = dict(r, inject=inject)
        if not r.get("inject"):
            changed = un["pre_abs"] != un["post_abs"]
            print("fault-free run: status", un["status"], "visible store", "CHANGED" if changed else "unchanged")
            return 1 if (changed and un["status"] not in B.SUCCESS) else 0
        res = B.inject_run(dict(base=base, shape=r["shape"], lay=tuple(r["layout"]), opname=op[0], tag="replay",
                                inject=tuple(r["inject"]), pre_abs=un["pre_abs"], post_abs=un["post_abs"],
                                list_before=un["list_before"], list_after=un["list_after"], names=un["names"],
                                contents=un["contents"], allowed=allowed_states(un, B.all_ops()[op[0]]),
                                rd=r.get("rd", False), base_status=un["status"]))
        print("outcome:", res["cls"], "status:", res["status"], "hit:", res["hit"], "problems:", res["problems"])
        return 1 if res["problems"] else 0
    finally:
        C.cleanup(base)
