"""C12 -- Acknowledged writes are durable: data is synced before it becomes visible.

1. proof: Props/C12.v (every storage operation / request, every state, every fault oracle: a normal end has a
   durable trace) over Model/Fs.v + Model/StorageOps.v
2. correspondence (tie K, trace level): every modifying request kind x store shape x cache layout is performed
   by the real server under `strace -f -y`; the mutating system calls are projected to model steps and compared
   with the step list the Coq model emits for the same request and pre-state (also the final tree)
3. monitor: the `durable` predicate re-implemented in Python runs over every REAL trace; its verdicts are
   cross-checked against Coq's `durableb` on the real traces and on mutated traces (an fsync dropped, an
   fsync moved behind the rename), so that the Python twin and the Coq definition are the same predicate
4. whole-collection uploads of n items for a range of n
5. several directory levels created at once: the storage API called with a missing parent chain (modelled: the same
   program as MKCALENDAR), a predefined collection with a nested name at the first login (monitor only), and the first
   start on a nested storage location that does not exist -- the traced phase begins BEFORE the Application is
   constructed and the projection is rebased on the existing ancestor, so that the entries of the ancestors, of the
   storage folder and of collection-root fall under the durability rules (monitor only, cross-checked with durableb)
6. EXDEV injected into the rename of item moves: whatever path the server takes then, a success answer needs a durable trace.
7. histories: many requests served by ONE server process (one Storage object) in which the path of a collection is rebound to
   another directory (whole-collection PUT = exchange, DELETE + MKCALENDAR / whole-collection PUT, rmdir + MKCALENDAR, the same
   for the parent) between item-level changes; every acknowledged modifying request of the history goes through the monitor.
   An fsync is attributed to the directory the descriptor REACHES when the call is made (Props/C12.v C12_dir_fsync_by_identity:
   fsyncs of other directories discharge nothing), not to the path it was opened with."""
import os

from vlib import core
from vlib import x_c12 as X
from vlib import x_c12b as B
from vlib import x_c12c as C


def mutants(steps, rng, limit):
    """Traces obtained from a real one by the classic mistakes; returns list of (what, trace)."""
    out = []
    idx = [i for i, st in enumerate(steps) if st[0] in ("FsyncF", "FsyncD")]
    rng.shuffle(idx)
    for i in idx[:limit]:
        out.append(("drop %s" % X.fmt_step(steps[i]), steps[:i] + steps[i + 1:]))
    ren = [i for i, st in enumerate(steps) if st[0] in ("Rename", "Exchange")]
    for i in ren[:limit]:
        # move the preceding file fsync behind the rename
        js = [j for j in range(i) if steps[j][0] == "FsyncF"]
        if js:
            j = js[-1]
            t = steps[:j] + steps[j + 1:i + 1] + [steps[j]] + steps[i + 1:]
            out.append(("fsync of %s after the rename" % X.fmt_step(steps[j]), t))
    return out


def run(ctx):
    ctx.rule = ("case = (request kind, store shape, cache layout) performed by the real server under strace; distinct by "
                "that triple and the number of items; non-trivial = the request changes the visible store with at least one "
                "Rename/Exchange/Unlink/Rmdir/Mkdir of a visible path. mutants: one real trace with one fsync dropped or moved")
    ctx.assumptions += [
        "what fsync guarantees on power loss is the kernel's and the device's business",
        "[storage] _filesystem_fsync = True (default); Linux with renameat2(RENAME_EXCHANGE)",
        "the handlers call the storage operations with existing collections and safe hrefs (unit_wf / dirs_exist)",
        "C12_home: claimed for runs in which no system call failed (a failing predefined collection is logged and ignored by the server)",
        "mkdtemp picks an unused name; os.scandir order is not modelled (consecutive unlinks of one directory are compared as a set)",
    ]
    ctx.trusted += ["strace projection of system calls to model steps (vlib/x_c12.py); the un-faulted real run supplies the "
                    "content ids, listing orders and item order the model request is built from"]
    ctx.prove()

    base = C.make_base()
    try:
        _run(ctx, base)
    finally:
        C.cleanup(base)


def putcoll_n_cases(ctx):
    # beyond any plausible batch size of file descriptors / fsyncs (101: one more than a batch of 100)
    ns = [0, 1, 2, 5, 101] if ctx.quick else [0, 1, 2, 3, 5, 8, 13, 21, 34, 50, 101, 205]
    return ns


def _run(ctx, base):
    cases = C.case_list(ctx)
    # whole-collection uploads of n items: extra operation kinds generated here
    ops = B.op_requests()
    for n in putcoll_n_cases(ctx):
        name = "putcoll_n%d" % n
        B.EXTRA_OPS[name] = dict(method="PUT", path="/user/bulk%d/" % n, data=B.EVS(["x%d" % i for i in range(n)]), login=B.L,
                                 kind="RPutColl", coll="user/bulk%d" % n)
        name2 = "putcoll_repl_n%d" % n
        B.EXTRA_OPS[name2] = dict(method="PUT", path="/user/cal2/", data=B.EVS(["y%d" % i for i in range(n)]), login=B.L,
                                  kind="RPutColl", coll="user/cal2")
        lays = [(False, False)] if ctx.quick else B.LAYOUTS
        for lay in lays:
            cases.append(("warm", lay, name))
            cases.append(("warm", lay, name2))
    for o in list(B.extra_requests()) + list(B.names_requests()):
        cases.append(("warm", (False, False), o))
        if not ctx.quick:
            cases.append(("cold", (True, True), o))
    ctx.log("baseline: %d traced requests" % len(cases))
    with C.pool() as p:
        recs = C.baseline(ctx, base, cases, p)
        starts = p.map(B.startup_run, [(base, o) for o in B.startup_requests()], chunksize=1)
    bad_corr = []
    real_traces, keys = [], []
    for (sh, lay, o), rec in zip(cases, recs):
        un = rec["un"]
        key = (o, sh, tuple(lay))
        if rec["problems"]:
            bad_corr.append((key, rec["problems"]))
        if un.get("error"):
            continue
        steps_ok = [st for st, ok in un["steps"] if ok]
        nontrivial = any(st[0] in ("Rename", "Exchange", "Unlink", "Rmdir", "Mkdir") and X.is_data(st[-1] if st[0] in ("Rename", "Exchange") else st[1])
                         or (st[0] == "Rename" and X.is_data(st[1])) for st in steps_ok)
        ctx.case(key, nontrivial=nontrivial,
                 sample=dict(request=o, shape=sh, layout=list(lay), status=un["status"], steps=[X.fmt_step(s) for s in steps_ok[:12]]))
        ctx.count("kind:" + (un["request"] or {}).get("kind", B.all_ops()[o]["kind"]))
        ctx.count("shape:" + sh)
        ctx.count("status:%s" % un["status"])
        ctx.traces_validated += 1
        real_traces.append(steps_ok)
        keys.append(key)
        # ---- the monitor on the real trace
        verdict = X.durable_monitor(steps_ok)
        if verdict is not None and un["status"] in B.SUCCESS:
            ctx.violation("C12: %s on store '%s' (layout %s) answered %s but its system calls are not durable: %s" % (
                o, sh, lay, un["status"], verdict),
                dict(request=B.http_of(B.all_ops()[o]), shape=sh, layout=list(lay), status=un["status"],
                     steps=[X.fmt_step(s) for s in steps_ok], verdict=verdict,
                     note="replay: ./check C12 --replay <this file> re-runs the request under strace"),
                signature="C12:%s" % o)
    # ---- first start on a storage location that does not exist yet
    bad_start = []
    for sr in starts:
        o = sr["opname"]
        if sr.get("error") or not sr.get("created"):
            bad_start.append("%s: %s" % (o, sr.get("error") or "the storage location was not created"))
            continue
        ctx.case((o, "fresh-nested", tuple(sr["lay"])), nontrivial=True,
                 sample=dict(request=o, status=sr["status"], steps=[X.fmt_step(s_) for s_ in sr["steps"][:12]]))
        ctx.count("kind:Startup")
        real_traces.append(sr["steps"])
        keys.append((o, "fresh-nested", tuple(sr["lay"])))
        if sr["verdict"] is not None and sr["status"] in B.SUCCESS:
            ctx.violation("C12: first start on a storage location that does not exist (<existing>/a/b/st), then %s answered %s, but the "
                          "system calls since start-up are not durable: %s (Root = the existing ancestor)" % (o, sr["status"], sr["verdict"]),
                          dict(startup=o, request=B.http_of(B.all_ops()[o]), status=sr["status"], verdict=sr["verdict"],
                               steps=[X.fmt_step(s_) for s_ in sr["steps"]], note="replay: ./check C12 --replay <this file>"),
                          signature="C12:startup:%s" % o)
    ctx.obligation("harness:startup-runs", not bad_start, "; ".join(bad_start[:3]))
    # ---- histories on one long-lived server process: the path of a collection is rebound to another directory between
    #      item-level changes (state kept by the Storage object across requests -- descriptors, paths, flags -- must not
    #      make a later request skip or misdirect its syncs)
    hists = B.histories(ctx.rng, ctx.quick)
    ctx.log("histories on one server process: %d (%d requests)" % (len(hists), sum(len(h[2]) for h in hists)))
    for lay in sorted(set(h[1] for h in hists)):
        B.build_shape("warm", lay, base)       # before the pool: the workers copy it
    with C.pool() as p:
        hres = p.map(B.history_run, [(base, "warm", lay, name, reqs) for name, lay, reqs in hists], chunksize=1)
    bad_hist, whole_traces, nh = [], [], 0
    for (name, lay, reqs), hr in zip(hists, hres):
        if hr.get("error"):
            bad_hist.append("%s: %s" % (name, hr["error"][:300]))
            continue
        unexpected = [r_["request"] + " -> %s" % r_["status"] for r_ in hr["results"] if r_["status"] not in B.SUCCESS]
        if unexpected or len(hr["results"]) != len(reqs):
            bad_hist.append("%s: %s %s" % (name, unexpected[:3], (hr.get("errors") or "")))
        whole_traces.append(((name, "history", tuple(lay)), hr["whole"]))
        ctx.count("kind:History")
        for i, r_ in enumerate(hr["results"]):
            if r_["request"].split()[0] not in B.MODIFYING:
                continue
            nh += 1
            ctx.case(("history", name, tuple(lay), i, r_["request"]), nontrivial=bool(r_["steps"]),
                     sample=dict(history=name, index=i, request=r_["request"], status=r_["status"]))
            ctx.traces_validated += 1
            if r_["status"] in B.SUCCESS and r_["verdict"] is None:
                real_traces.append(r_["steps"])
                keys.append(("history:%s#%d" % (name, i), "warm", tuple(lay)))
            if r_["verdict"]:
                ctx.violation("C12: history %s on ONE server process (store 'warm', layout %s): request #%d %s, after [%s], answered %s but "
                              "its system calls are not durable: %s%s" % (
                                  name, lay, i, r_["request"], "; ".join(x["request"] for x in hr["results"][:i]), r_["status"],
                                  r_["verdict"], ("; " + r_["stale"][0]) if r_["stale"] else ""),
                              dict(history=name, layout=list(lay), shape="warm", requests=reqs, index=i, failing=r_["request"],
                                   status=r_["status"], verdict=r_["verdict"], stale_descriptors=r_["stale"],
                                   steps=[X.fmt_step(s_) for s_ in r_["steps"]],
                                   note="replay: ./check C12 --replay <this file> re-runs the whole history on one server process under strace"),
                              signature="C12:history:%s" % name)
                break
    ctx.extra["history_requests_checked_for_durability"] = nh
    ctx.obligation("harness:history-runs", not bad_hist, "; ".join(bad_hist[:3]))
    # ---- EXDEV on the rename of an item move (collections on different file systems): whatever the server does then,
    #      a success answer needs a durable trace (unchanged code: the request fails, nothing moved).  The rename and a retry of it fail.
    xjobs, xmeta = [], []
    for (sh, lay, o), rec in zip(cases, recs):
        un = rec["un"]
        if un.get("error") or not o.startswith("move_") or un["status"] not in B.SUCCESS:
            continue
        if ctx.quick and not (o in ("move_cross", "move_over_cross", "move_same") and sh == "warm" and tuple(lay) == (False, False)):
            continue
        for i, (st, ok) in enumerate(un["steps"]):
            if ok and st[0] == "Rename" and X.is_data(st[1]) and X.is_data(st[2]):
                name, ordinal = un["sys"][i][0]
                xjobs.append(dict(base=base, shape=sh, lay=lay, opname=o, tag="x-%s-%d%d-%s-%d" % (sh, lay[0], lay[1], o, i),
                                  inject=("fault", "EXDEV", name, ordinal), pre_abs=un["pre_abs"], post_abs=un["post_abs"],
                                  list_before=un["list_before"], list_after=un["list_after"], names=un["names"],
                                  contents=un["contents"], durable_request=True, span=2))
                xmeta.append((o, sh, tuple(lay), X.fmt_step(st)))
    if xjobs:
        ctx.log("EXDEV on item renames: %d runs" % len(xjobs))
        with C.pool() as p:
            xres = p.map(B.inject_run, xjobs, chunksize=1)
        for job, (o, sh, lay, what), res in zip(xjobs, xmeta, xres):
            ctx.case(("rename-exdev", o, sh, lay, what), nontrivial=True, sample=dict(request=o, failing=what, status=res["status"]))
            ctx.count("exdev:%s" % ("refused" if res["status"] not in B.SUCCESS else "answered-2xx"))
            rd = res.get("request_durability") or {}
            if res["hit"] and rd.get("verdict"):
                ctx.violation("C12: %s on store '%s' (layout %s): [%s] fails with EXDEV, the request is answered %s but its system calls "
                              "are not durable: %s" % (o, sh, lay, what, res["status"], rd["verdict"]),
                              dict(request=B.http_of(B.all_ops()[o]), shape=sh, layout=list(lay), inject=list(job["inject"]),
                                   failing=what, errno="EXDEV", status=res["status"], steps=rd.get("steps"), durable_request=True, span=2,
                                   note="replay: ./check C12 --replay <this file>"),
                              signature="C12:exdev:%s" % o)
    # ---- a failing fsync must abort the request: every fsync the durability of the trace depends on is made to fail
    fjobs, fmeta = [], []
    quick_kinds = ("put_new", "put_over", "delete_item", "move_cross", "move_over_cross", "putcoll_replace", "mkcalendar", "proppatch",
                   "delete_coll", "delete_coll_bare", "mkcol")
    for (sh, lay, o), rec in zip(cases, recs):
        un = rec["un"]
        if un.get("error") or o.startswith("home") or un["status"] not in B.SUCCESS:
            continue
        if ctx.quick and not (o in quick_kinds and sh == "warm" and tuple(lay) == (False, False)):
            continue
        if not ctx.quick and o.startswith("putcoll_") and o[-1].isdigit() and not o.endswith(("n2", "n5")):
            continue
        ok_idx = [i for i, (st, ok) in enumerate(un["steps"]) if ok]
        steps_ok = [un["steps"][i][0] for i in ok_idx]
        nreq = 0
        for pos, i in enumerate(ok_idx):
            st = steps_ok[pos]
            if st[0] not in ("FsyncF", "FsyncD"):
                continue
            if X.durable_monitor(steps_ok[:pos] + steps_ok[pos + 1:]) is None:
                continue          # not needed for durability (cache / temp / redundant)
            nreq += 1
            name, ordinal = un["sys"][i][-1] if st[0] == "FsyncD" else un["sys"][i][0]
            for err in (["EIO" if nreq % 2 else "ENOSPC"] if ctx.quick else ["EIO", "ENOSPC"]):
                fjobs.append(dict(base=base, shape=sh, lay=lay, opname=o, tag="f-%s-%d%d-%s-%d-%s" % (sh, lay[0], lay[1], o, i, err),
                                  inject=("fault", err, name, ordinal), pre_abs=un["pre_abs"], post_abs=un["post_abs"],
                                  list_before=un["list_before"], list_after=un["list_after"], names=un["names"], contents=un["contents"]))
                fmeta.append((o, sh, tuple(lay), X.fmt_step(st), err))
    if fjobs:
        ctx.log("failing fsyncs: %d runs" % len(fjobs))
        with C.pool() as p:
            fres = p.map(B.inject_run, fjobs, chunksize=2)
        missed = 0
        for job, (o, sh, lay, what, err), res in zip(fjobs, fmeta, fres):
            ctx.case(("fsync-fails", o, sh, lay, what, err), nontrivial=True,
                     sample=dict(request=o, failing=what, errno=err, status=res["status"]))
            ctx.count("fsync-failure:%s" % ("aborted" if res["status"] not in B.SUCCESS else "answered-2xx"))
            if not res["hit"]:
                missed += 1
                continue
            if res["status"] in B.SUCCESS:
                ctx.violation("C12: %s on store '%s' (layout %s) answered %s although [%s] failed with %s: the change is "
                              "acknowledged without having been flushed" % (o, sh, lay, res["status"], what, err),
                              dict(request=B.http_of(B.all_ops()[o]), shape=sh, layout=list(lay), inject=list(job["inject"]),
                                   failing=what, errno=err, status=res["status"],
                                   note="replay: ./check C12 --replay <this file>"),
                              signature="C12:fsync-failure:%s" % o)
        ctx.extra["fsync_failure_runs"] = len(fjobs)
        ctx.obligation("harness:fsync-injections-hit", missed <= max(1, len(fjobs) // 20), "%d of %d missed" % (missed, len(fjobs)))
    # ---- a failed cache write must not switch syncing off for the rest of the process: fail a call of the item-cache
    #      write, then the same process serves a PUT and a DELETE whose traces go through the durability monitor
    cjobs, cmeta = [], []
    cache_kinds = ("put_new", "put_over", "put_vcf") if ctx.quick else ("put_new", "put_over", "put_over_stale", "put_vcf", "move_cross", "delete_item")
    for (sh, lay, o), rec in zip(cases, recs):
        un = rec["un"]
        if un.get("error") or o not in cache_kinds or un["status"] not in B.SUCCESS:
            continue
        if ctx.quick and not (sh == "warm" and tuple(lay) == (False, False)):
            continue
        cand = [i for i, (st, ok) in enumerate(un["steps"]) if ok and st[0] in ("Create", "Write", "Rename")
                and any(nm[0] in ("CItem", "CHist") for nm in st[1])]
        for j, i in enumerate(cand):
            st = un["steps"][i][0]
            name, ordinal = un["sys"][i][0]
            err = "EIO" if j % 2 == 0 else "ENOSPC"
            cjobs.append(dict(base=base, shape=sh, lay=lay, opname=o, tag="c-%s-%d%d-%s-%d" % (sh, lay[0], lay[1], o, i),
                              inject=("fault", err, name, ordinal), pre_abs=un["pre_abs"], post_abs=un["post_abs"],
                              list_before=un["list_before"], list_after=un["list_after"], names=un["names"],
                              contents=un["contents"], durable_followups=True))
            cmeta.append((o, sh, tuple(lay), X.fmt_step(st), err))
    if cjobs:
        ctx.log("failing cache writes + follow-ups: %d runs" % len(cjobs))
        with C.pool() as p:
            cres = p.map(B.inject_run, cjobs, chunksize=2)
        checked = 0
        for job, (o, sh, lay, what, err), res in zip(cjobs, cmeta, cres):
            ctx.case(("cache-write-fails", o, sh, lay, what, err), nontrivial=True)
            if not res["hit"]:
                continue
            for fd in res.get("followup_durability") or []:
                if fd["status"] in B.SUCCESS and fd["request"].split()[0] in ("PUT", "DELETE", "PROPPATCH", "MOVE", "MKCOL", "MKCALENDAR"):
                    checked += 1
                if fd["verdict"]:
                    ctx.violation("C12: after %s on store '%s' failed in the item-cache write ([%s] -> %s), the SAME server process "
                                  "answered %s with %s but its system calls are not durable: %s" % (
                                      o, sh, what, err, fd["request"], fd["status"], fd["verdict"]),
                                  dict(request=B.http_of(B.all_ops()[o]), shape=sh, layout=list(lay), inject=list(job["inject"]),
                                       failing=what, errno=err, followup=fd, durable_followups=True,
                                       note="replay: ./check C12 --replay <this file>"),
                                  signature="C12:followup-after-cache-failure:%s" % o)
                    break
        ctx.extra["followups_checked_for_durability"] = checked
        ctx.count("followup-durability-checked", checked)
    ctx.obligation("correspondence:trace-vs-model", not bad_corr,
                   "" if not bad_corr else "; ".join("%s: %s" % (k, pr[0]) for k, pr in bad_corr[:6]))
    if bad_corr:
        ctx.extra["disagreements"] = [dict(case=list(map(str, k)), problems=pr) for k, pr in bad_corr[:10]]
    # ---- Python monitor == Coq durableb, on real traces and on mutants
    mut, mut_info = [], []
    for key, t in zip(keys, real_traces):
        for what, m in mutants(t, ctx.rng, 3 if ctx.quick else 12):
            mut.append(m)
            mut_info.append((key, what))
    for key, t in whole_traces:          # whole histories (all requests of one process in one trace): agreement of the two monitors
        mut.append(t)
        mut_info.append((key, "whole history"))
    allt = real_traces + mut
    coq = C.coq_durable(ctx, allt)
    if coq is not None:
        py = [X.durable_monitor(t) is None for t in allt]
        diff = [i for i in range(len(allt)) if py[i] != coq[i]]
        ctx.obligation("correspondence:durable-monitor-python-vs-coq", not diff,
                       "" if not diff else "first: %s python=%s coq=%s" % (
                           (keys + [m[0] for m in mut_info])[diff[0]], py[diff[0]], coq[diff[0]]))
        ctx.obligation("model:real-traces-durable-in-coq", all(coq[:len(real_traces)]),
                       "" if all(coq[:len(real_traces)]) else "non-durable real trace: %s" % (
                           [keys[i] for i in range(len(real_traces)) if not coq[i]][:3],))
        nm = len(mut)
        rejected = sum(1 for v in coq[len(real_traces):] if not v)
        ctx.extra["mutants"] = dict(total=nm, rejected_by_predicate=rejected,
                                    note="mutants that stay durable drop an fsync of a cache / temp path (exempt) or a redundant one")
        ctx.count("mutants", nm)
        ctx.evaluations += nm
        # the predicate must bite: dropping the fsync of a visible item file or of its directory is always rejected
        for (key, what), v, t in zip(mut_info, coq[len(real_traces):], mut):
            pass
        ctx.obligation("monitor:rejects-some-mutants", nm == 0 or rejected > 0, "no mutated trace was rejected")


def replay(ctx, path):
    import json
    data = json.load(open(path))
    print(json.dumps(data, indent=1)[:3000])
    r = data.get("replay", {})
    if not r.get("request") and not r.get("history"):
        return 0
    base = C.make_base()
    try:
        if r.get("history"):
            hr = B.history_run((base, r.get("shape", "warm"), tuple(r["layout"]), r["history"], r["requests"]))
            if hr.get("error"):
                print("history run failed:", hr["error"])
                return 0
            bad = 0
            for i, r_ in enumerate(hr["results"]):
                print("#%d %s -> %s  %s" % (i, r_["request"], r_["status"], "durable" if not r_["verdict"] else "NOT DURABLE: " + r_["verdict"]))
                for x in r_["stale"]:
                    print("      ", x)
                if r_["verdict"]:
                    bad += 1
                    for s_ in r_["steps"]:
                        print("      ", X.fmt_step(s_))
            return 1 if bad else 0
        if r.get("startup"):
            sr = B.startup_run((base, r["startup"]))
            print("status", sr.get("status"), "verdict:", sr.get("verdict"), sr.get("error") or "")
            for s_ in sr.get("steps") or []:
                print("  ", X.fmt_step(s_))
            return 1 if sr.get("verdict") else 0
        op = [k for k, v in B.all_ops().items() if B.http_of(v) == r["request"]]
        if not op:
            print("request not in the catalogue")
            return 0
        un = B.unfaulted(base, r["shape"], tuple(r["layout"]), op[0])
        if r.get("inject"):
            res = B.inject_run(dict(base=base, shape=r["shape"], lay=tuple(r["layout"]), opname=op[0], tag="replay",
                                    inject=tuple(r["inject"]), pre_abs=un["pre_abs"], post_abs=un["post_abs"],
                                    list_before=un["list_before"], list_after=un["list_after"], names=un["names"],
                                    contents=un["contents"], durable_followups=bool(r.get("durable_followups")),
                                    durable_request=bool(r.get("durable_request")), span=r.get("span", 1)))
            print("failing:", r.get("failing"), r.get("errno"), "-> status", res["status"], "hit", res["hit"])
            if r.get("durable_request"):
                rd = res.get("request_durability") or {}
                print("  request trace:", "durable" if not rd.get("verdict") else rd["verdict"])
                for s_ in rd.get("steps") or []:
                    print("    ", s_)
                return 1 if rd.get("verdict") else 0
            if r.get("durable_followups"):
                bad = [fd for fd in res.get("followup_durability") or [] if fd["verdict"]]
                for fd in res.get("followup_durability") or []:
                    print("  follow-up", fd["request"], fd["status"], "durable" if not fd["verdict"] else fd["verdict"])
                return 1 if bad else 0
            return 1 if res["status"] in B.SUCCESS else 0
        steps_ok = [st for st, ok in un["steps"] if ok]
        v = X.durable_monitor(steps_ok)
        print("status", un["status"], "verdict:", v)
        for s in steps_ok:
            print("  ", X.fmt_step(s))
        return 1 if v else 0
    finally:
        C.cleanup(base)
